package c04

import (
	"bytes"
	"encoding/binary"
	"fmt"
	"math"

	capnp "capnproto.org/go/capnp/v3"
	"capnproto.org/go/capnp/v3/verifharness/build"
	"capnproto.org/go/capnp/v3/verifharness/hx"
	"capnproto.org/go/capnp/v3/verifharness/pbt"
	"capnproto.org/go/capnp/v3/verifharness/ref"
	"pgregory.net/rapid"
)

// Every typed list constructor of list.go with its typed Set/At, over drawn arenas: what the typed setters write is
// what the typed getters return, what the independent decoder finds on the wire (element size code and little-endian
// bytes) and what comes back after Marshal/Unmarshal.

type TCase struct {
	Arena build.ArenaSpec `json:"arena"`
	Lists []TList         `json:"lists"`
}

type TList struct {
	Kind string     `json:"kind"` // bit void u8 i8 u16 i16 u32 i32 f32 u64 i64 f64 text data textbytes
	Vals []uint64   `json:"vals,omitempty"`
	Strs []hx.Bytes `json:"strs,omitempty"`
	Skip []int      `json:"skip,omitempty"` // element indices left unset (must read as zero / empty)
}

var typedKinds = []string{"bit", "void", "u8", "i8", "u16", "i16", "u32", "i32", "f32", "u64", "i64", "f64", "text", "data", "textbytes"}

var kindBytes = map[string]int{"u8": 1, "i8": 1, "u16": 2, "i16": 2, "u32": 4, "i32": 4, "f32": 4, "u64": 8, "i64": 8, "f64": 8}

func (l TList) n() int {
	if l.Kind == "text" || l.Kind == "data" || l.Kind == "textbytes" {
		return len(l.Strs)
	}
	return len(l.Vals)
}

func (l TList) skipped(i int) bool {
	for _, s := range l.Skip {
		if s == i {
			return true
		}
	}
	return false
}

func mask(kind string, v uint64) uint64 {
	switch kindBytes[kind] {
	case 1:
		return v & 0xff
	case 2:
		return v & 0xffff
	case 4:
		return v & 0xffffffff
	}
	if kind == "bit" {
		return v & 1
	}
	return v
}

// build creates the list through its typed constructor and fills it through its typed setter.
func (l TList) build(seg *capnp.Segment) (capnp.Ptr, error) {
	n := int32(l.n())
	set := func(i int) bool { return !l.skipped(i) }
	switch l.Kind {
	case "void":
		return capnp.NewVoidList(seg, n).ToPtr(), nil
	case "bit":
		x, err := capnp.NewBitList(seg, n)
		for i, v := range l.Vals {
			if err == nil && set(i) {
				x.Set(i, v&1 == 1)
			}
		}
		return x.ToPtr(), err
	case "u8":
		x, err := capnp.NewUInt8List(seg, n)
		for i, v := range l.Vals {
			if err == nil && set(i) {
				x.Set(i, uint8(v))
			}
		}
		return x.ToPtr(), err
	case "i8":
		x, err := capnp.NewInt8List(seg, n)
		for i, v := range l.Vals {
			if err == nil && set(i) {
				x.Set(i, int8(v))
			}
		}
		return x.ToPtr(), err
	case "u16":
		x, err := capnp.NewUInt16List(seg, n)
		for i, v := range l.Vals {
			if err == nil && set(i) {
				x.Set(i, uint16(v))
			}
		}
		return x.ToPtr(), err
	case "i16":
		x, err := capnp.NewInt16List(seg, n)
		for i, v := range l.Vals {
			if err == nil && set(i) {
				x.Set(i, int16(v))
			}
		}
		return x.ToPtr(), err
	case "u32":
		x, err := capnp.NewUInt32List(seg, n)
		for i, v := range l.Vals {
			if err == nil && set(i) {
				x.Set(i, uint32(v))
			}
		}
		return x.ToPtr(), err
	case "i32":
		x, err := capnp.NewInt32List(seg, n)
		for i, v := range l.Vals {
			if err == nil && set(i) {
				x.Set(i, int32(v))
			}
		}
		return x.ToPtr(), err
	case "f32":
		x, err := capnp.NewFloat32List(seg, n)
		for i, v := range l.Vals {
			if err == nil && set(i) {
				x.Set(i, math.Float32frombits(uint32(v)))
			}
		}
		return x.ToPtr(), err
	case "u64":
		x, err := capnp.NewUInt64List(seg, n)
		for i, v := range l.Vals {
			if err == nil && set(i) {
				x.Set(i, v)
			}
		}
		return x.ToPtr(), err
	case "i64":
		x, err := capnp.NewInt64List(seg, n)
		for i, v := range l.Vals {
			if err == nil && set(i) {
				x.Set(i, int64(v))
			}
		}
		return x.ToPtr(), err
	case "f64":
		x, err := capnp.NewFloat64List(seg, n)
		for i, v := range l.Vals {
			if err == nil && set(i) {
				x.Set(i, math.Float64frombits(v))
			}
		}
		return x.ToPtr(), err
	case "text", "textbytes":
		x, err := capnp.NewTextList(seg, n)
		for i, s := range l.Strs {
			if err == nil && set(i) {
				err = x.Set(i, string(s))
			}
		}
		return x.ToPtr(), err
	case "data":
		x, err := capnp.NewDataList(seg, n)
		for i, s := range l.Strs {
			if err == nil && set(i) {
				err = x.Set(i, []byte(s))
			}
		}
		return x.ToPtr(), err
	}
	return capnp.Ptr{}, fmt.Errorf("unknown kind %q", l.Kind)
}

// read returns element i through the typed getter as (bits, bytes).
func (l TList) read(p capnp.Ptr, i int) (uint64, []byte, error) {
	x := p.List()
	switch l.Kind {
	case "void":
		return 0, nil, nil
	case "bit":
		if (capnp.BitList{List: x}).At(i) {
			return 1, nil, nil
		}
		return 0, nil, nil
	case "u8":
		return uint64(capnp.UInt8List{List: x}.At(i)), nil, nil
	case "i8":
		return uint64(uint8(capnp.Int8List{List: x}.At(i))), nil, nil
	case "u16":
		return uint64(capnp.UInt16List{List: x}.At(i)), nil, nil
	case "i16":
		return uint64(uint16(capnp.Int16List{List: x}.At(i))), nil, nil
	case "u32":
		return uint64(capnp.UInt32List{List: x}.At(i)), nil, nil
	case "i32":
		return uint64(uint32(capnp.Int32List{List: x}.At(i))), nil, nil
	case "f32":
		return uint64(math.Float32bits(capnp.Float32List{List: x}.At(i))), nil, nil
	case "u64":
		return capnp.UInt64List{List: x}.At(i), nil, nil
	case "i64":
		return uint64(capnp.Int64List{List: x}.At(i)), nil, nil
	case "f64":
		return math.Float64bits(capnp.Float64List{List: x}.At(i)), nil, nil
	case "text":
		s, err := capnp.TextList{List: x}.At(i)
		return 0, []byte(s), err
	case "textbytes":
		b, err := capnp.TextList{List: x}.BytesAt(i)
		return 0, b, err
	case "data":
		b, err := capnp.DataList{List: x}.At(i)
		return 0, b, err
	}
	return 0, nil, fmt.Errorf("unknown kind")
}

// want is the wire form the specification prescribes for the list.
func (l TList) want() ref.Value {
	n := l.n()
	v := ref.Value{Kind: ref.KList, N: n}
	switch l.Kind {
	case "void":
		v.LK = ref.LVoid
	case "bit":
		v.LK = ref.LBit
		v.Bits = make([]bool, n)
		for i, x := range l.Vals {
			v.Bits[i] = !l.skipped(i) && x&1 == 1
		}
	case "text", "textbytes", "data":
		v.LK = ref.LPtr
		for i, s := range l.Strs {
			switch {
			case l.skipped(i):
				v.Elems = append(v.Elems, ref.Null())
			case len(s) == 0:
				// the Go API stores an empty string / empty data as a null pointer
				v.Elems = append(v.Elems, ref.Null())
			case l.Kind == "data":
				v.Elems = append(v.Elems, ref.Value{Kind: ref.KList, LK: ref.LB1, N: len(s), Prim: append(ref.Bytes{}, s...)})
			default:
				v.Elems = append(v.Elems, ref.TextV(string(s)))
			}
		}
	default:
		sz := kindBytes[l.Kind]
		v.LK = map[int]ref.ListKind{1: ref.LB1, 2: ref.LB2, 4: ref.LB4, 8: ref.LB8}[sz]
		v.Prim = make(ref.Bytes, n*sz)
		for i, x := range l.Vals {
			if l.skipped(i) {
				continue
			}
			var w [8]byte
			binary.LittleEndian.PutUint64(w[:], x)
			copy(v.Prim[i*sz:], w[:sz])
		}
	}
	return v
}

func (l TList) check(p capnp.Ptr, where string) error {
	x := p.List()
	if !x.IsValid() && l.n() > 0 {
		return pbt.Fail("typed-list/"+l.Kind+"/invalid", "%s: %s list of %d elements reads back as no list", where, l.Kind, l.n())
	}
	if x.Len() != l.n() {
		return pbt.Fail("typed-list/"+l.Kind+"/len", "%s: %s list: Len() = %d, %d elements were requested", where, l.Kind, x.Len(), l.n())
	}
	for i := 0; i < l.n(); i++ {
		bits, bs, err := l.read(p, i)
		if err != nil {
			return pbt.Fail("typed-list/"+l.Kind+"/read-error", "%s: %s list element %d: %v", where, l.Kind, i, err)
		}
		switch l.Kind {
		case "text", "textbytes", "data":
			want := []byte(l.Strs[i])
			if l.skipped(i) {
				want = nil
			}
			if !bytes.Equal(bs, want) {
				return pbt.Fail("typed-list/"+l.Kind+"/element", "%s: %s list element %d reads %q, %q was stored", where, l.Kind, i, bs, want)
			}
		default:
			want := mask(l.Kind, l.Vals[i])
			if l.skipped(i) || l.Kind == "void" {
				want = 0
			}
			if bits != want {
				return pbt.Fail("typed-list/"+l.Kind+"/element", "%s: %s list element %d reads %#x, %#x was stored", where, l.Kind, i, bits, want)
			}
		}
	}
	return nil
}

func runTyped(c TCase) (pbt.Result, error) {
	var res pbt.Result
	msg, seg, err := capnp.NewMessage(c.Arena.New())
	if err != nil {
		return res, pbt.Fail("new-message", "%v", err)
	}
	msg.TraverseLimit = 1 << 50
	root, err := capnp.NewRootStruct(seg, capnp.ObjectSize{DataSize: 8, PointerCount: uint16(len(c.Lists))})
	if err != nil {
		return res, pbt.Fail("api-error/NewRootStruct", "%v", err)
	}
	root.SetUint64(0, 0x0123456789abcdef)
	ptrs := make([]capnp.Ptr, len(c.Lists))
	for i, l := range c.Lists {
		p, err := l.build(seg)
		if err != nil {
			return res, pbt.Fail("api-error/typed-list", "building a %s list of %d elements failed: %v", l.Kind, l.n(), err)
		}
		ptrs[i] = p
		if err := root.SetPtr(uint16(i), p); err != nil {
			return res, pbt.Fail("api-error/SetPtr", "%v", err)
		}
		res.Class("kind:%s", l.Kind)
	}
	// in place: through the handle the constructor returned and through the root's pointer; earlier lists were not
	// disturbed by later ones
	for i, l := range c.Lists {
		if err := l.check(ptrs[i], fmt.Sprintf("handle of list %d", i)); err != nil {
			return res, err
		}
		p, err := root.Ptr(uint16(i))
		if err != nil {
			return res, pbt.Fail("typed-list/"+l.Kind+"/read-error", "root pointer %d: %v", i, err)
		}
		if err := l.check(p, fmt.Sprintf("root pointer %d", i)); err != nil {
			return res, err
		}
	}
	// on the wire
	framed, err := msg.Marshal()
	if err != nil {
		return res, pbt.Fail("marshal-error", "%v", err)
	}
	segs, _, err := ref.Unframe(framed)
	if err != nil {
		return res, pbt.Fail("typed-list/not-spec-conformant", "the marshalled message does not unframe: %v", err)
	}
	got, err := ref.Decode(segs, true)
	if err != nil {
		return res, pbt.Fail("typed-list/not-spec-conformant", "the independent decoder rejects the message: %v", err)
	}
	if got.Kind != ref.KStruct || len(got.Ptrs) < len(c.Lists) {
		return res, pbt.Fail("typed-list/root", "root decodes as kind %v with %d pointers", got.Kind, len(got.Ptrs))
	}
	for i, l := range c.Lists {
		w := l.want()
		g := got.Ptrs[i]
		if g.String() != w.String() {
			return res, pbt.Fail("typed-list/"+l.Kind+"/wire", "pointer %d: the wire holds %s, the %s list written is %s", i, clipS(g.String()), l.Kind, clipS(w.String()))
		}
	}
	if len(segs) > 1 {
		res.Class("multi-segment")
	}
	// after a round trip
	m2, err := capnp.Unmarshal(framed)
	if err != nil {
		return res, pbt.Fail("marshal-unmarshal/error", "%v", err)
	}
	m2.TraverseLimit = 1 << 50
	r2, err := m2.Root()
	if err != nil {
		return res, pbt.Fail("marshal-unmarshal/error", "%v", err)
	}
	for i, l := range c.Lists {
		p, err := r2.Struct().Ptr(uint16(i))
		if err != nil {
			return res, pbt.Fail("typed-list/"+l.Kind+"/read-error", "after Unmarshal, root pointer %d: %v", i, err)
		}
		if err := l.check(p, fmt.Sprintf("after Unmarshal, root pointer %d", i)); err != nil {
			return res, err
		}
	}
	res.Nontrivial = len(c.Lists) >= 2
	return res, nil
}

var _ = pbt.Register(pbt.Spec[TCase]{
	Property: "C04", Name: "typed-lists",
	Rule:  "1-5 lists per message, each made with one of the 14 typed constructors of list.go (Void, Bit, UInt8..Float64, Text, Data) in a drawn arena (single/multi segment, capacities from 1 word so that far pointers occur), filled through the typed Set (values with extremes; Text/Data of 0-40 arbitrary bytes, text without NUL; some elements left unset). Oracle: typed At/BytesAt return what was stored (floats bit for bit, unset elements zero/empty) through the constructor's handle and through the root pointer, before and after Marshal/Unmarshal; the independent decoder finds, for each list, exactly the element-size code, count and little-endian bytes the specification prescribes. Non-trivial: >= 2 lists in the message.",
	Quick: 3000, Thorough: 60000,
	Gen: func(t *rapid.T) TCase {
		c := TCase{Arena: build.GenArena(t)}
		for i, n := 0, rapid.IntRange(1, 5).Draw(t, "nlists"); i < n; i++ {
			l := TList{Kind: rapid.SampledFrom(typedKinds).Draw(t, "kind")}
			cnt := rapid.SampledFrom([]int{0, 1, 2, 3, 7, 8, 9, 15, 16, 17, 63, 64, 65, 200}).Draw(t, "n")
			for k := 0; k < cnt; k++ {
				if l.Kind == "text" || l.Kind == "data" || l.Kind == "textbytes" {
					if k >= 12 {
						break
					}
					b := rapid.SliceOfN(rapid.Byte(), 0, 40).Draw(t, "s")
					if l.Kind != "data" {
						b = bytes.ReplaceAll(b, []byte{0}, []byte{1})
					}
					l.Strs = append(l.Strs, b)
				} else {
					l.Vals = append(l.Vals, rapid.SampledFrom([]uint64{0, 1, 0x7f, 0x80, 0xff, 0x7fff, 0x8000, 0xffff, 0x7fffffff, 0x80000000, 0xffffffff, 1 << 63, ^uint64(0), rapid.Uint64().Draw(t, "rnd")}).Draw(t, "v"))
				}
				if rapid.IntRange(0, 9).Draw(t, "skip") == 0 {
					l.Skip = append(l.Skip, k)
				}
			}
			c.Lists = append(c.Lists, l)
		}
		return c
	},
	Run: runTyped,
})

func clipS(s string) string {
	if len(s) > 300 {
		return s[:300] + "..."
	}
	return s
}
