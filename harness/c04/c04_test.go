package c04

import (
	"bytes"
	"fmt"
	"io"
	"testing"

	capnp "capnproto.org/go/capnp/v3"
	"capnproto.org/go/capnp/v3/verifharness/build"
	"capnproto.org/go/capnp/v3/verifharness/hx"
	"capnproto.org/go/capnp/v3/verifharness/pbt"
	"capnproto.org/go/capnp/v3/verifharness/ref"
	"capnproto.org/go/capnp/v3/verifharness/walk"
	"pgregory.net/rapid"
)

func TestProp(t *testing.T)   { pbt.RunProps(t) }
func TestReplay(t *testing.T) { pbt.RunReplay(t) }

type Case struct {
	Prog      build.Program `json:"program"`
	EveryStep bool          `json:"check_every_step"`
	Chunks    []int         `json:"chunks"`
	EOFWith   bool          `json:"eof_with_data"`
}

func checkAll(m *build.Machine, where string) error {
	rp, rerr := m.Msg.Root()
	if err := walk.Expect(rp, rerr, m.RootValue(), where+"root"); err != nil {
		return err
	}
	hs, vs := m.OrphanValues()
	for i := range hs {
		if err := walk.Expect(hs[i], nil, vs[i], fmt.Sprintf("%sorphan%d", where, i)); err != nil {
			if v, ok := err.(*pbt.Violation); ok {
				v.Sig = "unattached-object/" + v.Sig
			}
			return err
		}
	}
	return nil
}

func run(c Case) (pbt.Result, error) {
	var res pbt.Result
	m, err := build.NewMachine(c.Prog.Arena)
	if err != nil {
		return res, pbt.Fail("new-message", "%v", err)
	}
	if c.EveryStep {
		m.OnStep = func(m *build.Machine) error { return checkAll(m, "after-step:") }
	}
	if err := m.Run(c.Prog); err != nil {
		if ae, ok := err.(*build.APIError); ok {
			return res, pbt.Fail("api-error/"+ae.Op, "builder API failed on a well-formed program: %v", ae)
		}
		return res, err
	}
	if err := checkAll(m, "final:"); err != nil {
		return res, err
	}
	model := m.RootValue()
	nseg := int(m.Msg.NumSegments())
	res.Class("arena:%d", c.Prog.Arena.Kind)
	res.Class("segs:%s", segBucket(nseg))
	res.Count("moves", int64(m.Stats.Moves))
	res.Count("copies", int64(m.Stats.Copies))
	res.Count("reopens", int64(m.Stats.Reopens))
	res.Count("overwrites", int64(m.Stats.Overwrites))

	// serialisation paths
	plain, err := m.Msg.Marshal()
	if err != nil {
		return res, pbt.Fail("marshal-error", "%v", err)
	}
	// classify pointer kinds from the produced bytes with the independent decoder
	far, dfar := countFar(plain)
	if far > 0 {
		res.Class("has:far")
	}
	if dfar > 0 {
		res.Class("has:double-far")
	}
	res.Nontrivial = nseg >= 2 && (far > 0 || dfar > 0) && model.Depth() >= 2

	expectMsg := func(name string, msg *capnp.Message, err error) error {
		if err != nil {
			return pbt.Fail(name+"/error", "%v", err)
		}
		msg.TraverseLimit = 1 << 50
		p, perr := msg.Root()
		if e := walk.Expect(p, perr, model, name+":root"); e != nil {
			if v, ok := e.(*pbt.Violation); ok {
				v.Sig = name + "/" + v.Sig
			}
			return e
		}
		return nil
	}
	m1, err := capnp.Unmarshal(append([]byte(nil), plain...))
	if e := expectMsg("marshal-unmarshal", m1, err); e != nil {
		return res, e
	}
	pk, err := m.Msg.MarshalPacked()
	if err != nil {
		return res, pbt.Fail("marshalpacked-error", "%v", err)
	}
	m2, err := capnp.UnmarshalPacked(pk)
	if e := expectMsg("packed-unmarshal", m2, err); e != nil {
		return res, e
	}
	var eb bytes.Buffer
	if err := capnp.NewEncoder(&eb).Encode(m.Msg); err != nil {
		return res, pbt.Fail("encoder-error", "%v", err)
	}
	if !bytes.Equal(eb.Bytes(), plain) {
		return res, pbt.Fail("encoder-differs-from-marshal", "Encoder output differs from Marshal()")
	}
	// One Encoder writes, one Decoder reads, a stream in which the message travels between others of different shapes
	// (six segments before it, one segment after it, then the message again): what a Decoder keeps from one message
	// must not leak into the next.
	for _, packed := range []bool{false, true} {
		name := "encoder-decoder"
		var sb bytes.Buffer
		enc := capnp.NewEncoder(&sb)
		if packed {
			name = "packedencoder-decoder"
			enc = capnp.NewPackedEncoder(&sb)
		}
		for _, msg := range []*capnp.Message{filler(6), m.Msg, filler(1), m.Msg} {
			if err := enc.Encode(msg); err != nil {
				return res, pbt.Fail(name+"/encode-error", "%v", err)
			}
		}
		rd := &hx.ChunkReader{Data: append([]byte(nil), sb.Bytes()...), Chunks: c.Chunks, EOFWithData: c.EOFWith}
		dec := capnp.NewDecoder(rd)
		if packed {
			dec = capnp.NewPackedDecoder(rd)
			dec.ReuseBuffer()
		}
		for i, wantSegs := range []int64{6, -1, 1, -1} {
			mi, err := dec.Decode()
			if wantSegs < 0 {
				if e := expectMsg(fmt.Sprintf("%s/message-%d-of-stream", name, i), mi, err); e != nil {
					return res, e
				}
				continue
			}
			if err != nil || mi.NumSegments() != wantSegs {
				return res, pbt.Fail(name+"/filler", "message %d of the stream (a %d-segment filler): err=%v", i, wantSegs, err)
			}
		}
		if _, err := dec.Decode(); err != io.EOF {
			return res, pbt.Fail(name+"/no-eof", "Decode after the last message: %v", err)
		}
	}
	return res, nil
}

// filler returns a message of n one-word segments (null root).
func filler(n int) *capnp.Message {
	segs := make([][]byte, n)
	for i := range segs {
		segs[i] = make([]byte, 8)
	}
	return &capnp.Message{Arena: capnp.MultiSegment(segs)}
}

func segBucket(n int) string {
	switch {
	case n == 1:
		return "1"
	case n <= 3:
		return "2-3"
	case n <= 8:
		return "4-8"
	default:
		return ">8"
	}
}

func countFar(framed []byte) (far, dfar int) {
	segs, _, err := ref.Unframe(framed)
	if err != nil {
		return
	}
	d := &ref.Decoder{Segs: segs}
	if _, err := d.Root(); err != nil {
		return
	}
	for _, e := range d.Extents {
		switch e.What {
		case "pad":
			far++
		case "pad2":
			dfar++
		}
	}
	return
}

var _ = pbt.Register(pbt.Spec[Case]{
	Property: "C04", Name: "build-readback",
	Rule:  "build programs of up to 40 ops (new struct/primitive/bit/void/pointer/composite list/text/data; set data at every width and bit; set list elements; SetPtr with null / orphan (move) / list-member (documented deep copy) / capability / SetNewText / SetData; List.SetStruct; Struct.CopyFrom; SetRoot incl. re-rooting; overwrites) over 5 arena kinds (SingleSegment nil/cap, MultiSegment nil/small first segment, own exact-capacity arena with 0-3 slack words, dirty spare capacity) with a reference model updated alongside; oracle: after every mutating op (half of the cases) and at the end the tree read back through getters equals the model, also for objects not attached to the root; then Marshal/Unmarshal, MarshalPacked/UnmarshalPacked, Encoder/Decoder and PackedEncoder/PackedDecoder(+ReuseBuffer) over drawn reader chunkings read back equal, the message travelling twice in one stream between a six-segment and a one-segment message on one Encoder and one Decoder. Non-trivial: >=2 segments with a far or double-far pointer and depth>=2.",
	Quick: 10000, Thorough: 120000,
	Gen: func(t *rapid.T) Case {
		c := Case{Prog: build.GenProgram(t, 40), EveryStep: rapid.Bool().Draw(t, "everystep")}
		n := rapid.IntRange(0, 3).Draw(t, "nchunks")
		for i := 0; i < n; i++ {
			c.Chunks = append(c.Chunks, rapid.SampledFrom([]int{1, 3, 7, 8, 9, 64, 4096}).Draw(t, "chunk"))
		}
		c.EOFWith = rapid.Bool().Draw(t, "eofwd")
		return c
	},
	Run: run,
})
