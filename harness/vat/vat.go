// Package vat plays a protocol-conforming peer vat (B) and a local application against a live rpc.Conn (vat A) and
// checks what B observes, what the application observes and what the recording objects observe against a model of
// the Cap'n Proto RPC level 1 rules.  It is the engine behind the C06 (returns / ordering / pipelining / embargo) and
// C07 (wire reference counts) checks.
package vat

import (
	"context"
	"fmt"
	"os"
	"strings"
	"time"

	capnp "capnproto.org/go/capnp/v3"
	"capnproto.org/go/capnp/v3/rpc"
	"capnproto.org/go/capnp/v3/verifharness/pbt"
	"capnproto.org/go/capnp/v3/verifharness/rpcsim"
)

var Deadline = func() time.Duration {
	if os.Getenv("VERIF_FAST_DEADLINE") != "" {
		return 2 * time.Second
	}
	return 30 * time.Second
}()

// Step of a history.  A, B, C select among the candidates that exist when the step runs.
type Step struct {
	K string `json:"k"`
	A int    `json:"a,omitempty"`
	B int    `json:"b,omitempty"`
	C int    `json:"c,omitempty"`
}

type Case struct {
	Steps []Step `json:"steps"`
	// CloseAt >= 0: Close the connection after that many steps without the orderly wind-down.
	CloseAt int `json:"close_at"`
	// Burst: consecutive peer steps are sent back to back; the harness waits for quiescence only before application
	// steps and at the end of a run of peer steps (messages then race with returns and with each other inside A).
	Burst bool `json:"burst,omitempty"`
}

// Which oracle families report.
type Options struct {
	Returns bool // C06: returns, ordering, pipelining, embargo, question ids
	Refs    bool // C07: reference counts, releases, object lifetimes
}

const (
	objNone  = -1 // no delivery: the call must be answered with an exception
	objBcap  = -3 // the destination is hosted by B: the call bounces back to B
	objLoose = -4 // outcome not determined by the protocol (target answer was cancelled)
	objViaB  = -5 // pipelined on a call that A forwards to B: A may forward it too; B's forwarded answers hold no capabilities, so it fails
)

// capRef names a capability in the model.
type capRef struct {
	kind string // "none" "A" (object hosted by A) "B" (capability hosted by B) "new" (object created by call serial)
	obj  int    // A: object id
	bid  uint32 // B: B's export id; A: the export id under which B knows the object (when B names it)
	ser  uint64 // new: creating call
}

func (c capRef) String() string {
	switch c.kind {
	case "A":
		return fmt.Sprintf("A-object %d", c.obj)
	case "B":
		return fmt.Sprintf("B-capability %d", c.bid)
	case "new":
		return fmt.Sprintf("object created by call %d", c.ser)
	}
	return "no capability"
}

// bq: a question B asked A.
type bq struct {
	id        uint32
	kind      string // boot call pcall fwd
	serial    uint64
	flags     uint64
	sentIdx   int
	dep       *bq      // pcall: the answer it is pipelined on
	path      []uint16 // pcall
	direct    uint32   // call/fwd: export id addressed
	param     capRef   // capability in params pointer 0
	dest      int      // object id, or objNone/objBcap/objLoose; resolved lazily for pcalls on pending answers
	destBid   uint32
	resolved  bool
	opened    bool
	finished  bool
	rrc       bool
	returned  bool
	ret       rpcsim.Msg
	retRefs   map[uint32]int // senderHosted descriptors in the Return
	retObjs   []int          // objects named by the Return's descriptors (kept alive by the answer until Finish)
	fwdOf     *aq
	loose     bool
	cancelled bool   // Finish was sent before the Return arrived: the call may or may not have completed
	key       string // the reference the call was made on: E<export> or P<question#>/<path>
	retAt     int    // B's send counter when the Return arrived
}

func (q *bq) held() bool { return q.flags&rpcsim.FlagHold != 0 }

// aq: a question A asked B.
type aq struct {
	id         uint32
	kind       string // boot call
	serial     uint64
	flags      uint64
	msg        rpcsim.Msg
	arrival    int
	returned   bool
	finishSeen bool
	finishRRC  bool
	retCaps    []capRef // per result pointer (index 0 = content for boot)
	retBids    map[uint32]int
	exc        bool
	params     map[uint32]int // senderHosted descriptors in the params
	// destination as B resolves it
	destKnown bool
	dest      capRef
	pendOn    *aq
	pendPath  []uint16
	bounceOf  *bq
	fwd       *bq
	fwdDone   bool
	app       *appCall
	boot      *appClient
	retSerial uint64
}

type appClient struct {
	idx      int
	c        *capnp.Client
	boot     *aq    // bootstrap question (nil for getcap)
	bootIdx  int    // n-th Bootstrap issued
	ref      capRef // for getcap clients: what the pointer named
	from     *appCall
	field    int
	embargo  *embargo
	released bool
}

type appCall struct {
	idx       int
	serial    uint64
	flags     uint64
	ans       *capnp.Answer // use answer()
	rel       capnp.ReleaseFunc
	pending   chan struct{} // non-nil: the call was issued on a goroutine (calls on an embargoed capability block)
	cancel    context.CancelFunc
	cancelled bool
	either    bool // the object the call runs on may be shut down under it: it may succeed or be cancelled
	released  bool
	q         *aq // set when B sees the Call
	// expectation fixed when the call is issued
	wantWire        bool   // a Call message must reach B
	wantDest        capRef // if known at issue time
	wantPend        *aq
	wantPath        []uint16
	localObj        int // >= 0: delivered inside A to this object (no wire traffic)
	localEmb        *embargo
	errOnly         bool // the target is broken: the answer must be an error, nothing is delivered
	paramObj        int  // local object passed in params (-1 none)
	paramBid        int64
	key             string // the reference the call was made on
	resolvedChecked bool
}

// answer returns the call's answer once the send has returned.
func (ac *appCall) answer() *capnp.Answer {
	if ac.pending != nil {
		select {
		case <-ac.pending:
		default:
			return nil
		}
	}
	return ac.ans
}

type embargo struct {
	q      *aq
	path   []uint16
	id     uint32
	exp    uint32
	seen   bool // Disembargo(senderLoopback) seen from A
	echoed bool
}

// peerEmbargo: B pipelined calls on one of its questions, A's Return named one of B's own capabilities there; B sends
// Disembargo(senderLoopback) and A must echo it after the calls it forwarded.
type peerEmbargo struct {
	q       *bq
	path    []uint16
	bid     uint32
	id      uint32
	sentIdx int
	echoed  bool
}

type expEnt struct {
	obj  int
	refs int
}

type engine struct {
	c     Case
	opt   Options
	w     *rpcsim.Wire
	world *rpcsim.World
	conn  *rpc.Conn
	res   *pbt.Result

	nmsgs   int
	log     []string
	aborted bool

	// B side
	nextQ         uint32
	freeQ         []uint32
	bqs           map[uint32]*bq
	allB          []*bq
	bySerial      map[uint64]*bq
	serial        uint64
	sentIdx       int
	exports       map[uint32]*expEnt
	nextBid       uint32
	bout          map[uint32]int // outstanding references A holds on B's capability (descriptors sent - released)
	bsent         map[uint32]int
	aqs           map[uint32]*aq
	allA          []*aq
	arrival       int
	bootsSeen     int
	marker        uint32
	embargoes     []*embargo
	peerEmbargoes []*peerEmbargo

	// application side
	clients   []*appClient
	calls     []*appCall
	appSer    map[uint64]*appCall
	nboots    int
	objNew    map[uint64]int // serial -> object created
	delivered map[uint64]int // serial -> object
	closed    bool
	stats     map[string]int
	unsettled map[uint32]int // descriptors of B's capabilities sent since the last quiescent point (A may not have seen them yet)
	blocked   *appCall       // the application thread is inside a call on an embargoed capability
	openedSer map[uint64]bool
	called    map[*aq][][]uint16
	appObj    map[int]bool
}

func (e *engine) logf(format string, args ...interface{}) {
	e.log = append(e.log, fmt.Sprintf(format, args...))
}

func (e *engine) fail(sig, format string, args ...interface{}) error {
	tail := e.log
	if len(tail) > 60 {
		tail = tail[len(tail)-60:]
	}
	return pbt.Fail(sig, "%s\n--- history (last %d events) ---\n%s", fmt.Sprintf(format, args...), len(tail), strings.Join(tail, "\n"))
}

// ---------------------------------------------------------------------------------------------------------
// B: incoming messages

func (e *engine) refreshWorld() {
	for _, ev := range e.world.Log.Snapshot() {
		switch ev.Kind {
		case "object-new":
			e.objNew[ev.Call] = ev.Hook
		}
	}
}

func (e *engine) resolveRef(r capRef) capRef {
	if r.kind == "new" {
		if o, ok := e.objNew[r.ser]; ok {
			return capRef{kind: "A", obj: o}
		}
	}
	return r
}

// answerPath: what capability the results of B's question q hold at path (model of the recording object).
func (e *engine) answerPath(q *bq, path []uint16) (capRef, bool) {
	return e.answerPathOpt(q, path, false)
}

// answerPathOpt: with ifCompleted, what the results hold *if* the call ran to completion (used to identify the
// objects named by the Return of a call whose fate was open).
func (e *engine) answerPathOpt(q *bq, path []uint16, ifCompleted bool) (capRef, bool) {
	none := capRef{kind: "none"}
	if !ifCompleted && (q.loose || q.cancelled || (q.finished && !q.returned)) {
		return none, false // indeterminate
	}
	e.resolveDest(q)
	if !q.resolved && !ifCompleted {
		return capRef{kind: "new", ser: q.serial}, true // not known yet: the caller treats "new" as unresolved
	}
	if q.dest == objLoose && !ifCompleted {
		return none, false
	}
	if q.kind == "boot" {
		if len(path) == 0 {
			return capRef{kind: "A", obj: 0}, true
		}
		return none, true
	}
	if q.dest == objBcap || q.dest == objViaB {
		return capRef{kind: "viaB"}, true
	}
	if q.dest == objNone || q.flags&rpcsim.FlagErr != 0 {
		return none, true
	}
	if len(path) != 1 || path[0] > 1 {
		return none, true
	}
	first := none
	switch (q.flags >> rpcsim.FlagCapShift) & 3 {
	case rpcsim.CapNewObject:
		first = capRef{kind: "new", ser: q.serial}
	case rpcsim.CapEchoParam:
		if q.param.kind != "none" && q.param.kind != "" {
			first = q.param
		}
	}
	if first.kind == "none" {
		return none, true // no capability in pointer 0: the object puts nothing in pointer 1 either
	}
	if path[0] == 0 {
		return first, true
	}
	switch {
	case q.flags&rpcsim.FlagSecond != 0:
		return capRef{kind: "new", ser: q.serial | rpcsim.SecondMark}, true
	case q.flags&rpcsim.FlagTwice != 0:
		return first, true
	}
	return none, true
}

// resolveDest fixes where B's question q must be delivered.
func (e *engine) resolveDest(q *bq) {
	if q.resolved {
		return
	}
	switch q.kind {
	case "boot":
		q.dest, q.resolved = objNone, true
	case "call", "fwd":
		q.dest, q.resolved = e.exports[q.direct].obj, true
	case "pcall":
		e.resolveDest(q.dep)
		if q.dep.loose || q.dep.cancelled {
			// whatever happens to the answer it is pipelined on may happen to it, at any time
			q.dest, q.loose, q.resolved = objLoose, true, true
			return
		}
		if q.dep.kind != "boot" && !q.dep.resolved {
			return // the answer it is pipelined on has no destination yet
		}
		if q.dep.dest >= 0 && q.dep.held() && !q.dep.opened && !q.dep.returned && !q.dep.finished {
			return // the answer it is pipelined on is still being computed
		}
		ref, det := e.answerPath(q.dep, q.path)
		if !det {
			q.dest, q.loose, q.resolved = objLoose, true, true
			return
		}
		ref = e.resolveRef(ref)
		switch ref.kind {
		case "A":
			q.dest, q.resolved = ref.obj, true
		case "B":
			q.dest, q.destBid, q.resolved = objBcap, ref.bid, true
		case "viaB":
			q.dest, q.resolved = objViaB, true
		case "new":
			// creating call has not run yet
		default:
			q.dest, q.resolved = objNone, true
		}
	}
}

func (e *engine) onMsg(m rpcsim.Msg) error {
	e.nmsgs++
	e.logf("  A->B %s", m.String())
	e.refreshWorld()
	switch m.Which {
	case "unimplemented":
		if m.Inner != nil && m.Inner.Which == "join" {
			return nil // marker echo
		}
		return e.fail("conformance/unimplemented", "A answered a valid level-1 message with Unimplemented: %s", m.String())
	case "abort":
		e.aborted = true
		return e.fail("conformance/abort", "A aborted the connection on valid traffic: %q", m.Reason)
	case "bootstrap":
		if old := e.aqs[m.ID]; old != nil {
			return e.fail("question-id-reuse", "A sent Bootstrap with question id %d, which is still in use (Finish not sent yet; returned=%v)", m.ID, old.returned)
		}
		q := &aq{id: m.ID, kind: "boot", msg: m, arrival: e.arrival}
		e.arrival++
		e.aqs[m.ID] = q
		e.allA = append(e.allA, q)
		// the n-th Bootstrap message belongs to the n-th Bootstrap() the application issued
		for _, cl := range e.clients {
			if cl.boot == nil && cl.bootIdx == e.bootsSeen && cl.from == nil {
				cl.boot, q.boot = q, cl
			}
		}
		e.bootsSeen++
		if q.boot == nil {
			return e.fail("conformance/unexpected-bootstrap", "A sent a Bootstrap the application did not ask for")
		}
		return nil
	case "call":
		return e.onCall(m)
	case "return":
		return e.onReturn(m)
	case "finish":
		q := e.aqs[m.ID]
		if q == nil || q.finishSeen {
			return e.fail("conformance/finish-unknown", "A sent Finish for question id %d, which is not outstanding", m.ID)
		}
		q.finishSeen, q.finishRRC = true, m.Flag
		if m.Flag && q.returned {
			for bid, n := range q.retBids {
				e.bout[bid] -= n
			}
			// A had given the call up before the Return reached it (the two crossed): it keeps nothing of the results,
			// so the answer's capability table does not hold A's own objects either
			q.retCaps = nil
		}
		if q.returned {
			delete(e.aqs, m.ID)
		}
		return nil
	case "release":
		out := e.bout[m.ID]
		if int(m.Count) > out || m.Count == 0 {
			return e.fail("refs/import-over-release", "A sent Release(id=%d, count=%d) but holds only %d references on that capability", m.ID, m.Count, out)
		}
		// (Releases of successive generations of one import may overtake each other on the way to the sender lock, so
		// a single Release need not carry everything received so far; what must hold is that the counts add up, which
		// is checked when everything has been given back.)
		e.bout[m.ID] -= int(m.Count)
		e.stats["import-releases"]++
		return nil
	case "disembargo":
		if m.DisCtx == "receiverLoopback" {
			// the echo of a Disembargo B sent for one of its own capabilities that A returned to it
			for _, pe := range e.peerEmbargoes {
				if pe.id == m.DisID && !pe.echoed {
					if m.TargetKind != "import" || m.TargetID != pe.bid {
						return e.fail("embargo/echo-target", "A echoed Disembargo %d for %s; it must address B's capability %d", m.DisID, m.String(), pe.bid)
					}
					// every call B pipelined on that path before the Disembargo must have been forwarded to B first
					for _, q := range e.allB {
						if q.kind == "pcall" && q.dep == pe.q && samePath(q.path, pe.path) && q.sentIdx < pe.sentIdx && !q.loose && !q.finished {
							bounced := false
							for _, a := range e.allA {
								if a.bounceOf == q {
									bounced = true
								}
							}
							if !bounced {
								return e.fail("embargo/echo-before-forwarded-calls", "A echoed Disembargo %d before forwarding call %d, which B had pipelined on the same path earlier: B would deliver later calls ahead of it", m.DisID, q.serial)
							}
						}
					}
					pe.echoed = true
					e.stats["peer-disembargo-echoed"]++
					return nil
				}
			}
			return e.fail("embargo/unexpected-echo", "A sent %s, which answers no Disembargo of B", m.String())
		}
		if m.DisCtx != "senderLoopback" {
			return e.fail("conformance/disembargo", "unexpected Disembargo from A: %s", m.String())
		}
		if m.TargetKind != "answer" {
			return e.fail("conformance/disembargo", "senderLoopback Disembargo from A not addressed to a promised answer: %s", m.String())
		}
		for _, em := range e.embargoes {
			if em.q.id == m.TargetID && samePath(em.path, m.Transform) && !em.seen && !em.q.finishSeen {
				em.seen, em.id = true, m.DisID
				return nil
			}
		}
		return e.fail("embargo/unexpected-disembargo", "A sent %s but no pipelined call was made on that path of a question that resolved to an A-hosted capability", m.String())
	}
	return e.fail("conformance/unexpected-message", "unexpected message from A: %s", m.String())
}

func samePath(a, b []uint16) bool {
	if len(a) != len(b) {
		return false
	}
	for i := range a {
		if a[i] != b[i] {
			return false
		}
	}
	return true
}

func (e *engine) onCall(m rpcsim.Msg) error {
	if old := e.aqs[m.ID]; old != nil {
		return e.fail("question-id-reuse", "A sent Call with question id %d, which is still in use (its Finish has not been sent; returned=%v)", m.ID, old.returned)
	}
	q := &aq{id: m.ID, kind: "call", msg: m, serial: m.Serial, flags: m.Flags, arrival: e.arrival, params: map[uint32]int{}}
	e.arrival++
	e.aqs[m.ID] = q
	e.allA = append(e.allA, q)
	if m.Iface != rpcsim.Iface || m.Method != rpcsim.Method {
		return e.fail("conformance/call-method", "A sent a call for the wrong method: %s", m.String())
	}
	// who is this?
	if ac := e.appSer[m.Serial]; ac != nil {
		if ac.q != nil {
			return e.fail("call-duplicated", "the application's call %d reached B twice", m.Serial)
		}
		ac.q, q.app = q, ac
	} else if b := e.bySerial[m.Serial]; b != nil {
		q.bounceOf = b
	} else {
		return e.fail("conformance/unknown-call", "A sent a call nobody issued: %s", m.String())
	}
	// target
	switch m.TargetKind {
	case "import":
		if e.bout[m.TargetID] <= 0 {
			return e.fail("refs/call-on-released-import", "A called B's capability %d, on which it holds no reference", m.TargetID)
		}
		q.destKnown, q.dest = true, capRef{kind: "B", bid: m.TargetID}
	case "answer":
		t := e.aqs[m.TargetID]
		if t == nil || t.finishSeen {
			return e.fail("conformance/pipeline-on-finished", "A pipelined call %d on question %d, which is not outstanding (Finish already sent)", m.Serial, m.TargetID)
		}
		if t.returned {
			q.destKnown, q.dest = true, e.aqPath(t, m.Transform)
		} else {
			q.pendOn, q.pendPath = t, m.Transform
		}
	default:
		return e.fail("conformance/call-target", "A sent a call with an unusable target: %s", m.String())
	}
	// the capability table of the params
	for i, d := range m.Caps {
		switch d.Kind {
		case "senderHosted":
			want := -1
			if q.app != nil && q.app.paramObj >= 0 && i == 0 {
				want = q.app.paramObj
			} else if q.bounceOf != nil && q.bounceOf.param.kind == "A" && i == 0 {
				want = q.bounceOf.param.obj
			}
			if want < 0 {
				return e.fail("refs/unexpected-descriptor", "call %d from A carries senderHosted(%d) but no A-hosted capability was passed", m.Serial, d.ID)
			}
			if err := e.countExport(d.ID, want, fmt.Sprintf("params of call %d", m.Serial)); err != nil {
				return err
			}
			q.params[d.ID]++
		case "receiverHosted":
			if e.bout[d.ID] <= 0 {
				return e.fail("refs/descriptor-on-released-import", "call %d from A names receiverHosted(%d), on which A holds no reference", m.Serial, d.ID)
			}
			if q.app != nil && (q.app.paramBid < 0 || uint32(q.app.paramBid) != d.ID) {
				return e.fail("refs/wrong-descriptor", "call %d from A names receiverHosted(%d); the application passed %d", m.Serial, d.ID, q.app.paramBid)
			}
		case "none":
		default:
			return e.fail("conformance/descriptor", "call %d from A carries a %s descriptor", m.Serial, d.Kind)
		}
	}
	// destination expectations of application calls
	if ac := q.app; ac != nil {
		if !ac.wantWire {
			return e.fail("call-misrouted", "the application's call %d was addressed to a capability inside A (object %d) but was sent to B: %s", ac.serial, ac.localObj, m.String())
		}
		if ac.wantPend != nil {
			if m.TargetKind != "answer" || m.TargetID != ac.wantPend.id || !samePath(m.Transform, ac.wantPath) {
				return e.fail("call-misrouted", "the application's call %d was pipelined on question %d path %v, but B received %s", ac.serial, ac.wantPend.id, ac.wantPath, m.String())
			}
		} else if q.destKnown && ac.wantDest.kind == "B" {
			if q.dest.kind != "B" || q.dest.bid != ac.wantDest.bid {
				return e.fail("call-misrouted", "the application's call %d was made on %s, but B received it for %s (%s)", ac.serial, ac.wantDest, q.dest, m.String())
			}
		}
	}
	if q.bounceOf != nil {
		// B answers calls that A forwards to B's own capabilities at once
		e.resolveDest(q.bounceOf)
		if q.bounceOf.dest == objViaB {
			e.sendReturn(q, rpcsim.PeerReturn{A: q.id, Exc: "pipelined call on a null capability"}, nil)
			return nil
		}
		if !(q.bounceOf.dest == objBcap || q.bounceOf.loose) {
			return e.fail("call-misrouted", "B's call %d was to be delivered to object %d inside A, but A sent it to B: %s", m.Serial, q.bounceOf.dest, m.String())
		}
		if q.destKnown && q.bounceOf.dest == objBcap && (q.dest.kind != "B" || q.dest.bid != q.bounceOf.destBid) {
			return e.fail("call-misrouted", "B's call %d was pipelined to B-capability %d, but A forwarded it to %s", m.Serial, q.bounceOf.destBid, q.dest)
		}
		e.sendReturn(q, rpcsim.PeerReturn{A: q.id, Serial: m.Serial}, nil)
	}
	return nil
}

// aqPath: what B returned for A's question t at path.
func (e *engine) aqPath(t *aq, path []uint16) capRef {
	none := capRef{kind: "none"}
	if t.exc {
		return none
	}
	if t.kind == "boot" {
		if len(path) == 0 && len(t.retCaps) > 0 {
			return t.retCaps[0]
		}
		return none
	}
	if len(path) == 1 && int(path[0]) < len(t.retCaps) {
		return t.retCaps[path[0]]
	}
	return none
}

func (e *engine) countExport(id uint32, obj int, where string) error {
	ent := e.exports[id]
	if ent == nil || ent.refs == 0 {
		e.exports[id] = &expEnt{obj: obj, refs: 1}
		e.stats["exports"]++
		return nil
	}
	if ent.obj != obj {
		return e.fail("refs/export-identity", "%s: export id %d denotes object %d (B holds %d references) but is now used for object %d", where, id, ent.obj, ent.refs, obj)
	}
	ent.refs++
	if ent.refs >= 3 {
		e.stats["export-3refs"]++
	}
	return nil
}

func (e *engine) onReturn(m rpcsim.Msg) (err error) {
	q := e.bqs[m.ID]
	defer func() {
		// relay the result of a forwarded call
		if err == nil && q != nil && q.fwdOf != nil && !q.fwdOf.returned {
			e.finish(q, false)
			if m.RetKind == "exception" {
				e.sendReturn(q.fwdOf, rpcsim.PeerReturn{A: q.fwdOf.id, Exc: m.Reason}, nil)
			} else {
				e.sendReturn(q.fwdOf, rpcsim.PeerReturn{A: q.fwdOf.id, Serial: m.Serial}, nil)
			}
		}
	}()
	if q == nil {
		return e.fail("return/unknown", "A sent Return for answer id %d, which B has not asked (or has already been returned and finished)", m.ID)
	}
	if q.returned {
		return e.fail("return/duplicate", "A sent a second Return for answer id %d (call %d)", m.ID, q.serial)
	}
	q.returned, q.ret, q.retAt = true, m, e.sentIdx
	e.resolveDest(q)
	if !q.resolved {
		return e.fail("return/early", "A returned %s call %d although the answer it is pipelined on has not returned", q.kind, q.serial)
	}
	loose := q.loose || q.finished // a cancelled call may end either way
	if q.held() && !q.opened && !loose && q.dest >= 0 {
		return e.fail("return/before-implementation", "A sent Return for call %d while its implementation is still running (gate closed, not cancelled): %s", q.serial, m.String())
	}
	// count descriptors first (they are references whatever the verdict)
	q.retRefs = map[uint32]int{}
	// expectations
	wantExc := (q.dest == objNone || q.dest == objViaB) && q.kind != "boot" || (q.dest >= 0 && q.flags&rpcsim.FlagErr != 0)
	if q.kind == "boot" {
		wantExc = false
	}
	if m.RetKind != "results" && m.RetKind != "exception" {
		return e.fail("return/kind", "A answered call %d with Return.%s", q.serial, m.RetKind)
	}
	if !loose {
		if wantExc && m.RetKind != "exception" {
			return e.fail("return/wrong-result", "call %d (%s) must fail, but A returned results: %s", q.serial, e.describe(q), m.String())
		}
		if !wantExc && m.RetKind != "results" {
			return e.fail("return/wrong-result", "call %d (%s) must succeed, but A returned an exception: %q", q.serial, e.describe(q), m.Reason)
		}
		if wantExc && q.dest >= 0 && !strings.Contains(m.Reason, fmt.Sprintf("object-error-%d", q.serial)) {
			return e.fail("return/wrong-result", "call %d failed inside the object with %q, but A returned the exception %q", q.serial, fmt.Sprintf("object-error-%d", q.serial), m.Reason)
		}
	}
	if m.RetKind != "results" {
		return nil
	}
	// what the pointers must name
	var want []capRef
	var ptrs []int
	if q.kind == "boot" {
		if m.ContentKind != "cap" {
			return e.fail("return/wrong-result", "Bootstrap answer %d: content is %s, not a capability", q.id, m.ContentKind)
		}
		want, ptrs = []capRef{{kind: "A", obj: 0}}, []int{m.ContentCap}
	} else {
		if !loose && m.Serial != q.serial {
			return e.fail("return/wrong-result", "Return for answer %d (call %d) carries the results of call %d", q.id, q.serial, m.Serial)
		}
		ptrs = m.PtrCaps
		for i := range ptrs {
			ref := capRef{kind: "none"}
			if q.dest >= 0 {
				ref, _ = e.answerPath(q, []uint16{uint16(i)})
			}
			want = append(want, e.resolveRef(ref))
		}
	}
	used := map[int]bool{}
	for i, ci := range ptrs {
		if ci < 0 {
			if !loose && want[i].kind != "none" {
				return e.fail("return/wrong-result", "results of call %d: pointer %d must name %s but is not a capability", q.serial, i, want[i])
			}
			continue
		}
		if ci >= len(m.Caps) {
			return e.fail("return/wrong-result", "results of call %d: pointer %d refers to capability %d but the table has %d entries", q.serial, i, ci, len(m.Caps))
		}
		used[ci] = true
		d := m.Caps[ci]
		if loose && (i >= len(want) || want[i].kind == "none") {
			continue
		}
		switch want[i].kind {
		case "none":
			if d.Kind != "none" {
				return e.fail("return/wrong-result", "results of call %d: pointer %d must be null but names %s(%d)", q.serial, i, d.Kind, d.ID)
			}
		case "A":
			if d.Kind != "senderHosted" {
				return e.fail("return/wrong-result", "results of call %d: pointer %d must name %s but the descriptor is %s(%d)", q.serial, i, want[i], d.Kind, d.ID)
			}
		case "B":
			if d.Kind != "receiverHosted" || d.ID != want[i].bid {
				return e.fail("return/wrong-result", "results of call %d: pointer %d must name %s but the descriptor is %s(%d)", q.serial, i, want[i], d.Kind, d.ID)
			}
		default:
			return e.fail("harness/unresolved", "unresolved expectation %v", want[i])
		}
	}
	// reference counting: every senderHosted descriptor is one reference
	for ci, d := range m.Caps {
		switch d.Kind {
		case "senderHosted":
			obj := -1
			for i, pc := range ptrs {
				if pc == ci && i < len(want) && want[i].kind == "A" {
					obj = want[i].obj
				}
			}
			if obj < 0 && loose {
				// the call did complete: the object is the one the model predicts for that pointer
				for i, pc := range ptrs {
					if pc == ci {
						if r, _ := e.answerPathOpt(q, []uint16{uint16(i)}, true); e.resolveRef(r).kind == "A" {
							obj = e.resolveRef(r).obj
						}
					}
				}
			}
			if obj < 0 {
				if loose {
					if ent := e.exports[d.ID]; ent != nil && ent.refs > 0 {
						obj = ent.obj
					} else if o, ok := e.objNew[q.serial]; ok {
						obj = o
					} else {
						obj = -100 - int(d.ID) // identity unknown
					}
				} else {
					return e.fail("refs/unexpected-descriptor", "Return for call %d carries senderHosted(%d) that no result pointer is expected to name", q.serial, d.ID)
				}
			}
			if q.finished && q.rrc {
				// released again by A itself: the Finish asked for it
				if ent := e.exports[d.ID]; ent == nil || ent.refs == 0 {
					// entry may have been created and dropped
				}
				continue
			}
			if err := e.countExport(d.ID, obj, fmt.Sprintf("Return for call %d", q.serial)); err != nil {
				return err
			}
			q.retRefs[d.ID]++
			q.retObjs = append(q.retObjs, obj)
		case "receiverHosted":
			if e.bout[d.ID] <= 0 {
				return e.fail("refs/descriptor-on-released-import", "Return for call %d names receiverHosted(%d), on which A holds no reference", q.serial, d.ID)
			}
		}
	}
	if q.finished {
		delete(e.bqs, q.id)
		e.freeQ = append(e.freeQ, q.id)
	}
	return nil
}

func (e *engine) describe(q *bq) string {
	switch q.kind {
	case "boot":
		return "Bootstrap"
	case "call", "fwd":
		return fmt.Sprintf("%s to export %d = object %d, flags %#x", q.kind, q.direct, q.dest, q.flags)
	}
	return fmt.Sprintf("pipelined on answer %d (call %d) path %v -> destination %d, flags %#x", q.dep.id, q.dep.serial, q.path, q.dest, q.flags)
}

// ---------------------------------------------------------------------------------------------------------
// B: outgoing messages

func (e *engine) newQ() uint32 {
	if len(e.freeQ) > 0 && e.sentIdx%3 == 0 {
		id := e.freeQ[0]
		e.freeQ = e.freeQ[1:]
		e.stats["answer-id-reused"]++
		return id
	}
	id := e.nextQ
	e.nextQ++
	return id
}

func (e *engine) addB(q *bq) {
	q.sentIdx = e.sentIdx
	switch q.kind {
	case "call", "fwd":
		q.key = fmt.Sprintf("E%d", q.direct)
	case "pcall":
		q.key = fmt.Sprintf("P%d/%v", q.dep.sentIdx, q.path)
		if q.dep.returned {
			if id, ok := resolveExport(q.dep, q.path); ok {
				q.key = fmt.Sprintf("E%d", id)
			}
		}
	}
	e.sentIdx++
	e.bqs[q.id] = q
	e.allB = append(e.allB, q)
	if q.serial != 0 {
		e.bySerial[q.serial] = q
	}
}

func (e *engine) finish(q *bq, rrc bool) {
	if q.finished {
		return
	}
	if rrc && q.returned {
		// references are fungible: B may give back the ones of this Return only while it still holds that many
		for id, n := range q.retRefs {
			left := e.exports[id].refs - n
			if left < 0 || left == 0 && e.pinned(id) {
				rrc = false
			}
		}
	}
	q.finished, q.rrc = true, rrc
	if !q.returned {
		q.cancelled = true
	}
	e.logf("B->A Finish(%d, releaseResultCaps=%v)", q.id, rrc)
	e.w.SendFinish(q.id, rrc)
	if q.returned {
		if rrc {
			for id, n := range q.retRefs {
				e.exports[id].refs -= n
			}
			q.retRefs = nil
		}
		delete(e.bqs, q.id)
		e.freeQ = append(e.freeQ, q.id)
	}
	// Calls pipelined on this answer that are still outstanding: the answer's result capabilities are dropped by the
	// Finish, and an object nobody refers to any more is shut down, which cancels the calls it is running.  Their
	// outcome stays determined only if B itself still holds the target through an export.
	for _, d := range e.allB {
		if d.dep != q || d.returned || d.loose {
			continue
		}
		keep := false
		e.resolveDest(d)
		if q.returned && d.resolved && d.dest >= 0 {
			keep = d.dest == 0
			for _, ent := range e.exports {
				if ent.refs > 0 && ent.obj == d.dest {
					keep = true
				}
			}
		}
		if q.returned && d.resolved && d.dest < 0 && d.dest != objLoose {
			keep = true // fails or bounces whatever happens to the answer
		}
		if !keep {
			d.loose = true
			if !d.resolved {
				d.dest, d.resolved = objLoose, true
			}
			e.loosen(d)
		}
	}
}

func (e *engine) loosen(q *bq) {
	for _, d := range e.allB {
		if d.dep == q && !d.returned && !d.loose {
			d.loose = true
			if !d.resolved {
				d.dest, d.resolved = objLoose, true
			}
			e.loosen(d)
		}
	}
}

// sendReturn answers A's question q.
func (e *engine) sendReturn(q *aq, r rpcsim.PeerReturn, caps []capRef) {
	q.returned = true
	q.exc = r.Exc != ""
	if q.finishSeen {
		caps = nil // A has cancelled the question: it ignores the Return and everything in it
	}
	q.retCaps = caps
	q.retSerial = r.Serial
	q.retBids = map[uint32]int{}
	for _, c := range caps {
		if c.kind == "B" {
			if !(q.finishSeen && q.finishRRC) {
				e.bout[c.bid]++
				e.unsettled[c.bid]++
				q.retBids[c.bid]++
			}
			e.bsent[c.bid]++
		}
	}
	if r.RelParams {
		for id, n := range q.params {
			e.exports[id].refs -= n
		}
	}
	e.logf("B->A Return(%d) exc=%q serial=%d caps=%v releaseParamCaps=%v", q.id, r.Exc, r.Serial, caps, r.RelParams)
	e.w.SendReturn(r)
	if q.finishSeen {
		delete(e.aqs, q.id)
	}
	// pipelined calls that were waiting for this answer now have a destination
	for _, p := range e.allA {
		if p.pendOn == q && !p.destKnown {
			p.destKnown, p.dest = true, e.aqPath(q, p.pendPath)
		}
	}
}

// ---------------------------------------------------------------------------------------------------------
// synchronisation

func (e *engine) drain() error {
	for _, m := range e.w.Drain() {
		if err := e.onMsg(m); err != nil {
			return err
		}
	}
	return nil
}

// barrier: everything B sent so far has been handled by A's receive loop when the marker's echo arrives.
func (e *engine) barrier() error {
	e.marker++
	tag := e.marker
	e.w.SendMarker(tag)
	t0 := time.Now()
	for {
		m, ok := e.w.Next(Deadline - time.Since(t0))
		if !ok {
			if closed, _ := e.w.Closed(); closed {
				return e.fail("conformance/closed", "A closed the connection during valid traffic")
			}
			return e.fail("hang/receive-loop", "A did not answer a marker message within %v: the receive loop is stuck\n%s", Deadline, pbt.Stacks("capnp/v3/rpc."))
		}
		if m.Which == "unimplemented" && m.Inner != nil && m.Inner.Which == "join" && m.Inner.ID == tag {
			return nil
		}
		if err := e.onMsg(m); err != nil {
			return err
		}
	}
}

// due: must A have answered q by now?
func (e *engine) due(q *bq) bool {
	if q.returned {
		return false
	}
	e.resolveDest(q)
	if !q.resolved {
		return false
	}
	if q.kind == "pcall" && !q.dep.returned {
		return false // answered at the latest when the answer it is queued on returns
	}
	if q.dest >= 0 && q.held() && !q.opened && !q.finished {
		return false
	}
	if q.dest == objLoose && q.held() && !q.opened && !q.finished {
		return false // may or may not have been cancelled
	}
	return true
}

func (e *engine) deliveries() {
	for _, ev := range e.world.Log.Snapshot() {
		if ev.Kind == "deliver" {
			e.delivered[ev.Call] = ev.Hook
		}
	}
}

// settle waits until everything the model says must have happened has happened.
func (e *engine) settle() error {
	// an object that has not acknowledged a delivery keeps everything addressed to it waiting, the receive loop
	// included: such calls stay unacknowledged only within a burst
	for _, q := range e.allB {
		if q.flags&rpcsim.FlagLateAck != 0 && q.held() && !q.opened && !q.returned {
			e.stats["late-acks"]++
			e.open(q.serial)
		}
	}
	for _, ac := range e.calls {
		if ac.flags&rpcsim.FlagLateAck != 0 && ac.flags&rpcsim.FlagHold != 0 && !e.openedSer[ac.serial] {
			e.stats["late-acks"]++
			e.open(ac.serial)
		}
	}
	if err := e.barrier(); err != nil {
		return err
	}
	t0 := time.Now()
	for {
		if err := e.drain(); err != nil {
			return err
		}
		e.refreshWorld()
		e.deliveries()
		missing := ""
		for _, q := range e.allB {
			if e.due(q) {
				missing = fmt.Sprintf("Return for B's %s call %d (answer id %d, %s)", q.kind, q.serial, q.id, e.describe(q))
				break
			}
		}
		if missing == "" {
			for _, ac := range e.calls {
				if why := e.appDue(ac); why != "" {
					select {
					case <-ac.answer().Done():
					default:
						missing = fmt.Sprintf("resolution of the application's call %d (%s)", ac.serial, why)
					}
				}
				if missing != "" {
					break
				}
			}
		}
		if missing == "" && e.blocked != nil && (e.blocked.localEmb == nil || e.blocked.localEmb.echoed) && (e.blocked.flags&rpcsim.FlagLateAck == 0 || e.openedSer[e.blocked.serial]) {
			if e.blocked.answer() == nil {
				missing = fmt.Sprintf("return of the application's Send of call %d (the embargo was lifted / the object acknowledged)", e.blocked.serial)
			} else {
				e.blocked = nil
			}
		}
		if missing == "" {
			for _, em := range e.embargoes {
				if !em.seen && !em.q.finishSeen {
					missing = fmt.Sprintf("Disembargo for question %d path %v (resolved to A's own export %d after pipelined calls)", em.q.id, em.path, em.exp)
					break
				}
			}
		}
		if missing == "" {
			for _, pe := range e.peerEmbargoes {
				if !pe.echoed {
					missing = fmt.Sprintf("echo of B's Disembargo %d (question %d path %v)", pe.id, pe.q.id, pe.path)
					break
				}
			}
		}
		if missing == "" {
			for _, q := range e.allA {
				if q.returned && !q.finishSeen {
					missing = fmt.Sprintf("Finish for question %d", q.id)
					break
				}
			}
		}
		if missing == "" {
			e.unsettled = map[uint32]int{}
			if os.Getenv("VERIF_DEBUG") != "" {
				for _, q := range e.allB {
					if !q.returned {
						e.logf("DEBUG unreturned at settle: id=%d serial=%d kind=%s dest=%d resolved=%v loose=%v finished=%v opened=%v held=%v", q.id, q.serial, q.kind, q.dest, q.resolved, q.loose, q.finished, q.opened, q.held())
					}
				}
			}
			return e.check()
		}
		if time.Since(t0) > Deadline {
			sig := "missing/" + strings.Fields(missing)[0]
			return e.fail(sig, "still missing after %v: %s\n%s", Deadline, missing, pbt.Stacks("capnp/v3/rpc."))
		}
		time.Sleep(100 * time.Microsecond)
	}
}

// appDue says why the application's call must have resolved by now ("" if it need not have).
func (e *engine) appDue(ac *appCall) string {
	if ac.answer() == nil || ac.released {
		return ""
	}
	if ac.cancelled {
		return "its context was cancelled"
	}
	if ac.errOnly {
		return "its target is broken"
	}
	if ac.q != nil && ac.q.returned {
		return "B returned it"
	}
	if ac.localObj >= 0 && (ac.localEmb == nil || ac.localEmb.echoed) && (ac.flags&rpcsim.FlagHold == 0 || e.opened(ac.serial)) {
		return fmt.Sprintf("it is a call to object %d inside A", ac.localObj)
	}
	return ""
}

// mustPrecede says why call y had to be delivered before call x ("" if the protocol does not order them).
func (e *engine) mustPrecede(y, x uint64) string {
	if ay, ax := e.appSer[y], e.appSer[x]; ay != nil || ax != nil {
		if ay != nil && ax != nil && ay.idx < ax.idx && ay.key == ax.key {
			return fmt.Sprintf("application-calls the application made call %d (#%d) before call %d (#%d) on the same reference (%s)", y, ay.idx, x, ax.idx, ay.key)
		}
		return ""
	}
	qy, qx := e.bySerial[y], e.bySerial[x]
	if qy == nil || qx == nil || qy.sentIdx > qx.sentIdx || qy.kind == "fwd" || qx.kind == "fwd" {
		return ""
	}
	if qy.key == qx.key {
		return fmt.Sprintf("peer-calls B sent call %d (#%d) before call %d (#%d) on the same reference (%s)", y, qy.sentIdx, x, qx.sentIdx, qy.key)
	}
	if qy.kind == "pcall" && qy.dep.returned && qy.dep.retAt <= qx.sentIdx {
		if id, ok := resolveExport(qy.dep, qy.path); ok && qx.key == fmt.Sprintf("E%d", id) {
			return fmt.Sprintf("peer-calls B sent call %d (#%d) on the promise %s, saw it resolve to export %d, and only then sent call %d (#%d) to that export", y, qy.sentIdx, qy.key, id, x, qx.sentIdx)
		}
	}
	return ""
}

// resolveExport: the export id A's Return for q names at path.
func resolveExport(q *bq, path []uint16) (uint32, bool) {
	m := q.ret
	if m.RetKind != "results" {
		return 0, false
	}
	ci := -1
	switch {
	case len(path) == 0 && m.ContentKind == "cap":
		ci = m.ContentCap
	case len(path) == 1 && m.ContentKind == "struct" && int(path[0]) < len(m.PtrCaps):
		ci = m.PtrCaps[path[0]]
	}
	if ci < 0 || ci >= len(m.Caps) || m.Caps[ci].Kind != "senderHosted" {
		return 0, false
	}
	return m.Caps[ci].ID, true
}

func (e *engine) opened(serial uint64) bool { return e.openedSer[serial] }

// check: invariants at a quiescent point.
func (e *engine) check() error {
	// deliveries: right object, exactly once, none for calls that must fail
	count := map[uint64]int{}
	perObj := map[int][]uint64{}
	for _, ev := range e.world.Log.Snapshot() {
		if ev.Kind == "deliver" {
			count[ev.Call]++
			perObj[ev.Hook] = append(perObj[ev.Hook], ev.Call)
		}
	}
	if e.opt.Returns {
		for ser, n := range count {
			if n > 1 {
				return e.fail("delivery/duplicate", "call %d was delivered to the application %d times", ser, n)
			}
		}
		for _, q := range e.allB {
			if q.kind == "boot" || !q.resolved || q.loose {
				continue
			}
			got, ok := e.delivered[q.serial]
			switch {
			case q.dest >= 0 && q.returned && !q.finished && !ok:
				return e.fail("delivery/missing", "call %d (%s) was answered but never delivered to object %d", q.serial, e.describe(q), q.dest)
			case q.dest >= 0 && ok && got != q.dest:
				return e.fail("delivery/wrong-object", "call %d (%s) was delivered to object %d instead of object %d", q.serial, e.describe(q), got, q.dest)
			case (q.dest == objNone || q.dest == objBcap || q.dest == objViaB) && ok:
				return e.fail("delivery/unexpected", "call %d (%s) must not reach any object of A but was delivered to object %d", q.serial, e.describe(q), got)
			}
		}
		for _, ac := range e.calls {
			if got, ok := e.delivered[ac.serial]; ok {
				want := ac.localObj
				if ac.q != nil && ac.q.fwd != nil {
					want = ac.q.fwd.dest
				}
				if want < 0 {
					return e.fail("delivery/unexpected", "the application's call %d was addressed to B but was delivered to object %d inside A", ac.serial, got)
				}
				if got != want {
					return e.fail("delivery/wrong-object", "the application's call %d was delivered to object %d instead of object %d", ac.serial, got, want)
				}
			}
		}
		// order: calls made on one reference are delivered in the order they were made.  A reference is an export id, a
		// (question, path) promise, an application client, or an application answer's (call, field) pipeline; a promise
		// merges into the export it resolves to from the moment the sender has seen the Return.
		for obj, sers := range perObj {
			for i := 0; i < len(sers); i++ {
				for j := i + 1; j < len(sers); j++ {
					// sers[i] was delivered before sers[j]: was it required to come after?
					if why := e.mustPrecede(sers[j], sers[i]); why != "" {
						return e.fail("order/"+strings.Fields(why)[0], "object %d received call %d before call %d, but %s (deliveries to the object: %v)", obj, sers[i], sers[j], why[strings.Index(why, " ")+1:], sers)
					}
				}
			}
		}
		// calls the application made on one reference reach B in the order they were made
		last := map[string]*appCall{}
		for _, q := range e.allA {
			if q.app == nil {
				continue
			}
			if p := last[q.app.key]; p != nil && p.idx > q.app.idx {
				return e.fail("order/application-calls-at-peer", "B received the application's call %d (issued #%d on reference %s) after call %d (issued #%d on the same reference)", q.app.serial, q.app.idx, q.app.key, p.serial, p.idx)
			}
			last[q.app.key] = q.app
		}
		// results seen by the application
		for _, ac := range e.calls {
			if ac.answer() == nil || ac.resolvedChecked {
				continue
			}
			select {
			case <-ac.answer().Done():
			default:
				continue
			}
			s, err := ac.answer().Struct()
			switch {
			case ac.cancelled || ac.errOnly || ac.either:
				// either outcome
			case ac.q != nil && ac.q.returned && ac.q.exc:
				if err == nil {
					return e.fail("result/wrong", "B answered the application's call %d with an exception, but the call succeeded", ac.serial)
				}
			case ac.q != nil && ac.q.returned:
				if err != nil {
					return e.fail("result/wrong", "B answered the application's call %d with results, but the call failed: %v", ac.serial, err)
				}
				if s.Uint64(0) != ac.q.retSerial {
					return e.fail("result/wrong", "B answered the application's call %d with value %d, but the caller sees %d", ac.serial, ac.q.retSerial, s.Uint64(0))
				}
			case ac.localObj >= 0:
				if ac.flags&rpcsim.FlagErr != 0 {
					if err == nil {
						return e.fail("result/wrong", "local call %d must fail", ac.serial)
					}
				} else if err != nil {
					return e.fail("result/wrong", "the application's call %d to object %d inside A failed: %v", ac.serial, ac.localObj, err)
				} else if s.Uint64(0) != ac.serial {
					return e.fail("result/wrong", "the application's call %d to object %d got the results of call %d", ac.serial, ac.localObj, s.Uint64(0))
				}
			default:
				if err == nil {
					return e.fail("result/early", "the application's call %d resolved successfully although B has not returned it", ac.serial)
				}
				return e.fail("result/early", "the application's call %d failed although B has not returned it and nobody cancelled it: %v", ac.serial, err)
			}
			ac.resolvedChecked = true
		}
	}
	if e.opt.Refs {
		if err := e.checkRefs(); err != nil {
			return err
		}
	}
	return nil
}

func (e *engine) state() (rpc.VerifConnState, bool) {
	// trailing activity (a Release or Finish being sent from a goroutine of its own) may hold the locks for a moment
	t0 := time.Now()
	var st rpc.VerifConnState
	for time.Since(t0) < Deadline {
		st = e.conn.VerifState()
		if st.MuFree && st.SenderFree {
			return st, true
		}
		time.Sleep(50 * time.Microsecond)
	}
	return st, st.MuFree
}

func (e *engine) checkRefs() error {
	st, ok := e.state()
	if !ok {
		return e.fail("hang/conn-mutex", "Conn.mu stays locked at a quiescent point")
	}
	if !st.SenderFree {
		return e.fail("hang/sender-lock", "the sender lock is held at a quiescent point")
	}
	// (a call whose fate the protocol leaves open may produce its Return, with descriptors, at any moment)
	for _, q := range e.allB {
		if !q.returned && (q.loose || q.finished) {
			return nil
		}
	}
	// A's export table against B's count of what it holds
	for id, ent := range e.exports {
		got, present := st.ExportRefs[id]
		switch {
		case ent.refs < 0:
			return e.fail("harness/negative-refs", "model: export %d has %d refs", id, ent.refs)
		case ent.refs > 0 && !present:
			return e.fail("refs/export-dropped-early", "B holds %d references on export %d (object %d) but A has dropped the export", ent.refs, id, ent.obj)
		case ent.refs > 0 && int(got) != ent.refs:
			return e.fail("refs/export-count", "B holds %d references on export %d (object %d) (descriptors received minus releases) but A's table says %d", ent.refs, id, ent.obj, got)
		case ent.refs == 0 && present:
			return e.fail("refs/export-not-dropped", "B has released all its references on export %d (object %d) but A's table still has the export with %d references", id, ent.obj, got)
		}
	}
	for id, got := range st.ExportRefs {
		if ent := e.exports[id]; ent == nil {
			return e.fail("refs/export-unknown", "A's export table has id %d (%d references) that was never sent to B", id, got)
		}
	}
	// object lifetimes
	alive := map[int]string{0: "bootstrap capability of the connection"}
	for id, ent := range e.exports {
		if ent.refs > 0 {
			alive[ent.obj] = fmt.Sprintf("export %d with %d references", id, ent.refs)
		}
	}
	for _, q := range e.allB {
		if q.returned && !q.finished {
			for _, o := range q.retObjs {
				alive[o] = fmt.Sprintf("result capability of answer %d, which has not been finished", q.id)
			}
		}
		if !q.returned && q.param.kind == "A" {
			alive[q.param.obj] = "" // in the params of a running call: either way
		}
	}
	for _, cl := range e.clients {
		if !cl.released {
			if r := e.clientRef(cl); r.kind == "A" {
				alive[r.obj] = fmt.Sprintf("application client %d", cl.idx)
			}
		}
	}
	for _, ac := range e.calls {
		if ac.q != nil && ac.q.returned && !ac.released {
			for _, r := range ac.q.retCaps {
				if r.kind == "A" {
					alive[r.obj] = fmt.Sprintf("capability table of the unreleased answer of call %d", ac.serial)
				}
			}
		}
	}
	quiet := true
	for _, q := range e.allB {
		if !q.returned {
			quiet = false
		}
	}
	for _, ent := range e.exports {
		if ent.refs > 0 && ent.obj <= -100 {
			quiet = false // B holds an export whose object the model could not identify (Return of a cancelled call)
		}
	}
	for _, ac := range e.calls {
		if ac.answer() != nil && !ac.released {
			select {
			case <-ac.answer().Done():
			default:
				quiet = false
			}
		}
	}
	for _, o := range e.world.Objects() {
		why, held := alive[o.ID]
		n := o.Shutdowns()
		switch {
		case n > 1:
			return e.fail("refs/object-released-twice", "object %d was shut down %d times", o.ID, n)
		case held && why != "" && n != 0:
			return e.fail("refs/object-released-early", "object %d was shut down although it is still referenced (%s)", o.ID, why)
		}
		if !held && quiet && n == 0 && !e.appObj[o.ID] {
			// nothing refers to the object any more: its release is due (asynchronously)
			if !e.waitShutdown(o) {
				return e.fail("refs/object-leaked", "object %d is referenced by no export, no unfinished answer and no client, but has not been released", o.ID)
			}
		}
	}
	// imports: A must still hold what its application holds
	for _, cl := range e.clients {
		if cl.released {
			continue
		}
		if r := e.clientRef(cl); r.kind == "B" && e.bout[r.bid] <= 0 {
			return e.fail("refs/import-released-early", "the application holds client %d for B's capability %d but A has released all its references", cl.idx, r.bid)
		}
	}
	for bid, n := range e.bout {
		if n < 0 {
			return e.fail("harness/negative-bout", "model: B capability %d outstanding %d", bid, n)
		}
	}
	return nil
}

func (e *engine) waitShutdown(o *rpcsim.Object) bool {
	t0 := time.Now()
	for time.Since(t0) < Deadline {
		if o.Shutdowns() > 0 {
			return true
		}
		time.Sleep(200 * time.Microsecond)
	}
	return false
}

// clientRef: what an application client denotes now.
func (e *engine) clientRef(cl *appClient) capRef {
	if cl.from == nil {
		if cl.boot == nil || !cl.boot.returned || cl.boot.exc || len(cl.boot.retCaps) == 0 {
			return capRef{kind: "none"}
		}
		return cl.boot.retCaps[0]
	}
	return cl.ref
}
