package vat

import (
	"context"
	"fmt"
	"os"
	"sort"
	"strings"
	"time"

	capnp "capnproto.org/go/capnp/v3"
	"capnproto.org/go/capnp/v3/rpc"
	"capnproto.org/go/capnp/v3/verifharness/pbt"
	"capnproto.org/go/capnp/v3/verifharness/rpcsim"
)

// StepKinds is the vocabulary of histories.
var StepKinds = []string{
	"p-boot", "p-call", "p-pcall", "p-finish", "p-release", "p-return", "p-forward", "p-echo", "p-pause", "p-wait-impl", "p-sync", "p-disembargo", "open",
	"a-boot", "a-call", "a-pcall", "a-getcap", "a-cancel", "a-release-client", "a-release-answer",
}

func DecodeFlags(b int) uint64 {
	var f uint64
	if b&1 != 0 {
		f |= rpcsim.FlagHold
	}
	if (b>>1)&7 == 7 {
		f |= rpcsim.FlagErr
	}
	if b&1 != 0 && (b>>1)&3 == 2 {
		f |= rpcsim.FlagLateAck // busy without acknowledging until the gate opens (at the latest at the next quiescent point)
	}
	switch (b >> 4) & 3 {
	case 1, 3:
		f |= rpcsim.CapNewObject << rpcsim.FlagCapShift
	case 2:
		f |= rpcsim.CapEchoParam << rpcsim.FlagCapShift
	}
	if (b>>6)&1 != 0 {
		f |= rpcsim.FlagTwice
		if (b>>1)&3 == 1 {
			f = f&^rpcsim.FlagTwice | rpcsim.FlagSecond
		}
	}
	return f
}

func (e *engine) guard(what string, f func()) error {
	done := make(chan struct{})
	go func() { defer close(done); f() }()
	select {
	case <-done:
		return nil
	case <-time.After(Deadline):
		return e.fail("hang/"+what, "%s did not return within %v\n%s", what, Deadline, pbt.Stacks("capnp/v3/rpc."))
	}
}

func (e *engine) liveExports() []uint32 {
	var ids []uint32
	for id, ent := range e.exports {
		if ent.refs > 0 {
			ids = append(ids, id)
		}
	}
	sort.Slice(ids, func(i, j int) bool { return ids[i] < ids[j] })
	return ids
}

func (e *engine) liveBids() []uint32 {
	var ids []uint32
	for id, n := range e.bout {
		if n > 0 {
			ids = append(ids, id)
		}
	}
	sort.Slice(ids, func(i, j int) bool { return ids[i] < ids[j] })
	return ids
}

func (e *engine) liveBqs(pred func(*bq) bool) []*bq {
	var out []*bq
	for _, q := range e.allB {
		if e.bqs[q.id] == q && pred(q) {
			out = append(out, q)
		}
	}
	return out
}

// pinned: exports B must keep because it has promised to forward calls to them / echo a disembargo through them.
func (e *engine) pinned(id uint32) bool {
	// Dropping the last reference shuts the object down, and server.Server cancels the calls it is running: B keeps
	// a reference while calls that (may) run on the object are outstanding, so that their outcome stays determined.
	obj := e.exports[id].obj
	for _, q := range e.allB {
		if q.kind == "boot" || q.returned {
			continue
		}
		e.resolveDest(q)
		if !q.resolved || q.dest == obj || q.dest == objLoose {
			return true
		}
	}
	for _, ac := range e.calls {
		if ac.localObj == obj && !ac.released {
			return true
		}
	}
	for _, q := range e.allA {
		if q.returned && !q.finishSeen || q.destKnown && q.dest.kind == "A" && !q.fwdDone {
			for _, r := range q.retCaps {
				if r.kind == "A" && r.bid == id {
					return true
				}
			}
			if q.destKnown && q.dest.kind == "A" && q.dest.bid == id && !q.fwdDone {
				return true
			}
		}
	}
	for _, em := range e.embargoes {
		if em.exp == id && !em.echoed {
			return true
		}
	}
	// a returned answer that can still be pipelined on
	for _, q := range e.allA {
		if q.returned && !q.finishSeen {
			for _, r := range q.retCaps {
				if r.kind == "A" && r.bid == id {
					return true
				}
			}
		}
	}
	return false
}

func (e *engine) newSerial() uint64 { e.serial++; return e.serial }

// pickBcap: a B-hosted capability to put into a message (new or one A already holds).
func (e *engine) pickBcap(existing bool, sel int) uint32 {
	if existing {
		if ids := e.liveBids(); len(ids) > 0 {
			return ids[sel%len(ids)]
		}
	}
	id := e.nextBid
	e.nextBid++
	e.stats["bcaps"]++
	return id
}

func (e *engine) step(s Step) (bool, error) {
	if e.blocked != nil && strings.HasPrefix(s.K, "a-") {
		if e.blocked.answer() == nil {
			return false, nil // the application's thread is still inside a blocking Send
		}
		e.blocked = nil
	}
	switch s.K {
	case "p-boot":
		q := &bq{id: e.newQ(), kind: "boot"}
		e.addB(q)
		e.logf("B->A Bootstrap(%d)", q.id)
		e.w.SendBootstrap(q.id)
	case "p-call":
		ids := e.liveExports()
		if len(ids) == 0 {
			return false, nil
		}
		q := &bq{id: e.newQ(), kind: "call", direct: ids[s.A%len(ids)], serial: e.newSerial(), flags: DecodeFlags(s.B), param: capRef{kind: "none"}}
		e.sendCall(q, rpcsim.Target{ID: q.direct}, s.C)
	case "p-pcall":
		cands := e.liveBqs(func(q *bq) bool { return !q.finished })
		if len(cands) == 0 {
			return false, nil
		}
		dep := cands[s.A%len(cands)]
		natural := []uint16{0}
		if dep.kind == "boot" {
			natural = []uint16{}
		}
		path := [][]uint16{natural, natural, natural, {1}, {}, {0, 0}, natural, {0}}[(s.C/8)%8]
		q := &bq{id: e.newQ(), kind: "pcall", dep: dep, path: path, serial: e.newSerial(), flags: DecodeFlags(s.B), param: capRef{kind: "none"}}
		e.stats["pcalls"]++
		if !dep.returned {
			e.stats["pcalls-on-pending"]++
		}
		e.sendCall(q, rpcsim.Target{Answer: true, ID: dep.id, Transform: path}, s.C%8)
	case "p-disembargo":
		// B pipelined on one of its questions and A's Return names one of B's own capabilities at that path: B asks A
		// to flush (Disembargo senderLoopback on the promised answer); A must echo after the calls it forwarded.
		type cand struct {
			q    *bq
			path []uint16
			bid  uint32
		}
		var cands []cand
		for _, q := range e.allB {
			if !q.returned || q.finished || q.ret.RetKind != "results" || e.bqs[q.id] != q {
				continue
			}
			for i, ci := range q.ret.PtrCaps {
				if ci < 0 || ci >= len(q.ret.Caps) || q.ret.Caps[ci].Kind != "receiverHosted" {
					continue
				}
				path := []uint16{uint16(i)}
				used, already := false, false
				for _, d := range e.allB {
					if d.kind == "pcall" && d.dep == q && samePath(d.path, path) {
						used = true
					}
				}
				for _, pe := range e.peerEmbargoes {
					if pe.q == q && samePath(pe.path, path) {
						already = true
					}
				}
				if used && !already {
					cands = append(cands, cand{q, path, q.ret.Caps[ci].ID})
				}
			}
		}
		if len(cands) == 0 {
			return false, nil
		}
		c := cands[s.A%len(cands)]
		pe := &peerEmbargo{q: c.q, path: c.path, bid: c.bid, id: uint32(len(e.peerEmbargoes)) + 7, sentIdx: e.sentIdx}
		e.sentIdx++
		e.peerEmbargoes = append(e.peerEmbargoes, pe)
		e.stats["peer-disembargoes"]++
		e.logf("B->A Disembargo(senderLoopback %d, promisedAnswer %d %v)", pe.id, c.q.id, c.path)
		e.w.SendDisembargo(rpcsim.Target{Answer: true, ID: c.q.id, Transform: c.path}, "senderLoopback", pe.id)
	case "p-wait-impl":
		// the peer waits until the implementations whose gates were opened have returned (the moment their answers'
		// queues are replayed), without waiting for A's messages
		t0 := time.Now()
		for time.Since(t0) < 50*time.Millisecond {
			done := true
			ret := map[uint64]bool{}
			for _, ev := range e.world.Log.Snapshot() {
				if ev.Kind == "impl-return" || ev.Kind == "deliver-cancelled" {
					ret[ev.Call] = true
				}
			}
			for _, q := range e.allB {
				if q.held() && q.opened && !q.returned && q.flags&rpcsim.FlagLateAck == 0 && !ret[q.serial] {
					if _, ok := e.delivered[q.serial]; ok || q.dest >= 0 {
						done = false
					}
				}
			}
			if done {
				break
			}
			time.Sleep(50 * time.Microsecond)
		}
		time.Sleep(200 * time.Microsecond)
	case "p-sync":
		// the peer waits until A's receive loop has handled everything sent so far (marker echo), nothing more.
		// Not while the receive loop may legitimately be held up (an object that has not acknowledged a delivery, an
		// answer whose queue is being replayed): the echo would not come before the harness acts again.
		for _, q := range e.allB {
			if q.kind != "boot" && !q.returned && (q.flags&rpcsim.FlagLateAck != 0 && !q.opened || q.held() && q.opened) {
				return false, nil
			}
		}
		if err := e.barrier(); err != nil {
			return true, err
		}
	case "p-pause":
		// the peer is silent for a moment (lets goroutines inside A run; meaningful in burst mode)
		time.Sleep(time.Duration(500+500*(s.A%4)) * time.Microsecond)
	case "p-finish":
		cands := e.liveBqs(func(q *bq) bool { return !q.finished })
		if len(cands) == 0 {
			return false, nil
		}
		q := cands[s.A%len(cands)]
		if !q.returned {
			e.stats["finish-before-return"]++
		}
		e.finish(q, s.B&1 == 1)
	case "p-finish-in-write":
		// B's Finish reaches A while A's Return for the same question is inside the transport: the call is let go, its
		// Return is held in the wire, the Finish is delivered, then the Return is let through
		var cands []*bq
		for _, q := range e.allB {
			if q.held() && !q.opened && !q.returned && !q.finished && q.kind != "boot" && !e.c.Burst {
				cands = append(cands, q)
			}
		}
		if len(cands) == 0 {
			return false, nil
		}
		q := cands[s.A%len(cands)]
		id := q.id
		entered, release := make(chan struct{}, 1), make(chan struct{})
		e.w.SetGate(func(m rpcsim.Msg) {
			if m.Which == "return" && m.ID == id {
				select {
				case entered <- struct{}{}:
				default:
				}
				<-release
			}
		})
		e.open(q.serial)
		select {
		case <-entered:
			e.stats["finish-during-return-write"]++
			e.finish(q, s.B&1 == 1)
			time.Sleep(2 * time.Millisecond)
		case <-time.After(100 * time.Millisecond):
			// no Return now (the call is queued behind something): nothing to race with
		}
		e.w.SetGate(nil)
		close(release)
	case "p-release":
		var ids []uint32
		for _, id := range e.liveExports() {
			if !e.pinned(id) || e.exports[id].refs > 1 {
				ids = append(ids, id)
			}
		}
		if len(ids) == 0 {
			return false, nil
		}
		id := ids[s.A%len(ids)]
		max := e.exports[id].refs
		if e.pinned(id) {
			max--
		}
		n := 1 + s.B%max
		if n < e.exports[id].refs {
			e.stats["partial-release"]++
		}
		e.exports[id].refs -= n
		e.logf("B->A Release(%d, %d)", id, n)
		e.w.SendRelease(id, uint32(n))
	case "p-return":
		var cands []*aq
		for _, q := range e.allA {
			if e.returnable(q) {
				cands = append(cands, q)
			}
		}
		if len(cands) == 0 {
			return false, nil
		}
		e.peerReturn(cands[s.A%len(cands)], s.B, s.C)
	case "p-forward":
		return e.forwardNext(), nil
	case "p-echo":
		return e.echoNext(), nil
	case "open":
		var sers []uint64
		for _, q := range e.allB {
			if q.held() && !q.opened && !q.returned && q.kind != "boot" {
				sers = append(sers, q.serial)
			}
		}
		for _, ac := range e.calls {
			if ac.flags&rpcsim.FlagHold != 0 && !e.openedSer[ac.serial] && (ac.q == nil || ac.q.fwd == nil) {
				sers = append(sers, ac.serial)
			}
		}
		if len(sers) == 0 {
			return false, nil
		}
		e.open(sers[s.A%len(sers)])
	case "a-boot":
		cl := &appClient{idx: len(e.clients), bootIdx: e.nboots}
		e.nboots++
		e.clients = append(e.clients, cl)
		e.logf("app: client %d = Bootstrap()", cl.idx)
		if err := e.guard("Conn.Bootstrap", func() { cl.c = e.conn.Bootstrap(context.Background()) }); err != nil {
			return true, err
		}
	case "a-call":
		var cands []*appClient
		for _, cl := range e.clients {
			if !cl.released {
				cands = append(cands, cl)
			}
		}
		if len(cands) == 0 {
			return false, nil
		}
		cl := cands[s.A%len(cands)]
		ac := e.newAppCall(s.C)
		ac.key = fmt.Sprintf("C%d", cl.idx)
		if cl.from != nil {
			ac.key = fmt.Sprintf("Q%d/%d", cl.from.idx, cl.field)
		}
		switch {
		case cl.from == nil && (cl.boot == nil || !cl.boot.returned):
			if cl.boot == nil {
				return false, nil
			}
			ac.wantWire, ac.wantPend, ac.wantPath = true, cl.boot, []uint16{}
			e.markCalled(cl.boot, ac.wantPath)
		default:
			em := cl.embargo
			if cl.from == nil {
				em = e.findEmbargo(cl.boot, []uint16{})
			}
			e.expectOn(ac, e.clientRef(cl), em)
		}
		e.logf("app: call %d on client %d (flags %#x)", ac.serial, cl.idx, ac.flags)
		if err := e.issue(ac, s.B, func(ctx context.Context, send capnp.Send) (*capnp.Answer, capnp.ReleaseFunc) {
			return cl.c.SendCall(ctx, send)
		}); err != nil {
			return true, err
		}
	case "a-pcall":
		var cands []*appCall
		for _, ac := range e.calls {
			if ac.q != nil && !ac.released && !ac.cancelled && ac.answer() != nil && ac.q.fwd == nil && ac.q.bounceOf == nil {
				cands = append(cands, ac)
			}
		}
		if len(cands) == 0 {
			return false, nil
		}
		base := cands[s.A%len(cands)]
		field := uint16(s.B>>2) & 1
		ac := e.newAppCall(s.C)
		ac.key = fmt.Sprintf("Q%d/%d", base.idx, field)
		if !base.q.returned {
			ac.wantWire, ac.wantPend, ac.wantPath = true, base.q, []uint16{field}
			e.markCalled(base.q, ac.wantPath)
			e.stats["app-pcalls-on-pending"]++
		} else {
			e.expectOn(ac, e.aqPath(base.q, []uint16{field}), e.findEmbargo(base.q, []uint16{field}))
		}
		e.logf("app: call %d pipelined on call %d field %d (flags %#x)", ac.serial, base.serial, field, ac.flags)
		if err := e.issue(ac, s.B&3, func(ctx context.Context, send capnp.Send) (*capnp.Answer, capnp.ReleaseFunc) {
			return base.answer().PipelineSend(ctx, []capnp.PipelineOp{{Field: field}}, send)
		}); err != nil {
			return true, err
		}
	case "a-getcap":
		var cands []*appCall
		for _, ac := range e.calls {
			if ac.q != nil && ac.q.returned && !ac.q.exc && !ac.released && !ac.cancelled && ac.q.fwd == nil {
				cands = append(cands, ac)
			}
		}
		if len(cands) == 0 {
			return false, nil
		}
		base := cands[s.A%len(cands)]
		field := s.B & 1
		ref := e.aqPath(base.q, []uint16{uint16(field)})
		if ref.kind == "none" {
			return false, nil
		}
		st, err := base.answer().Struct()
		if err != nil {
			return true, e.fail("result/wrong", "B answered the application's call %d with results, but the call failed: %v", base.serial, err)
		}
		p, err := st.Ptr(uint16(field))
		if err != nil || !p.Interface().IsValid() {
			return true, e.fail("result/wrong", "B answered the application's call %d with a capability in pointer %d, but the caller sees none (%v)", base.serial, field, err)
		}
		cl := &appClient{idx: len(e.clients), from: base, field: field, ref: ref, bootIdx: -1, embargo: e.findEmbargo(base.q, []uint16{uint16(field)})}
		cl.c = p.Interface().Client().AddRef()
		e.clients = append(e.clients, cl)
		e.logf("app: client %d = pointer %d of the results of call %d (%s)", cl.idx, field, base.serial, ref)
	case "a-cancel":
		var cands []*appCall
		for _, ac := range e.calls {
			if !ac.cancelled && !ac.released && ac.answer() != nil {
				cands = append(cands, ac)
			}
		}
		if len(cands) == 0 {
			return false, nil
		}
		ac := cands[s.A%len(cands)]
		done := false
		select {
		case <-ac.answer().Done():
			done = true
		default:
		}
		e.logf("app: cancel call %d (resolved=%v)", ac.serial, done)
		if !done {
			ac.cancelled = true
			e.stats["cancel-pending"]++
		}
		ac.cancel()
	case "a-release-client":
		var cands []*appClient
		for _, cl := range e.clients {
			if !cl.released {
				cands = append(cands, cl)
			}
		}
		if len(cands) == 0 {
			return false, nil
		}
		cl := cands[s.A%len(cands)]
		cl.released = true
		e.droppingLocal(e.clientRef(cl))
		e.logf("app: release client %d", cl.idx)
		if err := e.guard("Client.Release", func() { cl.c.Release() }); err != nil {
			return true, err
		}
	case "a-release-answer":
		var cands []*appCall
		for _, ac := range e.calls {
			if ac.answer() != nil && !ac.released {
				select {
				case <-ac.answer().Done():
					cands = append(cands, ac)
				default:
				}
			}
		}
		if len(cands) == 0 {
			return false, nil
		}
		ac := cands[s.A%len(cands)]
		if err := e.releaseAnswer(ac); err != nil {
			return true, err
		}
	default:
		return false, nil
	}
	return true, nil
}

// droppingLocal: the application gives up a reference to an object inside A.  If that was the last one the object is
// shut down, which cancels the calls it is running: calls of the application still running there may now fail.
func (e *engine) droppingLocal(r capRef) {
	if r.kind != "A" {
		return
	}
	for _, ac := range e.calls {
		if ac.localObj == r.obj && !ac.resolvedChecked {
			ac.either = true
		}
	}
}

func (e *engine) releaseAnswer(ac *appCall) error {
	// look at the result one last time before giving it up
	if err := e.check(); err != nil {
		return err
	}
	ac.released = true
	if ac.q != nil {
		for _, r := range ac.q.retCaps {
			e.droppingLocal(r)
		}
	}
	e.logf("app: release answer of call %d", ac.serial)
	return e.guard("ReleaseFunc of an answer", func() { ac.rel(); ac.cancel() })
}

func (e *engine) open(ser uint64) {
	e.openedSer[ser] = true
	for _, q := range e.allB {
		if q.serial == ser {
			q.opened = true
		}
	}
	e.logf("gate of call %d opened", ser)
	e.world.Open(ser)
}

func (e *engine) markCalled(q *aq, path []uint16) {
	for _, p := range e.called[q] {
		if samePath(p, path) {
			return
		}
	}
	e.called[q] = append(e.called[q], path)
}

func (e *engine) findEmbargo(q *aq, path []uint16) *embargo {
	for _, em := range e.embargoes {
		if em.q == q && samePath(em.path, path) {
			return em
		}
	}
	return nil
}

func (e *engine) newAppCall(c int) *appCall {
	ac := &appCall{idx: len(e.calls), serial: e.newSerial(), localObj: -1, paramObj: -1, paramBid: -1}
	if c&1 != 0 {
		ac.flags |= rpcsim.FlagHold
	}
	if c&14 == 14 {
		ac.flags |= rpcsim.FlagErr
	}
	if c&1 != 0 && (c>>4)&3 == 3 {
		ac.flags |= rpcsim.FlagLateAck // (only matters for calls that land on an object inside A)
	}
	e.calls = append(e.calls, ac)
	e.appSer[ac.serial] = ac
	return ac
}

// expectOn fixes what must happen to a call made on a resolved capability.
func (e *engine) expectOn(ac *appCall, ref capRef, em *embargo) {
	switch ref.kind {
	case "B":
		ac.wantWire, ac.wantDest = true, ref
	case "A":
		ac.localObj, ac.localEmb = ref.obj, em
		e.stats["app-local-calls"]++
		if em != nil && !em.echoed {
			e.stats["app-calls-under-embargo"]++
		}
	default:
		ac.errOnly = true
	}
}

func (e *engine) issue(ac *appCall, param int, do func(context.Context, capnp.Send) (*capnp.Answer, capnp.ReleaseFunc)) error {
	ctx, cancel := context.WithCancel(context.Background())
	ac.cancel = cancel
	var imp *appClient
	if param == 3 {
		for _, cl := range e.clients {
			if !cl.released && e.clientRef(cl).kind == "B" {
				imp = cl
			}
		}
	}
	send := capnp.Send{Method: capnp.Method{InterfaceID: rpcsim.Iface, MethodID: rpcsim.Method}, ArgsSize: capnp.ObjectSize{DataSize: 16, PointerCount: 1},
		PlaceArgs: func(st capnp.Struct) error {
			st.SetUint64(0, ac.serial)
			st.SetUint64(8, ac.flags)
			switch {
			case param == 2:
				o, lc := e.world.NewObject()
				ac.paramObj = o.ID
				return st.SetPtr(0, capnp.NewInterface(st.Segment(), st.Message().AddCap(lc)).ToPtr())
			case imp != nil:
				ac.paramBid = int64(e.clientRef(imp).bid)
				return st.SetPtr(0, capnp.NewInterface(st.Segment(), st.Message().AddCap(imp.c.AddRef())).ToPtr())
			}
			return nil
		}}
	if ac.localObj >= 0 && ac.flags&rpcsim.FlagLateAck != 0 && ac.flags&rpcsim.FlagHold != 0 && (ac.localEmb == nil || ac.localEmb.echoed) {
		// the object does not acknowledge the delivery until its gate opens: Send stays inside the server meanwhile
		ac.pending = make(chan struct{})
		e.blocked = ac
		e.stats["app-thread-blocked-by-late-ack"]++
		go func() { defer close(ac.pending); ac.ans, ac.rel = do(ctx, send) }()
		time.Sleep(300 * time.Microsecond) // let the call reach the object
		return nil
	}
	if ac.localObj >= 0 && ac.localEmb != nil && !ac.localEmb.echoed {
		// Send on an embargoed capability blocks until the disembargo arrives: the application thread is stuck in it
		ac.pending = make(chan struct{})
		e.blocked = ac
		e.stats["app-thread-blocked-by-embargo"]++
		go func() { defer close(ac.pending); ac.ans, ac.rel = do(ctx, send) }()
		return nil
	}
	return e.guard("sending a call", func() { ac.ans, ac.rel = do(ctx, send) })
}

func (e *engine) sendCall(q *bq, tgt rpcsim.Target, paramSel int) {
	var caps []rpcsim.CapDesc
	switch paramSel % 8 {
	case 2:
		bid := e.pickBcap(false, 0)
		q.param, caps = capRef{kind: "B", bid: bid}, []rpcsim.CapDesc{{Kind: "senderHosted", ID: bid}}
	case 3:
		bid := e.pickBcap(true, paramSel/8)
		q.param, caps = capRef{kind: "B", bid: bid}, []rpcsim.CapDesc{{Kind: "senderHosted", ID: bid}}
	case 4, 5:
		if ids := e.liveExports(); len(ids) > 0 {
			id := ids[(paramSel/8)%len(ids)]
			q.param, caps = capRef{kind: "A", obj: e.exports[id].obj, bid: id}, []rpcsim.CapDesc{{Kind: "receiverHosted", ID: id}}
		}
	}
	if q.param.kind == "B" {
		e.unsettled[q.param.bid]++
		e.bout[q.param.bid]++
		e.bsent[q.param.bid]++
	}
	e.addB(q)
	e.logf("B->A Call(%d) serial=%d target=%+v flags=%#x param=%v", q.id, q.serial, tgt, q.flags, q.param)
	e.w.SendCall(rpcsim.PeerCall{Q: q.id, Target: tgt, Serial: q.serial, Flags: q.flags, Caps: caps})
}

// returnable: may B answer A's question q now (as far as B's own obligations go)?
func (e *engine) returnable(q *aq) bool {
	if q.returned || q.bounceOf != nil {
		return false
	}
	if q.pendOn != nil && !q.destKnown {
		return false
	}
	if q.destKnown && q.dest.kind == "A" && q.kind == "call" {
		return false // to be forwarded
	}
	return true
}

func (e *engine) peerReturn(q *aq, b, c int) {
	r := rpcsim.PeerReturn{A: q.id, Serial: 1000000 + uint64(q.id)*1000 + uint64(e.sentIdx), RelParams: b%3 == 0}
	e.sentIdx++
	if q.kind == "call" && q.destKnown && q.dest.kind == "none" {
		r.Exc = "no such capability"
	}
	if b%5 == 4 {
		r.Exc = "peer says no"
	}
	var caps []capRef
	if r.Exc == "" {
		n := 2
		if q.kind == "boot" {
			n, r.ContentCap = 1, true
		}
		for i := 0; i < n; i++ {
			sel := (c >> (3 * uint(i))) & 7
			var ref capRef
			switch sel {
			case 0:
				ref = capRef{kind: "none"}
				if q.kind == "boot" {
					ref = capRef{kind: "B", bid: e.pickBcap(false, 0)}
				}
			case 1, 2:
				ref = capRef{kind: "B", bid: e.pickBcap(false, 0)}
			case 3, 4:
				ref = capRef{kind: "B", bid: e.pickBcap(true, c>>6)}
			default:
				ref = capRef{kind: "none"}
				if ids := e.liveExports(); len(ids) > 0 {
					id := ids[(c>>6)%len(ids)]
					ref = capRef{kind: "A", obj: e.exports[id].obj, bid: id}
				} else if q.kind == "boot" {
					ref = capRef{kind: "B", bid: e.pickBcap(false, 0)}
				}
			}
			caps = append(caps, ref)
			switch ref.kind {
			case "B":
				r.Caps = append(r.Caps, rpcsim.CapDesc{Kind: "senderHosted", ID: ref.bid})
			case "A":
				r.Caps = append(r.Caps, rpcsim.CapDesc{Kind: "receiverHosted", ID: ref.bid})
			default:
				r.Caps = append(r.Caps, rpcsim.CapDesc{Kind: "none"})
			}
		}
	}
	for id, n := range q.params {
		// references are fungible: B can only give back what it still holds, and it cannot name in the same message
		// an export it is giving up completely
		left := e.exports[id].refs - n
		named := false
		for _, ref := range caps {
			if ref.kind == "A" && ref.bid == id {
				named = true
			}
		}
		if left < 0 || left == 0 && (named || e.pinned(id)) {
			r.RelParams = false
		}
	}
	if len(q.params) > 0 && r.RelParams {
		e.stats["return-releases-param-caps"]++
	}
	// embargoes A must raise: pipelined calls were made on a path that turns out to be A's own capability
	if !q.finishSeen && r.Exc == "" {
		for i, ref := range caps {
			if ref.kind != "A" {
				continue
			}
			path := []uint16{uint16(i)}
			if q.kind == "boot" {
				path = []uint16{}
			}
			for _, p := range e.called[q] {
				if samePath(p, path) {
					e.embargoes = append(e.embargoes, &embargo{q: q, path: path, exp: ref.bid})
					e.stats["embargoes"]++
				}
			}
		}
	}
	e.sendReturn(q, r, caps)
	// pipelined calls that turn out to have no target are refused at once
	for _, p := range e.allA {
		if p.pendOn == q && !p.returned && p.destKnown && p.dest.kind == "none" && p.bounceOf == nil {
			e.sendReturn(p, rpcsim.PeerReturn{A: p.id, Exc: "pipelined call on a null capability"}, nil)
		}
	}
}

// forwardNext: B forwards the oldest pipelined call whose target turned out to live in A.
func (e *engine) forwardNext() bool {
	for _, q := range e.allA {
		if q.kind == "call" && q.destKnown && q.dest.kind == "A" && q.fwd == nil && !q.returned {
			b := &bq{id: e.newQ(), kind: "fwd", direct: q.dest.bid, serial: q.serial, flags: q.flags, fwdOf: q, param: capRef{kind: "none"}, opened: e.openedSer[q.serial]}
			q.fwd, q.fwdDone = b, true
			e.addB(b)
			e.stats["forwards"]++
			e.logf("B->A Call(%d) serial=%d: forwarding A's pipelined question %d to export %d", b.id, b.serial, q.id, b.direct)
			e.w.SendCall(rpcsim.PeerCall{Q: b.id, Target: rpcsim.Target{ID: b.direct}, Serial: b.serial, Flags: b.flags})
			return true
		}
	}
	return false
}

func (e *engine) pendingForwards() bool {
	for _, q := range e.allA {
		if q.kind == "call" && q.destKnown && q.dest.kind == "A" && q.fwd == nil && !q.returned {
			return true
		}
	}
	return false
}

func (e *engine) echoNext() bool {
	if e.pendingForwards() {
		return false
	}
	for _, em := range e.embargoes {
		if em.seen && !em.echoed {
			em.echoed = true
			e.stats["disembargo-echoes"]++
			e.logf("B->A Disembargo(receiverLoopback %d, importedCap %d)", em.id, em.exp)
			e.w.SendDisembargo(rpcsim.Target{ID: em.exp}, "receiverLoopback", em.id)
			return true
		}
	}
	return false
}

func peerStep(k string) bool { return strings.HasPrefix(k, "p-") || k == "open" }

// Run plays a case.
func Run(c Case, opt Options) (res pbt.Result, err error) {
	e := &engine{c: c, opt: opt, res: &res,
		bqs: map[uint32]*bq{}, bySerial: map[uint64]*bq{}, exports: map[uint32]*expEnt{}, bout: map[uint32]int{}, bsent: map[uint32]int{},
		aqs: map[uint32]*aq{}, appSer: map[uint64]*appCall{}, objNew: map[uint64]int{}, delivered: map[uint64]int{}, stats: map[string]int{},
		openedSer: map[uint64]bool{}, unsettled: map[uint32]int{}, called: map[*aq][][]uint16{}, appObj: map[int]bool{}, nextBid: 100}
	e.w = rpcsim.NewWire()
	e.world = rpcsim.NewWorld()
	_, boot := e.world.NewObject()
	e.conn = rpc.NewConn(e.w, &rpc.Options{BootstrapClient: boot, AbortTimeout: 50 * time.Millisecond})
	defer func() {
		// never leave goroutines of a failed case blocked on gates
		e.world.OpenUpTo(1 << 62)
		if !e.closed {
			done := make(chan struct{})
			go func() { e.conn.Close(); close(done) }()
			select {
			case <-done:
			case <-time.After(2 * time.Second):
			}
		}
	}()
	executed := 0
	dirty := false
	for i, s := range c.Steps {
		if c.CloseAt >= 0 && i >= c.CloseAt {
			break
		}
		if dirty && !peerStep(s.K) {
			// the application acts on a quiescent connection
			dirty = false
			if err := e.settle(); err != nil {
				return res, err
			}
		}
		ok, err := e.step(s)
		if err != nil {
			return res, err
		}
		if !ok {
			continue
		}
		executed++
		if c.Burst && (peerStep(s.K) || e.blocked != nil && e.blocked.flags&rpcsim.FlagLateAck != 0 && !e.openedSer[e.blocked.serial]) {
			// (an application call on an object that does not acknowledge it yet: the peer goes on meanwhile)
			e.stats["unsettled-steps"]++
			dirty = true
			continue
		}
		if err := e.settle(); err != nil {
			return res, err
		}
	}
	if dirty && (c.CloseAt < 0 || c.CloseAt >= len(c.Steps)) {
		if err := e.settle(); err != nil {
			return res, err
		}
	}
	if c.CloseAt < 0 || c.CloseAt >= len(c.Steps) {
		if err := e.windDown(); err != nil {
			return res, err
		}
	}
	if err := e.closeAndCheck(); err != nil {
		return res, err
	}
	if os.Getenv("VERIF_TRACE") != "" {
		fmt.Println(strings.Join(e.log, "\n"))
		for _, ev := range e.world.Log.Snapshot() {
			fmt.Printf("  world: %s obj=%d call=%d\n", ev.Kind, ev.Hook, ev.Call)
		}
	}
	for k, v := range e.stats {
		res.Count(k, int64(v))
	}
	res.Count("steps_executed", int64(executed))
	res.Count("messages_from_conn", int64(e.nmsgs))
	e.classify(&res, executed)
	return res, nil
}

// windDown: an orderly end: everything outstanding completes, everything held is given back, tables must be empty.
func (e *engine) windDown() error {
	// let every implementation finish, forward and echo everything, answer everything
	for round := 0; round < 1000; round++ {
		progress := false
		for _, q := range e.allB {
			if q.held() && !q.opened && !q.returned {
				e.open(q.serial)
				progress = true
			}
		}
		for _, ac := range e.calls {
			if ac.flags&rpcsim.FlagHold != 0 && !e.openedSer[ac.serial] {
				e.open(ac.serial)
				progress = true
			}
		}
		for e.forwardNext() {
			progress = true
		}
		for e.echoNext() {
			progress = true
		}
		for _, q := range e.allA {
			if e.returnable(q) {
				e.peerReturn(q, 1, 0)
				if q.kind == "boot" {
					// (a Bootstrap answered with a B capability)
				}
				progress = true
			}
		}
		if err := e.settle(); err != nil {
			return err
		}
		if !progress {
			break
		}
	}
	for _, q := range e.allB {
		if !q.finished {
			e.finish(q, false)
		}
	}
	if err := e.settle(); err != nil {
		return err
	}
	for _, q := range e.allB {
		if !q.returned {
			return e.fail("missing/Return", "at the end of the history B's %s call %d (answer id %d) has no Return", q.kind, q.serial, q.id)
		}
	}
	// the application gives everything back
	for _, ac := range e.calls {
		if ac.answer() != nil && !ac.released {
			select {
			case <-ac.answer().Done():
			case <-time.After(Deadline):
				return e.fail("missing/resolution", "the application's call %d never resolved (wire question %v)", ac.serial, ac.q != nil)
			}
			if err := e.releaseAnswer(ac); err != nil {
				return err
			}
		}
	}
	for _, cl := range e.clients {
		if !cl.released {
			cl.released = true
			e.droppingLocal(e.clientRef(cl))
			cl := cl
			if err := e.guard("Client.Release", func() { cl.c.Release() }); err != nil {
				return err
			}
		}
	}
	// releases of the imports arrive asynchronously
	t0 := time.Now()
	for {
		if err := e.settle(); err != nil {
			return err
		}
		left := ""
		for _, bid := range e.liveBids() {
			left += fmt.Sprintf(" capability %d: %d of %d references", bid, e.bout[bid], e.bsent[bid])
		}
		if left == "" || !e.opt.Refs {
			break
		}
		if time.Since(t0) > Deadline/3 {
			return e.fail("refs/import-not-released", "the application has released every client and answer, B has finished every question, but A still holds references it never released:%s", left)
		}
		time.Sleep(time.Millisecond)
	}
	// B gives everything back
	for _, id := range e.liveExports() {
		n := e.exports[id].refs
		e.exports[id].refs = 0
		e.logf("B->A Release(%d, %d)", id, n)
		e.w.SendRelease(id, uint32(n))
	}
	if err := e.settle(); err != nil {
		return err
	}
	st, ok := e.state()
	if !ok {
		return e.fail("hang/conn-mutex", "Conn.mu stays locked")
	}
	if e.opt.Returns && (st.Questions != 0 || st.Answers != 0 || st.Embargoes != 0) {
		return e.fail("tables/not-empty", "after every question was returned and finished in both directions A's tables still hold %d questions, %d answers, %d embargoes", st.Questions, st.Answers, st.Embargoes)
	}
	if e.opt.Refs && (st.Exports != 0 || st.Imports != 0) {
		return e.fail("refs/tables-not-empty", "after both sides released everything A's tables still hold %d exports (%v), %d imports", st.Exports, st.ExportRefs, st.Imports)
	}
	if e.opt.Refs {
		for _, o := range e.world.Objects() {
			if o.ID != 0 && !e.waitShutdown(o) {
				return e.fail("refs/object-leaked", "object %d was never released although nothing refers to it any more", o.ID)
			}
		}
	}
	return nil
}

func (e *engine) closeAndCheck() error {
	if err := e.drain(); err != nil {
		return err
	}
	if ac := e.blocked; ac != nil && ac.flags&rpcsim.FlagLateAck != 0 && ac.flags&rpcsim.FlagHold != 0 && !e.openedSer[ac.serial] {
		// The application's thread sits in a call to one of its own objects (directly or queued behind an embargo)
		// that will not acknowledge the delivery before its gate opens.  Close lifts embargoes and waits for
		// deliveries in progress, so it would wait for that object too: whether a connection should be hostage to
		// the application's own un-acknowledging object is not a question of the listed properties; the application
		// lets its object acknowledge.
		e.open(ac.serial)
	}
	e.closed = true
	e.logf("Conn.Close()")
	if err := e.guard("Conn.Close", func() { e.conn.Close() }); err != nil {
		return err
	}
	e.world.OpenUpTo(1 << 62)
	for _, ac := range e.calls {
		if ac.answer() != nil && !ac.released {
			ac.released = true
			ac := ac
			if err := e.guard("ReleaseFunc of an answer after Close", func() { ac.rel(); ac.cancel() }); err != nil {
				return err
			}
		}
	}
	for _, cl := range e.clients {
		if !cl.released {
			cl.released = true
			cl := cl
			if err := e.guard("Client.Release after Close", func() { cl.c.Release() }); err != nil {
				return err
			}
		}
	}
	if !e.opt.Refs {
		return nil
	}
	// after Close every capability the connection held has been released exactly once
	for _, o := range e.world.Objects() {
		if !e.waitShutdown(o) {
			return e.fail("refs/object-leaked-after-close", "object %d was not released although the connection is closed and the application holds nothing", o.ID)
		}
	}
	time.Sleep(time.Millisecond)
	for _, o := range e.world.Objects() {
		if n := o.Shutdowns(); n != 1 {
			return e.fail("refs/object-released-twice", "object %d was shut down %d times", o.ID, n)
		}
	}
	return nil
}

func (e *engine) classify(res *pbt.Result, executed int) {
	s := e.stats
	if e.opt.Returns {
		calls := 0
		for _, q := range e.allB {
			if q.kind != "boot" {
				calls++
			}
		}
		calls += len(e.calls)
		fin := 0
		for _, q := range e.allB {
			if q.finished {
				fin++
			}
		}
		res.Nontrivial = calls >= 3 && (s["pcalls-on-pending"] > 0 || s["app-pcalls-on-pending"] > 0) && fin > 0
		if s["embargoes"] > 0 {
			res.Class("embargo")
		}
		if s["forwards"] > 0 {
			res.Class("forwarded-calls")
		}
		if s["pcalls-on-pending"] > 0 {
			res.Class("peer-pipelined-on-pending")
		}
		if s["app-pcalls-on-pending"] > 0 {
			res.Class("app-pipelined-on-pending")
		}
		if s["finish-before-return"] > 0 {
			res.Class("finish-before-return")
		}
		if s["answer-id-reused"] > 0 {
			res.Class("answer-id-reused")
		}
		if s["app-calls-under-embargo"] > 0 {
			res.Class("app-call-under-embargo")
		}
	}
	if e.opt.Refs {
		res.Nontrivial = s["partial-release"] > 0 && s["export-3refs"]+s["exports"] > 1 || s["import-releases"] > 1
		if s["partial-release"] > 0 {
			res.Class("partial-release")
		}
		if s["export-3refs"] > 0 {
			res.Class("export-with-3+-refs")
		}
		if s["import-releases"] > 0 {
			res.Class("import-released")
		}
		if s["return-releases-param-caps"] > 0 {
			res.Class("return-releases-param-caps")
		}
		if e.c.CloseAt >= 0 && e.c.CloseAt < len(e.c.Steps) {
			res.Class("close-mid-history")
		}
	}
	switch {
	case executed < 5:
		res.Class("steps:<5")
	case executed < 15:
		res.Class("steps:5-14")
	default:
		res.Class("steps:>=15")
	}
}
