module capnproto.org/go/capnp/v3/verifharness

go 1.23

require (
	capnproto.org/go/capnp/v3 v3.0.0
	pgregory.net/rapid v1.3.0
)

replace capnproto.org/go/capnp/v3 => /repo
