// Package build interprets generated "build programs" against the public
// builder API of capnp while maintaining a reference model of what was
// written.
package build

import (
	"errors"

	capnp "capnproto.org/go/capnp/v3"
)

// ArenaSpec describes an arena configuration (serialisable).
type ArenaSpec struct {
	Kind  int   `json:"kind"`  // 0 SingleSegment(nil) 1 SingleSegment(cap) 2 MultiSegment(nil) 3 MultiSegment(prealloc caps) 4 tight arena (own Arena impl)
	Caps  []int `json:"caps"`  // capacities in words (kind 1: first; kind 3: all)
	Slack int   `json:"slack"` // tight arena: extra words per new segment
	Dirty bool  `json:"dirty"` // spare capacity pre-filled with 0xFF
}

func mkbuf(words int, dirty bool) []byte {
	b := make([]byte, words*8)
	if dirty {
		for i := range b {
			b[i] = 0xFF
		}
	}
	return b[:0]
}

// TightArena honours the documented Arena contract but gives every new
// segment exactly the requested capacity (+Slack words), which makes far and
// double-far pointers the common case.
type TightArena struct {
	Segs  [][]byte
	Slack int
	Dirty bool
	Fail  int // fail the Fail'th Allocate call (1-based); 0 = never
	calls int
}

func (a *TightArena) NumSegments() int64 { return int64(len(a.Segs)) }

func (a *TightArena) Data(id capnp.SegmentID) ([]byte, error) {
	if int(id) >= len(a.Segs) {
		return nil, errors.New("tight arena: no such segment")
	}
	return a.Segs[id], nil
}

func (a *TightArena) Allocate(minsz capnp.Size, segs map[capnp.SegmentID]*capnp.Segment) (capnp.SegmentID, []byte, error) {
	a.calls++
	if a.Fail != 0 && a.calls == a.Fail {
		return 0, nil, errors.New("tight arena: injected allocation failure")
	}
	for i := range a.Segs {
		data := a.Segs[i]
		if s := segs[capnp.SegmentID(i)]; s != nil {
			data = s.Data()
		}
		if cap(data)-len(data) >= int(minsz) {
			return capnp.SegmentID(i), data, nil
		}
	}
	words := (int(minsz)+7)/8 + a.Slack
	buf := mkbuf(words, a.Dirty)
	a.Segs = append(a.Segs, buf)
	return capnp.SegmentID(len(a.Segs) - 1), buf, nil
}

// New builds the arena.
func (s ArenaSpec) New() capnp.Arena {
	cp := func(i int) int {
		if len(s.Caps) == 0 {
			return 1
		}
		c := s.Caps[i%len(s.Caps)]
		if c < 0 {
			c = -c
		}
		return c
	}
	switch s.Kind {
	case 1:
		return capnp.SingleSegment(mkbuf(cp(0), s.Dirty))
	case 2:
		return capnp.MultiSegment(nil)
	case 3:
		n := len(s.Caps)
		if n == 0 {
			n = 1
		}
		bufs := make([][]byte, n)
		for i := range bufs {
			bufs[i] = mkbuf(cp(i), s.Dirty)
		}
		// MultiSegment arena with pre-existing (empty) segments: NewMessage requires NumSegments()<=1
		return capnp.MultiSegment(bufs[:1])
	case 4:
		return &TightArena{Slack: s.Slack, Dirty: s.Dirty}
	default:
		return capnp.SingleSegment(nil)
	}
}
