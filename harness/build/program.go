package build

import (
	"bytes"
	"encoding/binary"
	"errors"
	"fmt"

	capnp "capnproto.org/go/capnp/v3"
	"capnproto.org/go/capnp/v3/verifharness/ref"
	"pgregory.net/rapid"
)

// Op is one abstract builder operation.  Integer operands are resolved
// modulo the number of eligible objects at execution time, so every program
// is executable.
type Op struct {
	K string    `json:"k"`
	A int       `json:"a,omitempty"`
	B int       `json:"b,omitempty"`
	C int       `json:"c,omitempty"`
	W int       `json:"w,omitempty"`
	V uint64    `json:"v,omitempty"`
	S ref.Bytes `json:"s,omitempty"`
}

type Program struct {
	Arena ArenaSpec `json:"arena"`
	Ops   []Op      `json:"ops"`
}

// ---- model --------------------------------------------------------------

type slot struct {
	n   *node
	cap int // >=0: capability index; -1 none
}

type node struct {
	isList bool
	// struct-like
	dw, pc int
	data   []byte
	ptrs   []slot // struct: pc; pointer list: n
	// list
	lk    ref.ListKind
	n     int
	prim  []byte
	bits  []bool
	elems []*node // composite elements
	// placement
	parent  *node // pointer-holder whose slot references this node (nil for tops)
	pslot   int
	elemOf  *node
	elemIdx int
	h       capnp.Ptr // API handle while this node is an orphan top
}

func (n *node) isStructLike() bool { return !n.isList }
func (n *node) holdsPtrs() bool {
	return (!n.isList && n.pc > 0) || (n.isList && n.lk == ref.LPtr && n.n > 0)
}

// Value expands the model below n into a tree.
func (n *node) Value() ref.Value {
	if n == nil {
		return ref.Null()
	}
	sv := func(s slot) ref.Value {
		if s.n != nil {
			return s.n.Value()
		}
		if s.cap >= 0 {
			return ref.CapV(uint32(s.cap))
		}
		return ref.Null()
	}
	if !n.isList {
		v := ref.Value{Kind: ref.KStruct, Data: append(ref.Bytes(nil), n.data...)}
		for _, s := range n.ptrs {
			v.Ptrs = append(v.Ptrs, sv(s))
		}
		return v
	}
	v := ref.Value{Kind: ref.KList, LK: n.lk, N: n.n}
	switch n.lk {
	case ref.LBit:
		v.Bits = append([]bool(nil), n.bits...)
	case ref.LB1, ref.LB2, ref.LB4, ref.LB8:
		v.Prim = append(ref.Bytes(nil), n.prim...)
	case ref.LPtr:
		for _, s := range n.ptrs {
			v.Elems = append(v.Elems, sv(s))
		}
	case ref.LComposite:
		v.DW, v.PC = n.dw, n.pc
		for _, e := range n.elems {
			v.Elems = append(v.Elems, e.Value())
		}
	}
	return v
}

func cloneNode(n *node) *node {
	if n == nil {
		return nil
	}
	c := &node{isList: n.isList, dw: n.dw, pc: n.pc, lk: n.lk, n: n.n}
	c.data = append([]byte(nil), n.data...)
	c.prim = append([]byte(nil), n.prim...)
	c.bits = append([]bool(nil), n.bits...)
	for i, s := range n.ptrs {
		cs := slot{cap: s.cap}
		if s.n != nil {
			cs.n = cloneNode(s.n)
			cs.n.parent, cs.n.pslot = c, i
		}
		c.ptrs = append(c.ptrs, cs)
	}
	for i, e := range n.elems {
		ce := cloneNode(e)
		ce.elemOf, ce.elemIdx = c, i
		c.elems = append(c.elems, ce)
	}
	return c
}

// ---- interpreter --------------------------------------------------------------

// Machine executes a Program.
type Machine struct {
	Msg     *capnp.Message
	Seg     *capnp.Segment
	root    *node
	orphans []*node
	Stats   struct {
		Executed, Skipped                        int
		Moves, Copies, Overwrites, Caps, Reopens int
	}
	// CheckEvery, if set, is called after every mutating op.
	OnStep func(m *Machine) error
}

var errSkip = errors.New("skip")

func NewMachine(a ArenaSpec) (*Machine, error) {
	msg, seg, err := capnp.NewMessage(a.New())
	if err != nil {
		return nil, err
	}
	msg.TraverseLimit = 1 << 50
	return &Machine{Msg: msg, Seg: seg}, nil
}

// RootValue is the model of the message's root.
func (m *Machine) RootValue() ref.Value { return m.root.Value() }

// all live nodes (reachable from root or an orphan top)
func (m *Machine) live() []*node {
	var out []*node
	var rec func(n *node)
	rec = func(n *node) {
		if n == nil {
			return
		}
		out = append(out, n)
		for _, s := range n.ptrs {
			rec(s.n)
		}
		for _, e := range n.elems {
			rec(e)
		}
	}
	rec(m.root)
	for _, o := range m.orphans {
		rec(o)
	}
	return out
}

func filter(ns []*node, f func(*node) bool) []*node {
	var out []*node
	for _, n := range ns {
		if f(n) {
			out = append(out, n)
		}
	}
	return out
}

func pickNode(ns []*node, i int) *node {
	if len(ns) == 0 {
		return nil
	}
	if i < 0 {
		i = -i
	}
	return ns[i%len(ns)]
}

func top(n *node) *node {
	for {
		switch {
		case n.elemOf != nil:
			n = n.elemOf
		case n.parent != nil:
			n = n.parent
		default:
			return n
		}
	}
}

func inSubtree(n, root *node) bool {
	for x := n; x != nil; {
		if x == root {
			return true
		}
		if x.elemOf != nil {
			x = x.elemOf
		} else {
			x = x.parent
		}
	}
	return false
}

// handle re-derives the API handle of n by reading from its top.
func (m *Machine) handle(n *node) (capnp.Ptr, error) {
	if n.elemOf != nil {
		lp, err := m.handle(n.elemOf)
		if err != nil {
			return capnp.Ptr{}, err
		}
		l := lp.List()
		if !l.IsValid() || l.Len() <= n.elemIdx {
			return capnp.Ptr{}, fmt.Errorf("model/API mismatch: composite list handle invalid or short")
		}
		return l.Struct(n.elemIdx).ToPtr(), nil
	}
	if n.parent != nil {
		pp, err := m.handle(n.parent)
		if err != nil {
			return capnp.Ptr{}, err
		}
		if n.parent.isList {
			return capnp.PointerList{List: pp.List()}.At(n.pslot)
		}
		return pp.Struct().Ptr(uint16(n.pslot))
	}
	if n == m.root {
		return m.Msg.Root()
	}
	return n.h, nil
}

// APIError is an error returned by the library for an operation the model says must succeed.
type APIError struct {
	Op  string
	Err error
}

func (e *APIError) Error() string { return e.Op + ": " + e.Err.Error() }

func (m *Machine) detach(parent *node, i int) error {
	// the object currently referenced by parent.ptrs[i] becomes an orphan top
	old := parent.ptrs[i].n
	if old == nil {
		return nil
	}
	h, err := m.handle(old)
	if err != nil {
		return &APIError{"re-read before overwrite", err}
	}
	old.h, old.parent = h, nil
	m.orphans = append(m.orphans, old)
	m.Stats.Overwrites++
	return nil
}

func (m *Machine) removeOrphan(n *node) {
	for i, o := range m.orphans {
		if o == n {
			m.orphans = append(m.orphans[:i], m.orphans[i+1:]...)
			return
		}
	}
}

func (m *Machine) setPtrAPI(parent *node, i int, src capnp.Ptr) error {
	ph, err := m.handle(parent)
	if err != nil {
		return &APIError{"handle", err}
	}
	if parent.isList {
		if err := (capnp.PointerList{List: ph.List()}).Set(i, src); err != nil {
			return &APIError{"PointerList.Set", err}
		}
		return nil
	}
	if err := ph.Struct().SetPtr(uint16(i), src); err != nil {
		return &APIError{"Struct.SetPtr", err}
	}
	return nil
}

// copyInto models copyStruct(dst, src): data truncated/zero-extended, common pointers deep-copied, rest nulled.
func copyInto(dst, src *node) {
	for i := range dst.data {
		dst.data[i] = 0
	}
	copy(dst.data, src.data)
	for i := range dst.ptrs {
		dst.ptrs[i] = slot{cap: -1}
		if i < len(src.ptrs) {
			s := src.ptrs[i]
			dst.ptrs[i].cap = s.cap
			if s.n != nil {
				c := cloneNode(s.n)
				c.parent, c.pslot = dst, i
				dst.ptrs[i].n = c
			}
		}
	}
}

// Exec runs one op; errSkip means no eligible operands.
func (m *Machine) Exec(op Op) error {
	live := m.live()
	switch op.K {
	case "reopen":
		// The message goes over the wire and the program continues on the received copy: what Unmarshal / Decode hand
		// out is a message like any other and may be extended and serialised again.  (Objects not attached to the root
		// do not travel; capabilities do not either, so programs that used them skip this.)
		if len(m.orphans) > 0 || m.Stats.Caps > 0 || m.root == nil {
			return errSkip
		}
		b, err := m.Msg.Marshal()
		if err != nil {
			return &APIError{"Marshal", err}
		}
		var msg *capnp.Message
		if op.A%2 == 0 {
			msg, err = capnp.Unmarshal(append([]byte(nil), b...))
		} else {
			msg, err = capnp.NewDecoder(bytes.NewReader(b)).Decode()
		}
		if err != nil {
			return &APIError{"Unmarshal/Decode of the message's own Marshal output", err}
		}
		msg.TraverseLimit = 1 << 50
		seg, err := msg.Segment(0)
		if err != nil {
			return &APIError{"Segment(0)", err}
		}
		m.Msg, m.Seg = msg, seg
		m.Stats.Reopens++
	case "newStruct":
		dw, pc := op.A%4, op.B%4
		dsz := dw * 8
		if dw > 0 && op.C%8 != 0 {
			dsz -= op.C % 8 // unaligned request: NewStruct pads to a word
		}
		s, err := capnp.NewStruct(m.Seg, capnp.ObjectSize{DataSize: capnp.Size(dsz), PointerCount: uint16(pc)})
		if err != nil {
			return &APIError{"NewStruct", err}
		}
		n := &node{dw: dw, pc: pc, data: make([]byte, dw*8), h: s.ToPtr()}
		for i := 0; i < pc; i++ {
			n.ptrs = append(n.ptrs, slot{cap: -1})
		}
		m.orphans = append(m.orphans, n)
	case "newList":
		lk := ref.ListKind(op.A % 6)
		cnt := op.B % 6001
		var l capnp.List
		var err error
		switch lk {
		case ref.LVoid:
			l = capnp.NewVoidList(m.Seg, int32(cnt)).List
		case ref.LBit:
			var x capnp.BitList
			x, err = capnp.NewBitList(m.Seg, int32(cnt))
			l = x.List
		case ref.LB1:
			var x capnp.UInt8List
			x, err = capnp.NewUInt8List(m.Seg, int32(cnt))
			l = x.List
		case ref.LB2:
			var x capnp.UInt16List
			x, err = capnp.NewUInt16List(m.Seg, int32(cnt))
			l = x.List
		case ref.LB4:
			var x capnp.Float32List
			x, err = capnp.NewFloat32List(m.Seg, int32(cnt))
			l = x.List
		case ref.LB8:
			var x capnp.Int64List
			x, err = capnp.NewInt64List(m.Seg, int32(cnt))
			l = x.List
		}
		if err != nil {
			return &APIError{"New*List", err}
		}
		n := &node{isList: true, lk: lk, n: cnt, h: l.ToPtr()}
		n.prim = make([]byte, cnt*lk.ElemBytes())
		if lk == ref.LBit {
			n.bits = make([]bool, cnt)
		}
		m.orphans = append(m.orphans, n)
	case "newPtrList":
		cnt := op.B % 5
		l, err := capnp.NewPointerList(m.Seg, int32(cnt))
		if err != nil {
			return &APIError{"NewPointerList", err}
		}
		n := &node{isList: true, lk: ref.LPtr, n: cnt, h: l.ToPtr()}
		for i := 0; i < cnt; i++ {
			n.ptrs = append(n.ptrs, slot{cap: -1})
		}
		m.orphans = append(m.orphans, n)
	case "newComp":
		dw, pc, cnt := op.A%3, op.B%3, op.C%5
		if op.C >= 1000 {
			cnt = (op.C - 1000) % 700 // occasional big allocation (> 4 KiB)
		}
		l, err := capnp.NewCompositeList(m.Seg, capnp.ObjectSize{DataSize: capnp.Size(dw * 8), PointerCount: uint16(pc)}, int32(cnt))
		if err != nil {
			return &APIError{"NewCompositeList", err}
		}
		n := &node{isList: true, lk: ref.LComposite, n: cnt, dw: dw, pc: pc, h: l.ToPtr()}
		for i := 0; i < cnt; i++ {
			e := &node{dw: dw, pc: pc, data: make([]byte, dw*8), elemOf: n, elemIdx: i}
			for j := 0; j < pc; j++ {
				e.ptrs = append(e.ptrs, slot{cap: -1})
			}
			n.elems = append(n.elems, e)
		}
		m.orphans = append(m.orphans, n)
	case "newText", "newData":
		b := []byte(op.S)
		var l capnp.UInt8List
		var err error
		n := &node{isList: true, lk: ref.LB1}
		if op.K == "newText" {
			l, err = capnp.NewTextFromBytes(m.Seg, b)
			n.prim = append(append([]byte(nil), b...), 0)
		} else {
			l, err = capnp.NewData(m.Seg, b)
			n.prim = append([]byte(nil), b...)
		}
		if err != nil {
			return &APIError{op.K, err}
		}
		n.n = len(n.prim)
		n.h = l.ToPtr()
		m.orphans = append(m.orphans, n)
	case "setData":
		t := pickNode(filter(live, func(n *node) bool { return n.isStructLike() && n.dw > 0 }), op.A)
		if t == nil {
			return errSkip
		}
		h, err := m.handle(t)
		if err != nil {
			return &APIError{"handle", err}
		}
		s := h.Struct()
		if !s.IsValid() {
			return &APIError{"handle", errors.New("struct handle invalid")}
		}
		sz := len(t.data)
		switch op.W {
		case 0:
			bit := op.B % (sz * 8)
			s.SetBit(capnp.BitOffset(bit), op.V&1 == 1)
			if op.V&1 == 1 {
				t.data[bit/8] |= 1 << uint(bit%8)
			} else {
				t.data[bit/8] &^= 1 << uint(bit%8)
			}
		case 1:
			off := op.B % sz
			s.SetUint8(capnp.DataOffset(off), uint8(op.V))
			t.data[off] = uint8(op.V)
		case 2:
			off := (op.B % (sz / 2)) * 2
			s.SetUint16(capnp.DataOffset(off), uint16(op.V))
			binary.LittleEndian.PutUint16(t.data[off:], uint16(op.V))
		case 4:
			off := (op.B % (sz / 4)) * 4
			s.SetUint32(capnp.DataOffset(off), uint32(op.V))
			binary.LittleEndian.PutUint32(t.data[off:], uint32(op.V))
		default:
			off := (op.B % (sz / 8)) * 8
			s.SetUint64(capnp.DataOffset(off), op.V)
			binary.LittleEndian.PutUint64(t.data[off:], op.V)
		}
	case "setElem":
		t := pickNode(filter(live, func(n *node) bool {
			return n.isList && n.n > 0 && (n.lk == ref.LBit || n.lk.ElemBytes() > 0)
		}), op.A)
		if t == nil {
			return errSkip
		}
		h, err := m.handle(t)
		if err != nil {
			return &APIError{"handle", err}
		}
		l := h.List()
		if !l.IsValid() || l.Len() != t.n {
			return &APIError{"handle", fmt.Errorf("list handle invalid or wrong length %d want %d", l.Len(), t.n)}
		}
		i := op.B % t.n
		switch t.lk {
		case ref.LBit:
			capnp.BitList{List: l}.Set(i, op.V&1 == 1)
			t.bits[i] = op.V&1 == 1
		case ref.LB1:
			capnp.UInt8List{List: l}.Set(i, uint8(op.V))
			t.prim[i] = uint8(op.V)
		case ref.LB2:
			capnp.Int16List{List: l}.Set(i, int16(op.V))
			binary.LittleEndian.PutUint16(t.prim[2*i:], uint16(op.V))
		case ref.LB4:
			capnp.UInt32List{List: l}.Set(i, uint32(op.V))
			binary.LittleEndian.PutUint32(t.prim[4*i:], uint32(op.V))
		case ref.LB8:
			capnp.UInt64List{List: l}.Set(i, op.V)
			binary.LittleEndian.PutUint64(t.prim[8*i:], op.V)
		}
	case "setPtr":
		mode := int(op.V % 6)
		var src *node
		switch mode {
		case 1:
			src = pickNode(m.orphans, op.C)
		case 2:
			src = pickNode(filter(live, func(n *node) bool { return n.elemOf != nil }), op.C)
		}
		if (mode == 1 || mode == 2) && src == nil {
			mode = 0
		}
		holders := filter(live, func(n *node) bool {
			if !n.holdsPtrs() {
				return false
			}
			if mode == 1 && inSubtree(n, src) {
				return false
			}
			if mode == 2 && (inSubtree(n, src) || inSubtree(src, n)) {
				// copying an element into its own subtree (or into an ancestor's slot that holds it) is legal
				// but the model of "simultaneous read and write" is murky: skip
				return false
			}
			return true
		})
		p := pickNode(holders, op.A)
		if p == nil {
			return errSkip
		}
		i := op.B % len(p.ptrs)
		if mode == 2 && p.ptrs[i].n != nil && inSubtree(src, p.ptrs[i].n) {
			return errSkip
		}
		if err := m.detach(p, i); err != nil {
			return err
		}
		switch mode {
		case 0:
			if err := m.setPtrAPI(p, i, capnp.Ptr{}); err != nil {
				return err
			}
			p.ptrs[i] = slot{cap: -1}
		case 1:
			if err := m.setPtrAPI(p, i, src.h); err != nil {
				return err
			}
			m.removeOrphan(src)
			src.parent, src.pslot, src.h = p, i, capnp.Ptr{}
			p.ptrs[i] = slot{n: src, cap: -1}
			m.Stats.Moves++
		case 2:
			sh, err := m.handle(src)
			if err != nil {
				return &APIError{"handle", err}
			}
			if err := m.setPtrAPI(p, i, sh); err != nil {
				return err
			}
			c := cloneNode(src)
			c.elemOf, c.elemIdx = nil, 0
			c.parent, c.pslot = p, i
			p.ptrs[i] = slot{n: c, cap: -1}
			m.Stats.Copies++
		case 3:
			id := m.Msg.AddCap(capnp.ErrorClient(errors.New("cap")))
			ph, err := m.handle(p)
			if err != nil {
				return &APIError{"handle", err}
			}
			if err := m.setPtrAPI(p, i, capnp.NewInterface(ph.Segment(), id).ToPtr()); err != nil {
				return err
			}
			p.ptrs[i] = slot{cap: int(id)}
			m.Stats.Caps++
		case 4, 5:
			if p.isList {
				if err := m.setPtrAPI(p, i, capnp.Ptr{}); err != nil {
					return err
				}
				p.ptrs[i] = slot{cap: -1}
				break
			}
			ph, err := m.handle(p)
			if err != nil {
				return &APIError{"handle", err}
			}
			b := []byte(op.S)
			n := &node{isList: true, lk: ref.LB1, parent: p, pslot: i}
			if mode == 4 {
				err = ph.Struct().SetNewText(uint16(i), string(b))
				n.prim = append(append([]byte(nil), b...), 0)
			} else {
				if b == nil {
					b = []byte{}
				}
				err = ph.Struct().SetData(uint16(i), b)
				n.prim = append([]byte(nil), b...)
			}
			if err != nil {
				return &APIError{"SetNewText/SetData", err}
			}
			n.n = len(n.prim)
			p.ptrs[i] = slot{n: n, cap: -1}
		}
	case "setStruct", "copyFrom":
		var dst *node
		if op.K == "setStruct" {
			dst = pickNode(filter(live, func(n *node) bool { return n.elemOf != nil }), op.A+op.B)
		} else {
			dst = pickNode(filter(live, func(n *node) bool { return n.isStructLike() }), op.A)
		}
		if dst == nil {
			return errSkip
		}
		src := pickNode(filter(live, func(n *node) bool {
			return n.isStructLike() && n != dst && !inSubtree(n, dst) && !inSubtree(dst, n)
		}), op.C)
		if src == nil {
			return errSkip
		}
		dh, err := m.handle(dst)
		if err != nil {
			return &APIError{"handle", err}
		}
		sh, err := m.handle(src)
		if err != nil {
			return &APIError{"handle", err}
		}
		if op.K == "setStruct" {
			lh, err := m.handle(dst.elemOf)
			if err != nil {
				return &APIError{"handle", err}
			}
			if err := lh.List().SetStruct(dst.elemIdx, sh.Struct()); err != nil {
				return &APIError{"List.SetStruct", err}
			}
		} else {
			if err := dh.Struct().CopyFrom(sh.Struct()); err != nil {
				return &APIError{"Struct.CopyFrom", err}
			}
		}
		copyInto(dst, src)
		m.Stats.Copies++
	case "setRoot":
		src := pickNode(filter(m.orphans, func(n *node) bool { return n.isStructLike() }), op.A)
		if src == nil {
			return errSkip
		}
		if m.root != nil {
			h, err := m.Msg.Root()
			if err != nil {
				return &APIError{"Root", err}
			}
			m.root.h = h
			m.orphans = append(m.orphans, m.root)
			m.root = nil
		}
		if err := m.Msg.SetRoot(src.h); err != nil {
			return &APIError{"SetRoot", err}
		}
		m.removeOrphan(src)
		src.h = capnp.Ptr{}
		m.root = src
		m.Stats.Moves++
	case "attachAll":
		// attach every orphan top to a free slot of the root tree (if any)
		for {
			if m.root == nil || len(m.orphans) == 0 {
				break
			}
			var free *node
			fi := 0
			var rec func(n *node)
			rec = func(n *node) {
				if n == nil || free != nil {
					return
				}
				for i, s := range n.ptrs {
					if s.n == nil && s.cap < 0 && free == nil {
						free, fi = n, i
						return
					}
				}
				for _, s := range n.ptrs {
					rec(s.n)
				}
				for _, e := range n.elems {
					rec(e)
				}
			}
			rec(m.root)
			if free == nil {
				break
			}
			src := m.orphans[0]
			if err := m.setPtrAPI(free, fi, src.h); err != nil {
				return err
			}
			m.removeOrphan(src)
			src.parent, src.pslot, src.h = free, fi, capnp.Ptr{}
			free.ptrs[fi] = slot{n: src, cap: -1}
			m.Stats.Moves++
		}
	case "check":
		// handled by caller through OnStep
	default:
		return errSkip
	}
	return nil
}

// Run executes the whole program; API errors are returned, skips counted.
func (m *Machine) Run(p Program) error {
	for _, op := range p.Ops {
		err := m.Exec(op)
		if err == errSkip {
			m.Stats.Skipped++
			continue
		}
		if err != nil {
			return err
		}
		m.Stats.Executed++
		if m.OnStep != nil && (op.K == "check" || op.K[:3] == "set" || op.K == "copyFrom") {
			if err := m.OnStep(m); err != nil {
				return err
			}
		}
	}
	return nil
}

// OrphanValues returns (handle, model value) for every orphan top: objects not
// reachable from the root must read back unchanged too.
func (m *Machine) OrphanValues() (hs []capnp.Ptr, vs []ref.Value) {
	for _, o := range m.orphans {
		hs = append(hs, o.h)
		vs = append(vs, o.Value())
	}
	return
}

// ---- generator ----------------------------------------------------------------

func GenArena(t *rapid.T) ArenaSpec {
	a := ArenaSpec{Kind: rapid.IntRange(0, 4).Draw(t, "arena")}
	switch a.Kind {
	case 1, 3:
		a.Caps = []int{rapid.SampledFrom([]int{1, 2, 3, 4, 6, 8, 16, 64, 1024, 8192}).Draw(t, "cap0")}
	case 4:
		a.Slack = rapid.IntRange(0, 3).Draw(t, "slack")
	}
	if a.Kind != 0 && a.Kind != 2 {
		a.Dirty = rapid.Bool().Draw(t, "dirty")
	}
	return a
}

func GenProgram(t *rapid.T, maxOps int) Program {
	p := Program{Arena: GenArena(t)}
	val := func() uint64 {
		switch rapid.IntRange(0, 3).Draw(t, "vk") {
		case 0:
			return 0
		case 1:
			return ^uint64(0)
		default:
			return rapid.Uint64().Draw(t, "v")
		}
	}
	small := func(l string) int { return rapid.IntRange(0, 11).Draw(t, l) }
	// usually begin with a root that can hold pointers
	if rapid.IntRange(0, 9).Draw(t, "rootfirst") != 0 {
		p.Ops = append(p.Ops, Op{K: "newStruct", A: small("a"), B: 1 + rapid.IntRange(0, 2).Draw(t, "b")}, Op{K: "setRoot"})
	}
	n := rapid.IntRange(1, maxOps).Draw(t, "nops")
	kinds := []string{"newStruct", "newStruct", "newList", "newPtrList", "newComp", "newComp", "newText", "newData",
		"setData", "setData", "setElem", "setPtr", "setPtr", "setPtr", "setPtr", "setStruct", "copyFrom", "setRoot", "attachAll", "check", "reopen"}
	for i := 0; i < n; i++ {
		k := rapid.SampledFrom(kinds).Draw(t, "op")
		op := Op{K: k}
		switch k {
		case "newStruct":
			op.A, op.B, op.C = small("a"), small("b"), rapid.IntRange(0, 7).Draw(t, "c")
		case "newList":
			op.A = small("a")
			op.B = rapid.SampledFrom([]int{0, 1, 2, 3, 7, 8, 9, 15, 16, 17, 63, 64, 65}).Draw(t, "n")
			if rapid.IntRange(0, 11).Draw(t, "bigalloc") == 0 {
				op.B = rapid.SampledFrom([]int{511, 512, 513, 1025, 4097, 6000}).Draw(t, "nbig")
			}
		case "newPtrList":
			op.B = small("b")
		case "newComp":
			op.A, op.B, op.C = small("a"), small("b"), small("c")
			if rapid.IntRange(0, 11).Draw(t, "bigalloc") == 0 {
				op.C = 1000 + rapid.SampledFrom([]int{130, 257, 400, 600}).Draw(t, "cbig")
			}
		case "newText", "newData":
			op.S = rapid.SliceOfN(rapid.Byte(), 0, 12).Draw(t, "s")
		case "setData":
			op.A, op.B, op.V = small("a"), rapid.IntRange(0, 200).Draw(t, "b"), val()
			op.W = rapid.SampledFrom([]int{0, 1, 2, 4, 8}).Draw(t, "w")
		case "setElem":
			op.A, op.B, op.V = small("a"), rapid.IntRange(0, 200).Draw(t, "b"), val()
		case "setPtr":
			op.A, op.B, op.C = small("a"), small("b"), small("c")
			op.V = uint64(rapid.SampledFrom([]int{0, 1, 1, 1, 1, 2, 2, 3, 4, 5}).Draw(t, "mode"))
			if op.V >= 4 {
				op.S = rapid.SliceOfN(rapid.Byte(), 0, 10).Draw(t, "s")
			}
		case "setStruct", "copyFrom":
			op.A, op.B, op.C = small("a"), small("b"), small("c")
		case "setRoot", "reopen":
			op.A = small("a")
		}
		if k == "reopen" {
			// attach everything first so that the whole tree travels
			p.Ops = append(p.Ops, Op{K: "attachAll"})
		}
		p.Ops = append(p.Ops, op)
	}
	if rapid.IntRange(0, 3).Draw(t, "finalattach") != 0 {
		p.Ops = append(p.Ops, Op{K: "attachAll"})
	}
	return p
}
