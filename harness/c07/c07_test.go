package c07

import (
	"testing"

	"capnproto.org/go/capnp/v3/verifharness/pbt"
	"capnproto.org/go/capnp/v3/verifharness/vat"
	"pgregory.net/rapid"
)

func TestProp(t *testing.T)   { pbt.RunProps(t) }
func TestReplay(t *testing.T) { pbt.RunReplay(t) }

// the vocabulary biased to capability traffic
var kinds = []string{
	"p-boot", "p-boot", "p-boot",
	"p-call", "p-call", "p-call", "p-call", "p-call",
	"p-pcall", "p-pcall",
	"p-finish", "p-finish", "p-finish-in-write", "p-finish",
	"p-release", "p-release", "p-release", "p-release",
	"p-return", "p-return", "p-return",
	"p-forward", "p-echo",
	"open",
	"a-boot", "a-boot",
	"a-call", "a-call", "a-call",
	"a-pcall",
	"a-getcap", "a-getcap", "a-getcap",
	"a-cancel", "a-release-client", "a-release-client", "a-release-answer", "a-release-answer",
}

// flag bytes that make calls return capabilities: new object / echo of the parameter capability, once or twice
var capFlags = []int{0x10, 0x10, 0x50, 0x20, 0x60, 0x11, 0x51, 0x21, 0x00, 0x01, 0x1e}

func randStep(t *rapid.T) vat.Step {
	s := vat.Step{
		K: rapid.SampledFrom(kinds).Draw(t, "k"),
		A: rapid.IntRange(0, 15).Draw(t, "a"),
		B: rapid.IntRange(0, 127).Draw(t, "b"),
		C: rapid.IntRange(0, 511).Draw(t, "c"),
	}
	switch s.K {
	case "p-call", "p-pcall":
		s.B = rapid.SampledFrom(capFlags).Draw(t, "flags")
		// params: none / new B capability / one the Conn already holds / one of the Conn's own exports
		s.C = rapid.SampledFrom([]int{0, 2, 3, 3, 4, 4, 11, 12, 19, 20}).Draw(t, "param")
	case "a-call":
		s.B = rapid.SampledFrom([]int{0, 2, 2, 3, 3}).Draw(t, "param")
	}
	return s
}

// skeletons for the rarer reference-count situations; drawn steps are interleaved with them
var skeletons = map[string][]vat.Step{
	// a call carrying a local capability is cancelled, then answered with releaseParamCaps
	"cancelled-call-with-param-cap": {{K: "p-boot"}, {K: "a-boot"}, {K: "p-return", C: 1}, {K: "a-call", A: 15, B: 2}, {K: "a-cancel", A: 15}, {K: "p-return", A: 0, B: 0, C: 0}},
	// the same for a call that is not cancelled, and one whose param export is also held through another descriptor
	"return-releases-param-cap": {{K: "p-boot"}, {K: "a-boot"}, {K: "p-return", C: 1}, {K: "a-call", A: 15, B: 2}, {K: "a-call", A: 15, B: 2}, {K: "p-return", A: 0, B: 0, C: 0}, {K: "p-return", A: 0, B: 3, C: 0}},
	// Finish with releaseResultCaps before the Return of a call that returns capabilities
	"finish-rrc-before-return": {{K: "p-boot"}, {K: "p-call", B: 0x11}, {K: "p-call", B: 0x51}, {K: "p-finish", A: 15, B: 1}, {K: "p-finish", A: 15, B: 1}, {K: "open"}, {K: "open"}},
	// one object exported several times, released in parts
	"partial-releases": {{K: "p-boot"}, {K: "p-call", B: 0x10}, {K: "p-call", A: 15, B: 0x60, C: 4 + 8}, {K: "p-call", A: 15, B: 0x60, C: 4 + 8}, {K: "p-release", A: 15, B: 0}, {K: "p-finish", A: 15, B: 1}, {K: "p-release", A: 15, B: 1}, {K: "p-release", A: 15, B: 0}},
	// the application passes its only reference to a peer capability back to the peer
	"import-handed-back": {{K: "p-boot"}, {K: "a-boot"}, {K: "p-return", C: 1}, {K: "a-call", A: 15, B: 0}, {K: "p-return", A: 0, B: 1, C: 1}, {K: "a-getcap", A: 15, B: 0}, {K: "a-release-answer", A: 15}, {K: "a-call", A: 0, B: 3}, {K: "a-release-client", A: 15}},
}
var shapes = []string{"", "", "", "", "", "cancelled-call-with-param-cap", "return-releases-param-cap", "finish-rrc-before-return", "partial-releases", "import-handed-back"}

func genCase(t *rapid.T) vat.Case {
	c := vat.Case{CloseAt: -1, Burst: rapid.IntRange(0, 3).Draw(t, "burst") == 0}
	if shape := rapid.SampledFrom(shapes).Draw(t, "shape"); shape != "" {
		for _, s := range skeletons[shape] {
			for i, n := 0, rapid.SampledFrom([]int{0, 0, 0, 1, 1, 2}).Draw(t, "fill"); i < n; i++ {
				c.Steps = append(c.Steps, randStep(t))
			}
			c.Steps = append(c.Steps, s)
		}
	} else if rapid.IntRange(0, 9).Draw(t, "prefix") > 0 {
		c.Steps = append(c.Steps, vat.Step{K: "p-boot"}, vat.Step{K: "a-boot"}, vat.Step{K: "p-return", C: 1})
	}
	n := rapid.IntRange(3, 40).Draw(t, "n")
	for i := 0; i < n; i++ {
		c.Steps = append(c.Steps, randStep(t))
	}
	// a third of the histories end with Close in the middle of everything
	if rapid.IntRange(0, 2).Draw(t, "close") == 0 {
		c.CloseAt = rapid.IntRange(1, len(c.Steps)).Draw(t, "closeAt")
	}
	return c
}

var _ = pbt.Register(pbt.Spec[vat.Case]{
	Property: "C07", Name: "refcount-model",
	Rule:     "history = optional mutual Bootstrap prefix + 3-40 drawn steps over the same two-sided vocabulary as C06, biased to capability traffic: calls that return a fresh object or echo their parameter capability once or twice, parameters carrying new or already held B-hosted capabilities or the Conn's own exports, partial and total Release, Finish with and without releaseResultCaps before or after the Return, Returns with releaseParamCaps, capabilities taken out of results, client and answer releases; a third of the histories end with Close at a drawn step instead of an orderly wind-down; a quarter run in burst mode. Non-trivial: an export with a partial release while other references remain, or at least two Release messages from the Conn.",
	Quick:    1500, Thorough: 20000,
	Gen:      genCase,
	Run:      func(c vat.Case) (pbt.Result, error) { return vat.Run(c, vat.Options{Refs: true}) },
})
