package c07

import (
	"context"
	"fmt"
	"sync"
	"sync/atomic"
	"time"

	capnp "capnproto.org/go/capnp/v3"
	"capnproto.org/go/capnp/v3/rpc"
	"capnproto.org/go/capnp/v3/server"
	"capnproto.org/go/capnp/v3/verifharness/pbt"
	"capnproto.org/go/capnp/v3/verifharness/rpcsim"
	"capnproto.org/go/capnp/v3/verifharness/vat"
	"pgregory.net/rapid"
)

// RCase: the peer sends the same capability over and over in call parameters while the Conn's local references to
// it come and go (each call's arguments are released when the call returns; the application keeps some of the
// clients for a while).  The shutdown of the last local client of one "generation" therefore races with the arrival
// of the next descriptor.
type RCase struct {
	Calls     int   `json:"calls"`
	KeepEvery int   `json:"keep_every"` // the object keeps the parameter capability of every n-th call (0 = never)
	UseKept   bool  `json:"use_kept"`   // the application calls through the kept clients before releasing them
	Sync      []int `json:"sync"`       // after these call numbers the peer waits until the Conn is quiet
	ReleaseLag int  `json:"release_lag_us"` // delay between a client's last reference going away and its Shutdown
	Echo      bool  `json:"echo"`       // calls return the capability they received
}

var releaseLag atomic.Int64

func init() {
	// installed once; consulted through an atomic so that cases can change the delay
	capnp.VerifYield = func(site string) {
		if site == "Client.Release:wait-done" {
			if d := releaseLag.Load(); d > 0 {
				time.Sleep(time.Duration(d) * time.Microsecond)
			}
		}
	}
}

func runR(c RCase) (pbt.Result, error) {
	var res pbt.Result
	releaseLag.Store(int64(c.ReleaseLag))
	defer releaseLag.Store(0)
	w := rpcsim.NewWire()
	var kmu sync.Mutex
	var kept []*capnp.Client
	var ncalls int
	srv := server.New([]server.Method{{Method: capnp.Method{InterfaceID: rpcsim.Iface, MethodID: rpcsim.Method}, Impl: func(ctx context.Context, call *server.Call) error {
		args := call.Args()
		p, err := args.Ptr(0)
		if err != nil {
			return err
		}
		kmu.Lock()
		ncalls++
		n := ncalls
		kmu.Unlock()
		cl := p.Interface().Client()
		if c.KeepEvery > 0 && n%c.KeepEvery == 0 {
			kmu.Lock()
			kept = append(kept, cl.AddRef())
			kmu.Unlock()
		}
		call.Ack()
		out, err := call.AllocResults(capnp.ObjectSize{DataSize: 8, PointerCount: 1})
		if err != nil {
			return err
		}
		out.SetUint64(0, args.Uint64(0))
		if c.Echo {
			return out.SetPtr(0, capnp.NewInterface(out.Segment(), out.Message().AddCap(cl.AddRef())).ToPtr())
		}
		return nil
	}}}, nil, nil, &server.Policy{MaxConcurrentCalls: 64, AnswerQueueSize: 64})
	conn := rpc.NewConn(w, &rpc.Options{BootstrapClient: capnp.NewClient(srv), AbortTimeout: 50 * time.Millisecond})
	closed := false
	defer func() {
		if !closed {
			conn.Close()
		}
	}()
	const bid = 100
	sent, released := 0, 0 // descriptors for bid sent to the Conn / given back by Release messages
	returns := map[uint32]bool{}
	var history []string
	fail := func(sig, format string, args ...interface{}) error {
		tail := history
		if len(tail) > 50 {
			tail = tail[len(tail)-50:]
		}
		s := ""
		for _, l := range tail {
			s += l + "\n"
		}
		return pbt.Fail(sig, "%s\n--- messages from the Conn (last %d) ---\n%s", fmt.Sprintf(format, args...), len(tail), s)
	}
	callsFromA := 0
	handle := func(m rpcsim.Msg) error {
		history = append(history, m.String())
		switch m.Which {
		case "return":
			if returns[m.ID] {
				return fail("return/duplicate", "second Return for answer %d", m.ID)
			}
			returns[m.ID] = true
			if m.RetKind != "results" {
				return fail("return/wrong-result", "call %d failed: %s", m.ID, m.Reason)
			}
			for _, d := range m.Caps {
				if d.Kind == "receiverHosted" && (d.ID != bid || sent-released <= 0) {
					return fail("refs/descriptor-on-released-import", "Return %d names receiverHosted(%d) while the Conn holds %d references on it", m.ID, d.ID, sent-released)
				}
			}
		case "release":
			if m.ID != bid {
				return fail("refs/release-unknown", "Release for id %d, which the peer never sent", m.ID)
			}
			released += int(m.Count)
			if released > sent {
				return fail("refs/import-over-release", "the Conn has released %d references on capability %d but received only %d", released, bid, sent)
			}
			res.Count("release_messages", 1)
		case "call":
			// the application calling through a kept client
			if m.TargetKind != "import" || m.TargetID != bid {
				return fail("conformance/call-target", "unexpected call target: %s", m.String())
			}
			if sent-released <= 0 {
				return fail("refs/call-on-released-import", "the Conn calls capability %d after releasing all its references", bid)
			}
			callsFromA++
			w.SendReturn(rpcsim.PeerReturn{A: m.ID, Serial: m.Serial})
		case "finish", "unimplemented":
		case "abort":
			return fail("conformance/abort", "the Conn aborted: %s", m.Reason)
		default:
			return fail("conformance/unexpected-message", "unexpected %s", m.String())
		}
		return nil
	}
	marker := uint32(0)
	barrier := func() error {
		marker++
		w.SendMarker(marker)
		t0 := time.Now()
		for {
			m, ok := w.Next(vat.Deadline - time.Since(t0))
			if !ok {
				return fail("hang/receive-loop", "no echo of a marker within %v\n%s", vat.Deadline, pbt.Stacks("capnp/v3/rpc."))
			}
			if m.Which == "unimplemented" && m.Inner != nil && m.Inner.Which == "join" && m.Inner.ID == marker {
				return nil
			}
			if err := handle(m); err != nil {
				return err
			}
		}
	}
	// B obtains the bootstrap capability (export 0)
	w.SendBootstrap(0)
	if err := barrier(); err != nil {
		return res, err
	}
	syncAt := map[int]bool{}
	for _, s := range c.Sync {
		syncAt[s] = true
	}
	for i := 1; i <= c.Calls; i++ {
		sent++
		w.SendCall(rpcsim.PeerCall{Q: uint32(i), Target: rpcsim.Target{ID: 0}, Serial: uint64(i), Caps: []rpcsim.CapDesc{{Kind: "senderHosted", ID: bid}}})
		if syncAt[i] {
			if err := barrier(); err != nil {
				return res, err
			}
		} else {
			for _, m := range w.Drain() {
				if err := handle(m); err != nil {
					return res, err
				}
			}
		}
	}
	// every call returns
	t0 := time.Now()
	for len(returns) < c.Calls+1 {
		if err := barrier(); err != nil {
			return res, err
		}
		if time.Since(t0) > vat.Deadline {
			return res, fail("missing/Return", "%d of %d calls returned", len(returns)-1, c.Calls)
		}
		time.Sleep(100 * time.Microsecond)
	}
	for i := 0; i <= c.Calls; i++ {
		w.SendFinish(uint32(i), false)
	}
	if err := barrier(); err != nil {
		return res, err
	}
	// the application uses and then drops what it kept
	kmu.Lock()
	mine := kept
	kept = nil
	kmu.Unlock()
	if len(mine) > 0 {
		// while the application holds a client the Conn must hold at least one reference
		time.Sleep(time.Duration(c.ReleaseLag+200) * time.Microsecond)
		if err := barrier(); err != nil {
			return res, err
		}
		if sent-released <= 0 {
			return res, fail("refs/import-released-early", "the application holds %d clients of capability %d but the Conn has released all %d references", len(mine), bid, sent)
		}
	}
	if c.UseKept {
		for i, cl := range mine {
			serial := uint64(1000 + i)
			var ans *capnp.Answer
			var rel capnp.ReleaseFunc
			done := make(chan struct{})
			go func() {
				defer close(done)
				ans, rel = cl.SendCall(context.Background(), capnp.Send{Method: capnp.Method{InterfaceID: rpcsim.Iface, MethodID: rpcsim.Method}, ArgsSize: capnp.ObjectSize{DataSize: 16, PointerCount: 1},
					PlaceArgs: func(st capnp.Struct) error { st.SetUint64(0, serial); return nil }})
			}()
			select {
			case <-done:
			case <-time.After(vat.Deadline):
				return res, fail("hang/SendCall", "SendCall on a kept client did not return")
			}
			t0 := time.Now()
			for {
				if err := barrier(); err != nil {
					return res, err
				}
				select {
				case <-ans.Done():
				default:
					if time.Since(t0) > vat.Deadline {
						return res, fail("missing/resolution", "call through a kept client never resolved")
					}
					continue
				}
				break
			}
			st, err := ans.Struct()
			if err != nil {
				return res, fail("refs/kept-client-unusable", "the application kept client #%d of capability %d (received in call parameters, never released), but a call through it fails: %v", i, bid, err)
			}
			if st.Uint64(0) != serial {
				return res, fail("result/wrong", "call %d through a kept client got the results of call %d", serial, st.Uint64(0))
			}
			rel()
		}
	}
	for _, cl := range mine {
		cl.Release()
	}
	// all references must come back
	t0 = time.Now()
	for released < sent {
		if err := barrier(); err != nil {
			return res, err
		}
		if time.Since(t0) > vat.Deadline/2 {
			return res, fail("refs/import-not-released", "the peer sent capability %d in %d descriptors; every call has returned and been finished and the application holds nothing, but the Conn's Release messages add up to %d", bid, sent, released)
		}
		time.Sleep(200 * time.Microsecond)
	}
	st := conn.VerifState()
	if st.MuFree && st.Imports != 0 {
		return res, fail("refs/tables-not-empty", "all references released but the import table still has %d entries", st.Imports)
	}
	closed = true
	conn.Close()
	res.Count("descriptors", int64(sent))
	res.Count("calls_through_kept_clients", int64(callsFromA))
	res.Class("lag:%dus", c.ReleaseLag)
	if len(mine) > 0 {
		res.Class("kept-clients")
	}
	rm := res.Counts["release_messages"]
	res.Nontrivial = rm >= 2 && int(rm) < sent
	return res, nil
}

var _ = pbt.Register(pbt.Spec[RCase]{
	Property: "C07", Name: "reimport-race",
	Rule:     "the peer sends one capability in the parameters of 3-80 calls, back to back except at drawn synchronisation points; each call returns at once (optionally echoing the capability), so the Conn's local references to the import die and are re-created while further descriptors arrive; the application keeps the client of every n-th call, later calls through the kept clients and releases them; the delay between a client's last reference going away and its Shutdown is 0-300 microseconds (verif yield hook). Oracle: no Release exceeds what was received, no descriptor or call names the capability while the Conn holds no reference, kept clients stay usable and keep a reference alive, and when everything has been given back the Release counts add up to exactly the number of descriptors sent and the import table is empty. Non-trivial: at least two Release messages and fewer Releases than descriptors (some generations were merged).",
	Quick:    250, Thorough: 6000,
	Gen: func(t *rapid.T) RCase {
		c := RCase{Calls: rapid.IntRange(3, 80).Draw(t, "calls"), KeepEvery: rapid.SampledFrom([]int{0, 0, 1, 2, 3, 7}).Draw(t, "keep"),
			UseKept: rapid.Bool().Draw(t, "use"), ReleaseLag: rapid.SampledFrom([]int{0, 0, 20, 100, 300}).Draw(t, "lag"), Echo: rapid.Bool().Draw(t, "echo")}
		for i, n := 0, rapid.IntRange(0, 6).Draw(t, "nsync"); i < n; i++ {
			c.Sync = append(c.Sync, rapid.IntRange(1, c.Calls).Draw(t, "sync"))
		}
		return c
	},
	Run: runR,
})
