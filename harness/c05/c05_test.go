package c05

import (
	"bytes"
	"testing"

	"capnproto.org/go/capnp/v3/verifharness/build"
	"capnproto.org/go/capnp/v3/verifharness/pbt"
	"capnproto.org/go/capnp/v3/verifharness/ref"
	"pgregory.net/rapid"
)

func TestProp(t *testing.T)   { pbt.RunProps(t) }
func TestReplay(t *testing.T) { pbt.RunReplay(t) }

type Case struct {
	Prog build.Program `json:"program"`
}

func run(c Case) (pbt.Result, error) {
	var res pbt.Result
	m, err := build.NewMachine(c.Prog.Arena)
	if err != nil {
		return res, pbt.Fail("new-message", "%v", err)
	}
	if err := m.Run(c.Prog); err != nil {
		if ae, ok := err.(*build.APIError); ok {
			return res, pbt.Fail("api-error/"+ae.Op, "builder API failed on a well-formed program: %v", ae)
		}
		return res, err
	}
	model := m.RootValue()
	plain, err := m.Msg.Marshal()
	if err != nil {
		return res, pbt.Fail("marshal-error", "%v", err)
	}
	// framing: segment table matches the segments, word aligned, exact length
	segs, n, err := ref.Unframe(plain)
	if err != nil {
		return res, pbt.Fail("framing/unparseable", "independent unframer: %v", err)
	}
	if n != len(plain) {
		return res, pbt.Fail("framing/trailing-bytes", "framed message has %d bytes after the last segment", len(plain)-n)
	}
	if len(segs) != int(m.Msg.NumSegments()) {
		return res, pbt.Fail("framing/segment-count", "segment table says %d, message has %d", len(segs), m.Msg.NumSegments())
	}
	for i, s := range segs {
		if len(s)%8 != 0 {
			return res, pbt.Fail("framing/alignment", "segment %d not word aligned", i)
		}
	}
	// header padding must be zero
	hdrEnd := (4*(len(segs)+1) + 7) &^ 7
	if len(segs)%2 == 0 {
		if !bytes.Equal(plain[hdrEnd-4:hdrEnd], []byte{0, 0, 0, 0}) {
			return res, pbt.Fail("framing/header-padding", "segment table padding is not zero")
		}
	}
	d := &ref.Decoder{Segs: segs, Strict: true}
	got, err := d.Root()
	if err != nil {
		return res, pbt.Fail("not-spec-conformant/"+reason(err), "independent strict decoder rejects the produced message: %v\nmodel=%v", err, clip(model.String()))
	}
	if !ref.Identical(got, model) {
		return res, pbt.Fail("decodes-differently", "independent decoder reconstructs a different tree\nwant=%v\ngot =%v", clip(model.String()), clip(got.String()))
	}
	if err := ref.CheckDisjoint(d.Extents); err != nil {
		return res, pbt.Fail("objects-overlap", "%v", err)
	}
	far, dfar := 0, 0
	for _, e := range d.Extents {
		if e.What == "pad" {
			far++
		}
		if e.What == "pad2" {
			dfar++
		}
	}
	res.Class("arena:%d", c.Prog.Arena.Kind)
	res.Class("dirty:%v", c.Prog.Arena.Dirty)
	if far > 0 {
		res.Class("has:far")
	}
	if dfar > 0 {
		res.Class("has:double-far")
	}
	res.Count("far", int64(far))
	res.Count("double_far", int64(dfar))
	res.Nontrivial = len(segs) >= 2 && far+dfar > 0

	// packed form decodable by the independent unpacker to the same bytes
	pk, err := m.Msg.MarshalPacked()
	if err != nil {
		return res, pbt.Fail("marshalpacked-error", "%v", err)
	}
	if up, err := ref.Unpack(pk); err != nil || !bytes.Equal(up, plain) {
		return res, pbt.Fail("packed-not-spec", "independent unpacker: err=%v equal=%v", err, bytes.Equal(up, plain))
	}
	return res, nil
}

func reason(err error) string {
	s := err.Error()
	for i := 0; i < len(s); i++ {
		if s[i] == '(' || (s[i] >= '0' && s[i] <= '9') {
			s = s[:i]
			break
		}
	}
	if len(s) > 70 {
		s = s[:70]
	}
	return s
}

func clip(s string) string {
	if len(s) > 1500 {
		return s[:1500] + "…"
	}
	return s
}

var _ = pbt.Register(pbt.Spec[Case]{
	Property: "C05", Name: "build-conformance",
	Rule:     "same build programs and arenas as C04 (incl. dirty 0xFF spare capacity and the exact-capacity arena that forces double-far pointers); oracle on Marshal() bytes: independent unframer consumes exactly the output, segment table = segments, word alignment, zero header padding; independent STRICT decoder (every pointer in bounds, single-far pad is a near pointer, double-far pad = far + zero-offset tag, composite word count = n*(d+p), zero list padding) reconstructs exactly the model tree; all reached objects and landing pads pairwise disjoint; MarshalPacked decodable by the independent unpacker. Non-trivial: >=2 segments and at least one far/double-far pointer.",
	Quick:    15000, Thorough: 250000,
	Gen: func(t *rapid.T) Case { return Case{Prog: build.GenProgram(t, 40)} },
	Run: run,
})
