package c18

import (
	"bytes"
	"errors"
	"testing"

	capnp "capnproto.org/go/capnp/v3"
	"capnproto.org/go/capnp/v3/verifharness/gen"
	"capnproto.org/go/capnp/v3/verifharness/hx"
	"capnproto.org/go/capnp/v3/verifharness/pbt"
	"capnproto.org/go/capnp/v3/verifharness/ref"
	"pgregory.net/rapid"
)

func TestProp(t *testing.T)   { pbt.RunProps(t) }
func TestReplay(t *testing.T) { pbt.RunReplay(t) }

type Case struct {
	A       ref.Value `json:"a"`        // root struct
	B       ref.Value `json:"b"`        // same value, other padding ("version")
	PlanA   ref.Plan  `json:"plan_a"`
	PlanB   ref.Plan  `json:"plan_b"`
	LiveCap bool      `json:"live_cap"` // populate the cap table with live clients
	Elem    int       `json:"elem"`     // >0: canonicalise element (Elem-1) of a composite list wrapping A instead of a root struct
}

// rootStruct opens the encoding and returns the struct to canonicalise.
func open(v ref.Value, plan ref.Plan, live bool, elem int) (capnp.Struct, *capnp.Message, error) {
	wrapped := v
	if elem > 0 {
		// A as element of a 3-element struct list hanging off a root struct
		z := ref.Value{Kind: ref.KStruct, Data: make([]byte, len(v.Data))}
		for range v.Ptrs {
			z.Ptrs = append(z.Ptrs, ref.Null())
		}
		l := ref.Value{Kind: ref.KList, LK: ref.LComposite, N: 3, DW: len(v.Data) / 8, PC: len(v.Ptrs), Elems: []ref.Value{z, z, z}}
		l.Elems[(elem-1)%3] = v
		wrapped = ref.StructV(nil, l)
	}
	L, err := ref.Encode(ref.FromValue(wrapped), plan)
	if err != nil {
		return capnp.Struct{}, nil, err
	}
	segs, _ := hx.Carve(L.Segs)
	msg := &capnp.Message{Arena: capnp.MultiSegment(segs), TraverseLimit: 1 << 40}
	if live {
		for i := 0; i < 8; i++ {
			msg.AddCap(capnp.ErrorClient(errors.New("cap")))
		}
	}
	root, err := msg.Root()
	if err != nil {
		return capnp.Struct{}, nil, err
	}
	if elem > 0 {
		lp, err := root.Struct().Ptr(0)
		if err != nil {
			return capnp.Struct{}, nil, err
		}
		return lp.List().Struct((elem - 1) % 3), msg, nil
	}
	return root.Struct(), msg, nil
}

func run(c Case) (pbt.Result, error) {
	var res pbt.Result
	sa, _, err := open(c.A, c.PlanA, c.LiveCap, c.Elem)
	if err != nil {
		return res, nil
	}
	hasCap := ref.HasCap(c.A)
	res.Class("has-cap:%v", hasCap)
	res.Class("list-member:%v", c.Elem > 0)
	classify(c.A, &res)
	ca, err := capnp.Canonicalize(sa)
	if hasCap {
		res.Nontrivial = true
		if err == nil {
			return res, pbt.Fail("cap-not-rejected", "Canonicalize accepted a struct containing a capability pointer (live client: %v)\n%v", c.LiveCap, clip(c.A))
		}
		return res, nil
	}
	if err != nil {
		return res, pbt.Fail("canonicalize-error", "Canonicalize failed on a valid capability-free struct: %v\n%v", err, clip(c.A))
	}
	want := ref.Truncate(c.A)
	res.Nontrivial = c.A.Depth() >= 2
	// (1) valid canonical form
	if err := ref.CheckCanonical(ca); err != nil {
		return res, pbt.Fail("not-canonical/"+reason(err), "%v\ninput=%v\noutput=%x", err, clip(c.A), clipb(ca))
	}
	// (2) decodes to the input value (trailing zeros truncated)
	got, err := ref.Decode([][]byte{ca}, true)
	if err != nil {
		return res, pbt.Fail("output-undecodable", "independent strict decoder rejects the canonical message: %v\noutput=%x", err, clipb(ca))
	}
	if !ref.Identical(got, want) {
		return res, pbt.Fail("value-changed/"+firstDiff(got, want), "canonical message denotes a different value\nwant=%v\ngot =%v\noutput=%x", clip(want), clip(got), clipb(ca))
	}
	// (3) layout/padding/version independence
	sb, _, err := open(c.B, c.PlanB, false, c.Elem)
	if err != nil {
		return res, nil
	}
	cb, err := capnp.Canonicalize(sb)
	if err != nil {
		return res, pbt.Fail("canonicalize-error", "Canonicalize failed on the re-encoded value: %v", err)
	}
	if !bytes.Equal(ca, cb) {
		return res, pbt.Fail("layout-dependent", "two encodings of equal values canonicalise differently\nA=%v\nB=%v\ncanon(A)=%x\ncanon(B)=%x", clip(c.A), clip(c.B), clipb(ca), clipb(cb))
	}
	// (4) canonicalising a canonical message returns it unchanged
	m2 := &capnp.Message{Arena: capnp.SingleSegment(append([]byte(nil), ca...)), TraverseLimit: 1 << 40}
	r2, err := m2.Root()
	if err != nil {
		return res, pbt.Fail("output-unreadable", "cannot read the canonical message back: %v", err)
	}
	c2, err := capnp.Canonicalize(r2.Struct())
	if err != nil {
		return res, pbt.Fail("canonicalize-error", "Canonicalize failed on its own output: %v", err)
	}
	if !bytes.Equal(c2, ca) {
		return res, pbt.Fail("not-idempotent", "canon(canon(x)) != canon(x)\nfirst =%x\nsecond=%x", clipb(ca), clipb(c2))
	}
	return res, nil
}

func reason(err error) string {
	s := err.Error()
	out := []byte{}
	for i := 0; i < len(s); i++ {
		if s[i] >= '0' && s[i] <= '9' {
			continue
		}
		out = append(out, s[i])
	}
	if len(out) > 80 {
		out = out[:80]
	}
	return string(out)
}

func firstDiff(a, b ref.Value) string {
	if a.Kind != b.Kind {
		return "kind"
	}
	switch a.Kind {
	case ref.KStruct:
		if !bytes.Equal(a.Data, b.Data) {
			return "struct-data"
		}
		if len(a.Ptrs) != len(b.Ptrs) {
			return "struct-ptrcount"
		}
		for i := range a.Ptrs {
			if !ref.Identical(a.Ptrs[i], b.Ptrs[i]) {
				return firstDiff(a.Ptrs[i], b.Ptrs[i])
			}
		}
	case ref.KList:
		if a.LK != b.LK {
			return "list-kind"
		}
		if a.N != b.N {
			return "list-len"
		}
		if a.LK == ref.LComposite && (a.DW != b.DW || a.PC != b.PC) {
			return "composite-elem-size"
		}
		for i := range a.Elems {
			if i < len(b.Elems) && !ref.Identical(a.Elems[i], b.Elems[i]) {
				if a.LK == ref.LComposite {
					return "composite." + firstDiff(a.Elems[i], b.Elems[i])
				}
				return firstDiff(a.Elems[i], b.Elems[i])
			}
		}
		return "list-content"
	}
	return "other"
}

func classify(v ref.Value, res *pbt.Result) {
	seen := map[string]bool{}
	var rec func(v ref.Value)
	rec = func(v ref.Value) {
		k := ""
		if v.Kind == ref.KList {
			switch {
			case v.LK == ref.LComposite && v.PC == 0:
				k = "has:data-only-struct-list"
			case v.LK == ref.LComposite:
				k = "has:struct-list-with-pointers"
			case v.LK == ref.LPtr:
				k = "has:pointer-list"
			case v.LK == ref.LBit:
				k = "has:bit-list"
			default:
				k = "has:prim-list"
			}
		} else if v.Kind == ref.KStruct && len(v.Data) == 0 && len(v.Ptrs) == 0 {
			k = "has:zero-sized-struct"
		}
		if k != "" && !seen[k] {
			seen[k] = true
			res.Class(k)
		}
		for _, p := range v.Ptrs {
			rec(p)
		}
		for _, e := range v.Elems {
			rec(e)
		}
	}
	rec(v)
}

func clip(v ref.Value) string {
	s := v.String()
	if len(s) > 1000 {
		s = s[:1000] + "…"
	}
	return s
}

func clipb(b []byte) []byte {
	if len(b) > 400 {
		return b[:400]
	}
	return b
}

var _ = pbt.Register(pbt.Spec[Case]{
	Property: "C18", Name: "canonicalize",
	Rule:     "root structs (depth<=4, all list kinds incl. data-only and pointer-bearing struct lists, nested lists, zero-sized structs, occasional big lists and >1KiB blobs so that the output arena grows; 1 in 5 with capability pointers, with and without live clients; 1 in 6 canonicalised as a member of a struct list) in a drawn encoding, plus a second encoding of the same value with different padding (trailing zero words / null pointers on structs and struct-list elements) and layout. Oracle: (1) output passes ref.CheckCanonical (single segment, preorder without gaps, no far/cap pointers, every struct and struct list truncated, zero-sized struct offset -1, zero padding, nothing trailing); (2) strict independent decode of the output is Identical to ref.Truncate(input); (3) both encodings give identical bytes; (4) canonicalising the output reproduces it; capability anywhere => error. Non-trivial: depth>=2 or capability present.",
	Quick:    12000, Thorough: 400000,
	Gen: func(t *rapid.T) Case {
		caps := rapid.IntRange(0, 4).Draw(t, "caps") == 0
		a := gen.ValueTree(t, gen.TreeOpts{MaxDepth: rapid.IntRange(0, 4).Draw(t, "depth"), Caps: caps, MaxCap: 8, RootStruct: true})
		if rapid.IntRange(0, 14).Draw(t, "blob") == 0 {
			// a big data blob somewhere under the root makes the canonicaliser's arena grow mid-way
			n := rapid.SampledFrom([]int{1000, 1001, 1500, 5000}).Draw(t, "blobn")
			blob := ref.DataV(bytes.Repeat([]byte{0xAB}, n))
			pos := rapid.IntRange(0, len(a.Ptrs)).Draw(t, "blobpos")
			ptrs := append(append(append([]ref.Value(nil), a.Ptrs[:pos]...), blob), a.Ptrs[pos:]...)
			a.Ptrs = ptrs
		}
		c := Case{A: a, B: gen.Relayout(t, a, false), PlanA: gen.Plan(t, 4), PlanB: gen.Plan(t, 4), LiveCap: rapid.Bool().Draw(t, "live")}
		if rapid.IntRange(0, 3).Draw(t, "padfill") == 0 {
			// list padding (unused bits of a bit list's last byte, bytes up to the word boundary) is not zero in the inputs
			c.PlanA.PadFill = byte(rapid.SampledFrom([]int{0, 0xff, 0xa5, 0xf0}).Draw(t, "padA"))
			c.PlanB.PadFill = byte(rapid.SampledFrom([]int{0, 0xff, 0x5a, 0x80}).Draw(t, "padB"))
		}
		if rapid.IntRange(0, 5).Draw(t, "elem") == 0 {
			c.Elem = rapid.IntRange(1, 3).Draw(t, "elemi")
			// both encodings must wrap elements of the same size for the list to be well formed: B keeps its own (padded) size
		}
		return c
	},
	Run: run,
})

// ---------------------------------------------------------------------------
// structs that are members of primitive lists (List.Struct(i) of a 1/2/4/8-byte list)

type primElemCase struct {
	LK   int       `json:"list_kind"` // 2..5
	Prim ref.Bytes `json:"content"`
	Idx  int       `json:"index"`
	Plan ref.Plan  `json:"plan"`
}

func runPrimElem(c primElemCase) (pbt.Result, error) {
	var res pbt.Result
	lk := ref.ListKind(c.LK)
	sz := lk.ElemBytes()
	n := len(c.Prim) / sz
	if n == 0 {
		return res, nil
	}
	l := ref.Value{Kind: ref.KList, LK: lk, N: n, Prim: c.Prim[:n*sz]}
	L, err := ref.Encode(ref.FromValue(ref.StructV(nil, l)), c.Plan)
	if err != nil {
		return res, nil
	}
	segs, _ := hx.Carve(L.Segs)
	msg := &capnp.Message{Arena: capnp.MultiSegment(segs), TraverseLimit: 1 << 40}
	root, err := msg.Root()
	if err != nil {
		return res, pbt.Fail("harness/root", "%v", err)
	}
	lp, err := root.Struct().Ptr(0)
	if err != nil {
		return res, pbt.Fail("harness/ptr", "%v", err)
	}
	i := c.Idx % n
	s := lp.List().Struct(i)
	elem := make([]byte, 8)
	copy(elem, c.Prim[i*sz:(i+1)*sz])
	want := ref.Truncate(ref.StructV(elem))
	res.Class("elem-bytes:%d", sz)
	res.Class("elem-zero:%v", len(want.Data) == 0)
	res.Nontrivial = len(want.Data) != 0
	out, err := capnp.Canonicalize(s)
	if err != nil {
		return res, pbt.Fail("canonicalize-error", "Canonicalize(List.Struct(i)) failed: %v", err)
	}
	if err := ref.CheckCanonical(out); err != nil {
		return res, pbt.Fail("not-canonical/"+reason(err), "%v\noutput=%x", err, out)
	}
	got, err := ref.Decode([][]byte{out}, true)
	if err != nil {
		return res, pbt.Fail("output-undecodable", "%v", err)
	}
	if !ref.Identical(got, want) {
		return res, pbt.Fail("value-changed/primitive-list-member", "canonical form of element %d of a %d-byte list lost its value\nwant=%v\ngot =%v", i, sz, want, got)
	}
	return res, nil
}

var _ = pbt.Register(pbt.Spec[primElemCase]{
	Property: "C18", Name: "primitive-list-member",
	Rule:     "Canonicalize applied to List.Struct(i) of 1/2/4/8-byte primitive lists (a struct whose data section is narrower than a word); oracle: valid canonical form that decodes to a struct holding the element value zero-extended to a word (empty struct if the element is zero). Non-trivial: element non-zero.",
	Quick:    3000, Thorough: 80000,
	Gen: func(t *rapid.T) primElemCase {
		return primElemCase{
			LK:   rapid.IntRange(2, 5).Draw(t, "lk"),
			Prim: rapid.SliceOfN(rapid.Byte(), 1, 40).Draw(t, "prim"),
			Idx:  rapid.IntRange(0, 40).Draw(t, "idx"),
			Plan: gen.Plan(t, 3),
		}
	},
	Run: runPrimElem,
})
