package main

import "time"

var _ = time.Second

// props lists the per-property driver configuration. Everything not set
// takes the defaults in cfgFor.
var props = map[string]propCfg{
	"C01": {Assumptions: []string{"64-bit platform only (maxInt branches not explored)", "schema-driven consumers are driven by the aircraftlib schemas only", "a step that does not return within 120 s is treated as a hang"}, QuickTimeout: 12 * time.Minute},
	"C02": {Race: true, Assumptions: []string{"object sizes are computed by harness/ref from the bytes", "concurrent-reader schedules are whatever the Go scheduler produces with readers released together; the race detector covers atomicity", "requires the verif build tag (VerifReadLimit observer)"}},
	"C03": {Assumptions: []string{"harness/ref decoder/encoder implement the pointer rules of capnproto.org/encoding.html (self-tested: Encode∘Decode identity, strict validation of own output)"}},
	"C04": {Assumptions: []string{"the reference model in harness/build mirrors only documented builder semantics (SetPtr of an unattached object moves it; list members, SetStruct and CopyFrom copy)"}},
	"C05": {Assumptions: []string{"harness/ref strict decoder implements the producer-side rules of capnproto.org/encoding.html"}},
	"C17": {Assumptions: []string{"ref.Equal transcribes the doc comment of capnp.Equal; pairs the comment does not decide are excluded from the iff assertion"}},
	"C18": {Assumptions: []string{"ref.CheckCanonical transcribes the canonicalisation rules of capnproto.org/encoding.html (calibrated on the expected outputs of the repository's TestCanonicalize); 'equal as values' = same tree up to trailing zero words / null pointers"}},
	"C14": {Assumptions: []string{"allocation is measured with runtime/metrics /gc/heap/allocs:bytes around a single call on an otherwise idle process, with 64 KiB slack", "ref.Unframe / ref.Unpack are the independent parsers"}},
	"C19": {Assumptions: []string{"mirror types in harness/mirror follow the documented mapping rules (pogs/doc.go)", "schemas: aircraftlib only", "field bit ranges are read from the registered schema nodes"}},
	"C20": {Assumptions: []string{"ref.ParseText implements the Cap'n Proto text value grammar as emitted for structs (strict about string literals)", "schemas: aircraftlib only", "the expected field values are read through the generated accessors"}},
	"C16": {Assumptions: []string{"the version rule (top-level struct truncated / zero-extended, nested objects intact) is the one documented at Struct.CopyFrom; independence is asserted for operations documented or implemented as copies (cross-message assignment, list members, SetStruct, CopyFrom)"}},
	"C06": {Race: true, Assumptions: []string{"the peer model (harness/vat) encodes Cap'n Proto RPC level 1 as read from rpc.capnp: one Return per Bootstrap/Call, pipelined calls resolve through the answer's results, E-order per capability, embargo on loop-back resolution", "the peer is protocol-conforming: it never pipelines on a finished answer, forwards pipelined calls before echoing a disembargo, answers every question once", "recording objects Ack at once, so the server never reorders for lack of an acknowledgement", "sequential histories: the harness waits for quiescence after every step (schedule variety comes from the concurrent sub-check)"}},
	"C07": {Race: true, Assumptions: []string{"the peer counts references exactly as rpc.capnp prescribes: +1 per senderHosted descriptor received, -n per Release, minus the descriptors of a Return whose Finish had releaseResultCaps, minus the descriptors of params whose Return had releaseParamCaps", "VerifState hook (build tag verif) exposes the Conn's export table for comparison at quiescent points", "object release is observed through the Shutdown callback of server.Server"}},
	"C08": {Race: true, Assumptions: []string{"the peer-side table model (which ids are live) is derived from the messages the peer itself sent and received", "per-message expectations are sets of outcomes the protocol allows; a message the code cannot even parse is held only to survival + alive-or-aborted"}},
	"C09": {Level: "fault_enumeration", Assumptions: []string{"fault points are the operations of the rpc.Transport interface (harness-owned transport) and the Write/Read calls of the byte stream under the stream transports", "'bounded time' is a 30 s deadline on operations that take microseconds", "VerifState hook (build tag verif) for lock state"}},
	"C10": {Race: true, Assumptions: []string{"the reference model encodes the documented life cycle of Client / ClientPromise / WeakClient", "programmer errors (double Fulfill, promise cycles, AddRef/WeakRef/Fulfill with a released client) are never generated", "concurrent schedules are sampled, not enumerated"}},
	"C11": {Race: true, Assumptions: []string{"the delivery model follows the state machine documented at capnp.Promise", "programmer errors (Fulfill/Reject/Join twice, join cycles, using a pipelined client after ReleaseClients) are never generated"}},
	"C12": {Race: true, Assumptions: []string{"'made in order' = issued from one goroutine, each after the previous Send returned (the contract of capnp.ClientHook)", "instrumented implementation logs to a totally ordered event log; invariants are checked on the log, not on timing"}},
	"C13": {Assumptions: []string{"ref.Pack/ref.Unpack (written from the packing spec, self-tested against the repository's TestPack vectors) are correct"}},
}
