// vcheck is the only entry point MANIFEST.json uses.
//
//	vcheck run <id> <quick|thorough>     build from /repo's working tree, run, write evidence
//	vcheck replay <id> <path>            re-run one saved case, bypassing rapid
//	vcheck selftest                      ref self-tests (setup)
//
// Exit codes: 0 held; 1 violation (line "VIOLATION property=<id> replay=<path>");
// 2 inconclusive / infrastructure problem (never a verdict).
package main

import (
	"bytes"
	"encoding/json"
	"fmt"
	"os"
	"os/exec"
	"path/filepath"
	"regexp"
	"sort"
	"strconv"
	"strings"
	"sync"
	"syscall"
	"time"
)

type propCfg struct {
	Pkg           string
	Race          bool
	Level         string
	QuickTimeout  time.Duration
	ThorTimeout   time.Duration
	ThorShards    int
	FuzzTargets   []string // native fuzz targets run in the thorough tier
	FuzzTime      time.Duration
	Assumptions   []string
	TV            bool // translation validation: report programs/disagreements_checked
}

var verifRoot = func() string {
	if v := os.Getenv("VERIF_ROOT"); v != "" {
		return v
	}
	return "/verif"
}()

func cfgFor(id string) (propCfg, bool) {
	c, ok := props[id]
	if !ok {
		return c, false
	}
	if c.Pkg == "" {
		c.Pkg = "./" + strings.ToLower(id)
	}
	if c.Level == "" {
		c.Level = "exploration"
	}
	if c.QuickTimeout == 0 {
		c.QuickTimeout = 8 * time.Minute
	}
	if c.ThorTimeout == 0 {
		c.ThorTimeout = 45 * time.Minute
	}
	if c.ThorShards == 0 {
		c.ThorShards = 16
	}
	if c.FuzzTime == 0 {
		c.FuzzTime = 120 * time.Second
	}
	return c, true
}

func goEnv() []string {
	env := os.Environ()
	out := env[:0:0]
	for _, e := range env {
		if strings.HasPrefix(e, "GOFLAGS=") || strings.HasPrefix(e, "GOPROXY=") || strings.HasPrefix(e, "GOSUMDB=") || strings.HasPrefix(e, "GOTOOLCHAIN=") {
			continue
		}
		out = append(out, e)
	}
	flags := "GOFLAGS=-mod=mod"
	if devRepo != "" {
		flags += " -modfile=" + devModfile()
	}
	return append(out, flags, "GOPROXY=off", "GOSUMDB=off", "GOTOOLCHAIN=local")
}

func harnessDir() string { return filepath.Join(verifRoot, "harness") }

// Development aid, never used by a registered command: VERIF_DEVREPO=<worktree>
// builds the harness against that copy of the repository instead of /repo
// (an alternate go.mod via -modfile) and keeps build output, evidence and
// replays under .build/dev-<name>, so a seeded change can be checked without
// touching /repo or the committed evidence.
var devRepo = os.Getenv("VERIF_DEVREPO")

func outRoot() string {
	if devRepo == "" {
		return verifRoot
	}
	return filepath.Join(verifRoot, ".build", "dev-"+filepath.Base(devRepo))
}

func devModfile() string {
	dir := outRoot()
	os.MkdirAll(dir, 0o755)
	mf := filepath.Join(dir, "go.mod")
	b, err := os.ReadFile(filepath.Join(harnessDir(), "go.mod"))
	if err != nil {
		panic(err)
	}
	os.WriteFile(mf, bytes.Replace(b, []byte("=> /repo"), []byte("=> "+devRepo), 1), 0o644)
	sum, _ := os.ReadFile(filepath.Join(harnessDir(), "go.sum"))
	os.WriteFile(filepath.Join(dir, "go.sum"), sum, 0o644)
	return mf
}

func build(id string, c propCfg) (string, error) {
	binDir := filepath.Join(outRoot(), ".build")
	os.MkdirAll(binDir, 0o755)
	bin := filepath.Join(binDir, strings.ToLower(id)+".test")
	args := []string{"test", "-c", "-tags", "verif", "-vet=off", "-o", bin}
	if c.Race {
		args = append(args, "-race")
	}
	args = append(args, c.Pkg)
	cmd := exec.Command("go", args...)
	cmd.Dir = harnessDir()
	cmd.Env = goEnv()
	out, err := cmd.CombinedOutput()
	if err != nil {
		return "", fmt.Errorf("build failed: %v\n%s", err, out)
	}
	return bin, nil
}

type shardResult struct {
	shard    int
	exit     int
	out      string
	replay   string
	journal  string
	timedOut bool
}

func runShard(bin string, id string, c propCfg, tier string, seed uint64, shard, nshards int, runDir string, timeout time.Duration, extraEnv []string) shardResult {
	res := shardResult{shard: shard}
	res.replay = filepath.Join(runDir, fmt.Sprintf("replay.%d", shard))
	res.journal = filepath.Join(runDir, fmt.Sprintf("journal.%d.json", shard))
	cmd := exec.Command(bin, "-test.run", "^TestProp$", "-test.timeout", timeout.String(), "-test.v")
	cmd.Dir = filepath.Join(harnessDir(), strings.TrimPrefix(c.Pkg, "./"))
	cmd.Env = append(goEnv(),
		"VERIF_TIER="+tier,
		"VERIF_SEED="+strconv.FormatUint(seed, 10),
		"VERIF_SHARD="+strconv.Itoa(shard),
		"VERIF_NSHARDS="+strconv.Itoa(nshards),
		"VERIF_STATS_DIR="+filepath.Join(runDir, "stats"),
		"VERIF_REPLAY_OUT="+res.replay,
		"VERIF_JOURNAL="+res.journal,
		"VERIF_KNOWN="+filepath.Join(verifRoot, "known_findings.json"),
		"VERIF_ROOT="+verifRoot,
		"GOTRACEBACK=all",
	)
	cmd.Env = append(cmd.Env, extraEnv...)
	var buf bytes.Buffer
	cmd.Stdout = &buf
	cmd.Stderr = &buf
	cmd.SysProcAttr = &syscall.SysProcAttr{Setpgid: true}
	if err := cmd.Start(); err != nil {
		res.exit = 2
		res.out = err.Error()
		return res
	}
	done := make(chan error, 1)
	go func() { done <- cmd.Wait() }()
	select {
	case err := <-done:
		if err != nil {
			if ee, ok := err.(*exec.ExitError); ok {
				res.exit = ee.ExitCode()
				if res.exit < 0 {
					res.exit = 2
				}
			} else {
				res.exit = 2
			}
		}
	case <-time.After(timeout + 60*time.Second):
		syscall.Kill(-cmd.Process.Pid, syscall.SIGKILL)
		<-done
		res.exit = 2
		res.timedOut = true
	}
	res.out = buf.String()
	if strings.Contains(res.out, "panic: test timed out") {
		res.timedOut = true
	}
	return res
}

type subStats struct {
	Property    string            `json:"property"`
	Name        string            `json:"name"`
	Rule        string            `json:"rule"`
	Seed        uint64            `json:"rapid_seed"`
	Evaluations int64             `json:"evaluations"`
	Nontrivial  int64             `json:"nontrivial"`
	Hashes      []uint64          `json:"hashes"`
	Classes     map[string]int64  `json:"classes"`
	Counts      map[string]int64  `json:"counts"`
	Samples     []json.RawMessage `json:"samples"`
	KnownHits   map[string]int64  `json:"known_hits"`
	Failed      bool              `json:"failed"`
	FailSig     string            `json:"fail_sig"`
	WallS       float64           `json:"wall_s"`
}

type knownFinding struct {
	Property  string `json:"property"`
	Kind      string `json:"kind"`
	Signature string `json:"signature"`
	Commit    string `json:"commit,omitempty"`
	What      string `json:"what"`
}

func loadKnown() []knownFinding {
	b, err := os.ReadFile(filepath.Join(verifRoot, "known_findings.json"))
	if err != nil {
		return nil
	}
	var k []knownFinding
	json.Unmarshal(b, &k)
	return k
}

var crashRe = regexp.MustCompile(`(?m)^(panic: .*|fatal error: .*|runtime: goroutine stack exceeds.*|unexpected fault address.*)$`)

func crashLine(out string) string {
	for _, m := range crashRe.FindAllString(out, -1) {
		if strings.Contains(m, "test timed out") {
			continue
		}
		// rapid re-panics are wrapped; keep the first real one
		return m
	}
	return ""
}

func main() {
	if len(os.Args) < 2 {
		usage()
	}
	switch os.Args[1] {
	case "run":
		if len(os.Args) < 4 {
			usage()
		}
		os.Exit(cmdRun(os.Args[2], os.Args[3]))
	case "replay":
		if len(os.Args) < 4 {
			usage()
		}
		os.Exit(cmdReplay(os.Args[2], os.Args[3]))
	case "prebuild":
		os.Exit(cmdPrebuild())
	default:
		usage()
	}
}

func usage() {
	fmt.Fprintln(os.Stderr, "usage: vcheck run <id> <quick|thorough> | vcheck replay <id> <path> | vcheck prebuild")
	os.Exit(2)
}

func cmdPrebuild() int {
	ids := make([]string, 0, len(props))
	for id := range props {
		ids = append(ids, id)
	}
	sort.Strings(ids)
	rc := 0
	var mu sync.Mutex
	sem := make(chan struct{}, 4)
	var wg sync.WaitGroup
	for _, id := range ids {
		c, _ := cfgFor(id)
		if _, err := os.Stat(filepath.Join(harnessDir(), strings.TrimPrefix(c.Pkg, "./"))); err != nil {
			continue
		}
		wg.Add(1)
		go func(id string, c propCfg) {
			defer wg.Done()
			sem <- struct{}{}
			defer func() { <-sem }()
			if _, err := build(id, c); err != nil {
				mu.Lock()
				fmt.Fprintf(os.Stderr, "prebuild %s: %v\n", id, err)
				rc = 2
				mu.Unlock()
			}
		}(id, c)
	}
	wg.Wait()
	return rc
}

func cmdReplay(id, path string) int {
	c, ok := cfgFor(id)
	if !ok {
		fmt.Fprintf(os.Stderr, "unknown property %s\n", id)
		return 2
	}
	bin, err := build(id, c)
	if err != nil {
		fmt.Fprintln(os.Stderr, err)
		return 2
	}
	abs, _ := filepath.Abs(path)
	if strings.HasSuffix(abs, ".fuzz") {
		return replayFuzz(id, c, abs)
	}
	cmd := exec.Command(bin, "-test.run", "^TestReplay$", "-test.v", "-test.timeout", "10m")
	cmd.Dir = filepath.Join(harnessDir(), strings.TrimPrefix(c.Pkg, "./"))
	cmd.Env = append(goEnv(), "VERIF_REPLAY="+abs, "VERIF_KNOWN="+filepath.Join(verifRoot, "known_findings.json"), "VERIF_ROOT="+verifRoot, "GOTRACEBACK=all")
	if t := os.Getenv("VERIF_REPLAY_TIMES"); t != "" {
		cmd.Env = append(cmd.Env, "VERIF_REPLAY_TIMES="+t)
	}
	out, err := cmd.CombinedOutput()
	os.Stdout.Write(out)
	if err == nil {
		fmt.Printf("REPLAY-OK property=%s\n", id)
		return 0
	}
	if strings.Contains(string(out), "panic: test timed out") {
		return 2
	}
	fmt.Printf("VIOLATION property=%s replay=%s\n", id, abs)
	return 1
}

func cmdRun(id, tier string) int {
	start := time.Now()
	c, ok := cfgFor(id)
	if !ok {
		fmt.Fprintf(os.Stderr, "unknown property %s\n", id)
		return 2
	}
	if tier != "quick" && tier != "thorough" {
		usage()
	}
	if t := os.Getenv("VERIF_TIER"); t == "quick" || t == "thorough" {
		// explicit argument wins; env only informational
		_ = t
	}
	seed, _ := strconv.ParseUint(os.Getenv("VERIF_SEED"), 10, 64)
	bin, err := build(id, c)
	if err != nil {
		fmt.Fprintln(os.Stderr, err)
		return 2
	}
	runDir := filepath.Join(outRoot(), ".build", "run-"+strings.ToLower(id)+"-"+tier)
	os.RemoveAll(runDir)
	os.MkdirAll(filepath.Join(runDir, "stats"), 0o755)
	// rapid replays testdata/rapid first: remove.
	os.RemoveAll(filepath.Join(harnessDir(), strings.TrimPrefix(c.Pkg, "./"), "testdata", "rapid"))

	nshards := 1
	timeout := c.QuickTimeout
	if tier == "thorough" {
		nshards = c.ThorShards
		timeout = c.ThorTimeout
	}
	if s := os.Getenv("VERIF_SHARDS"); s != "" {
		if n, err := strconv.Atoi(s); err == nil && n > 0 {
			nshards = n
		}
	}
	results := make([]shardResult, nshards)
	var wg sync.WaitGroup
	for i := 0; i < nshards; i++ {
		wg.Add(1)
		go func(i int) {
			defer wg.Done()
			results[i] = runShard(bin, id, c, tier, seed, i, nshards, runDir, timeout, nil)
		}(i)
	}
	wg.Wait()

	known := loadKnown()
	violations := 0
	inconclusive := 0
	knownPrinted := map[string]bool{}
	os.MkdirAll(filepath.Join(outRoot(), "replays"), 0o755)
	var lines []string
	for _, r := range results {
		os.WriteFile(filepath.Join(runDir, fmt.Sprintf("out.%d.log", r.shard)), []byte(r.out), 0o644)
		if r.exit == 0 {
			continue
		}
		if reps, _ := filepath.Glob(r.replay + ".*.json"); len(reps) > 0 {
			sort.Strings(reps)
			for _, rp := range reps {
				sub := strings.TrimSuffix(strings.TrimPrefix(rp, r.replay+"."), ".json")
				dst := filepath.Join(outRoot(), "replays", fmt.Sprintf("%s-%s-%s-seed%d-shard%d.json", id, sub, tier, seed, r.shard))
				copyFile(rp, dst)
				lines = append(lines, fmt.Sprintf("VIOLATION property=%s replay=%s", id, dst))
				violations++
			}
			fmt.Println(failSummary(r.out))
			continue
		}
		if r.timedOut {
			fmt.Fprintf(os.Stderr, "shard %d: timed out (inconclusive)\n%s\n", r.shard, tail(r.out, 40))
			inconclusive++
			continue
		}
		if cl := crashLine(r.out); cl != "" {
			sig := "crash/" + cl
			if k := matchKnown(known, id, sig); k != nil {
				if !knownPrinted[k.Signature] {
					fmt.Printf("KNOWN-FINDING: property=%s %s (%s)\n", id, k.Signature, k.What)
					knownPrinted[k.Signature] = true
				}
				continue
			}
			if _, err := os.Stat(r.journal); err == nil {
				dst := filepath.Join(outRoot(), "replays", fmt.Sprintf("%s-%s-seed%d-shard%d-crash.json", id, tier, seed, r.shard))
				copyFile(r.journal, dst)
				os.WriteFile(dst+".crashlog", []byte(tail(r.out, 200)), 0o644)
				lines = append(lines, fmt.Sprintf("VIOLATION property=%s replay=%s", id, dst))
				violations++
				fmt.Printf("process crash in shard %d: %s\n%s\n", r.shard, cl, tail(r.out, 80))
				continue
			}
		}
		fmt.Fprintf(os.Stderr, "shard %d: exit %d without replay/journal (inconclusive)\n%s\n", r.shard, r.exit, tail(r.out, 60))
		inconclusive++
	}

	// native fuzzing (thorough tier only): coverage-guided search with the same oracles inside the targets
	fuzzStats := map[string]interface{}{}
	var fuzzExecs int64
	if tier == "thorough" && violations == 0 && os.Getenv("VERIF_NOFUZZ") == "" {
		for _, target := range c.FuzzTargets {
			fr := runFuzz(id, c, target)
			os.WriteFile(filepath.Join(runDir, "fuzz."+target+".log"), []byte(fr.out), 0o644)
			fuzzStats["fuzz:"+target] = map[string]interface{}{"executions": fr.execs, "new_interesting": fr.interesting, "seconds": fr.seconds, "engine": "go test -fuzz"}
			fuzzExecs += fr.execs
			switch {
			case fr.crasher != "":
				if k := matchKnown(known, id, fr.sig); k != nil {
					if !knownPrinted[k.Signature] {
						fmt.Printf("KNOWN-FINDING: property=%s %s (%s)\n", id, k.Signature, k.What)
						knownPrinted[k.Signature] = true
					}
					os.Remove(fr.crasher)
					continue
				}
				dst := filepath.Join(outRoot(), "replays", fmt.Sprintf("%s-fuzz-%s-%s.fuzz", id, target, filepath.Base(fr.crasher)))
				copyFile(fr.crasher, dst)
				os.Remove(fr.crasher)
				lines = append(lines, fmt.Sprintf("VIOLATION property=%s replay=%s", id, dst))
				violations++
				fmt.Println(tail(fr.out, 30))
			case fr.failed:
				fmt.Fprintf(os.Stderr, "fuzz target %s: did not complete (inconclusive)\n%s\n", target, tail(fr.out, 30))
				inconclusive++
			}
		}
	}

	// merge stats
	ev, knownHits := mergeStats(id, tier, seed, c, runDir)
	if cov, ok := ev["coverage"].(map[string]interface{}); ok && len(fuzzStats) > 0 {
		if sub, ok := cov["subchecks"].(map[string]interface{}); ok {
			for k, v := range fuzzStats {
				sub[k] = v
			}
		}
		if e, ok := cov["evaluations"].(int64); ok {
			cov["evaluations"] = e + fuzzExecs
		}
		cov["native_fuzz_executions"] = fuzzExecs
	}
	for sig, n := range knownHits {
		if k := matchKnown(known, id, sig); k != nil && !knownPrinted[k.Signature] {
			fmt.Printf("KNOWN-FINDING: property=%s %s (%s) [%d cases excluded]\n", id, k.Signature, k.What, n)
			knownPrinted[k.Signature] = true
		}
	}
	ev["wall_s"] = time.Since(start).Seconds()
	ev["violations"] = violations
	if ev != nil {
		b, _ := json.MarshalIndent(ev, "", " ")
		os.MkdirAll(filepath.Join(outRoot(), "evidence"), 0o755)
		os.WriteFile(filepath.Join(outRoot(), "evidence", id+".json"), b, 0o644)
	}
	cov, _ := ev["coverage"].(map[string]interface{})
	fmt.Printf("property=%s tier=%s seed=%d shards=%d evaluations=%v distinct_nontrivial=%v wall=%.1fs\n", id, tier, seed, nshards, cov["evaluations"], cov["distinct_nontrivial"], time.Since(start).Seconds())
	for _, l := range lines {
		fmt.Println(l)
	}
	if violations > 0 {
		return 1
	}
	if inconclusive > 0 {
		return 2
	}
	return 0
}

type fuzzResult struct {
	execs, interesting int64
	crasher            string // path of the failing input, if any
	sig                string
	failed             bool
	out                string
	seconds            float64
}

var (
	fuzzExecsRe   = regexp.MustCompile(`execs: (\d+) \(`)
	fuzzNewRe     = regexp.MustCompile(`new interesting: \d+ \(total: (\d+)\)`)
	fuzzCrasherRe = regexp.MustCompile(`Failing input written to (\S+)`)
	fuzzSigRe     = regexp.MustCompile(`VIOLATION-CANDIDATE \S+ sig=(\S+)`)
)

// runFuzz runs one native fuzz target for the configured time.
func runFuzz(id string, c propCfg, target string) fuzzResult {
	pkgDir := filepath.Join(harnessDir(), strings.TrimPrefix(c.Pkg, "./"))
	os.RemoveAll(filepath.Join(pkgDir, "testdata", "fuzz", target)) // only findings of this run
	ft := c.FuzzTime
	if v := os.Getenv("VERIF_FUZZTIME"); v != "" {
		if d, err := time.ParseDuration(v); err == nil {
			ft = d
		}
	}
	cmd := exec.Command("go", "test", "-tags", "verif", "-vet=off", "-run", "^$", "-fuzz", "^"+target+"$", "-fuzztime", ft.String(), c.Pkg)
	cmd.Dir = harnessDir()
	cmd.Env = append(goEnv(), "VERIF_ROOT="+verifRoot, "GOTRACEBACK=all")
	outb, err := cmd.CombinedOutput()
	out := string(outb)
	r := fuzzResult{out: out, seconds: ft.Seconds()}
	if m := fuzzExecsRe.FindAllStringSubmatch(out, -1); len(m) > 0 {
		r.execs, _ = strconv.ParseInt(m[len(m)-1][1], 10, 64)
	}
	if m := fuzzNewRe.FindAllStringSubmatch(out, -1); len(m) > 0 {
		r.interesting, _ = strconv.ParseInt(m[len(m)-1][1], 10, 64)
	}
	if err == nil {
		return r
	}
	if m := fuzzCrasherRe.FindStringSubmatch(out); m != nil {
		r.crasher = filepath.Join(pkgDir, m[1])
		r.sig = "fuzz/crash"
		if sm := fuzzSigRe.FindStringSubmatch(out); sm != nil {
			r.sig = sm[1]
		}
		return r
	}
	// a seed of the target's own corpus (f.Add) fails: there is no file, the seed's name identifies the input
	if m := regexp.MustCompile(`seed corpus entry: `+target+`/(seed#\d+)`).FindStringSubmatch(out); m != nil && strings.Contains(out, "VIOLATION-CANDIDATE") {
		dir := filepath.Join(pkgDir, "testdata", "fuzz", target)
		os.MkdirAll(dir, 0o755)
		r.crasher = filepath.Join(dir, strings.Replace(m[1], "#", "", 1))
		os.WriteFile(r.crasher, []byte(m[1]+"\n"), 0o644)
		r.sig = "fuzz/crash"
		if sm := fuzzSigRe.FindStringSubmatch(out); sm != nil {
			r.sig = sm[1]
		}
		return r
	}
	r.failed = true
	return r
}

// replayFuzz re-runs a saved failing input of a native fuzz target (file name: <id>-fuzz-<Target>-<hash>.fuzz).
func replayFuzz(id string, c propCfg, abs string) int {
	base := strings.TrimSuffix(filepath.Base(abs), ".fuzz")
	parts := strings.Split(base, "-")
	if len(parts) < 4 || parts[1] != "fuzz" {
		fmt.Fprintf(os.Stderr, "not a fuzz replay file name: %s\n", abs)
		return 2
	}
	target := parts[2]
	pkgDir := filepath.Join(harnessDir(), strings.TrimPrefix(c.Pkg, "./"))
	dir := filepath.Join(pkgDir, "testdata", "fuzz", target)
	os.MkdirAll(dir, 0o755)
	name := "replay-" + parts[len(parts)-1]
	if b, err := os.ReadFile(abs); err == nil && strings.HasPrefix(string(b), "seed#") {
		name = strings.TrimSpace(string(b)) // one of the target's own seeds
	} else {
		copyFile(abs, filepath.Join(dir, name))
	}
	defer os.RemoveAll(filepath.Join(pkgDir, "testdata", "fuzz", target))
	cmd := exec.Command("go", "test", "-tags", "verif", "-vet=off", "-count=1", "-run", "^"+target+"$/"+name, "-v", c.Pkg)
	cmd.Dir = harnessDir()
	cmd.Env = append(goEnv(), "VERIF_ROOT="+verifRoot, "GOTRACEBACK=all")
	out, err := cmd.CombinedOutput()
	os.Stdout.Write(out)
	if err == nil {
		fmt.Printf("REPLAY-OK property=%s\n", id)
		return 0
	}
	if strings.Contains(string(out), "[build failed]") || strings.Contains(string(out), "panic: test timed out") {
		return 2
	}
	fmt.Printf("VIOLATION property=%s replay=%s\n", id, abs)
	return 1
}

func matchKnown(known []knownFinding, prop, sig string) *knownFinding {
	for i := range known {
		k := &known[i]
		if k.Kind == "known" && k.Property == prop && (k.Signature == sig || strings.HasPrefix(sig, k.Signature+"/") || strings.HasPrefix(sig, k.Signature)) {
			return k
		}
	}
	return nil
}

func mergeStats(id, tier string, seed uint64, c propCfg, runDir string) (map[string]interface{}, map[string]int64) {
	files, _ := filepath.Glob(filepath.Join(runDir, "stats", "*.json"))
	sort.Strings(files)
	type agg struct {
		rule    string
		evals   int64
		nontriv int64
		hashes  map[uint64]struct{}
		classes map[string]int64
		counts  map[string]int64
		samples []json.RawMessage
		wall    float64
	}
	subs := map[string]*agg{}
	var order []string
	knownHits := map[string]int64{}
	for _, f := range files {
		b, err := os.ReadFile(f)
		if err != nil {
			continue
		}
		var s subStats
		if json.Unmarshal(b, &s) != nil {
			continue
		}
		a := subs[s.Name]
		if a == nil {
			a = &agg{rule: s.Rule, hashes: map[uint64]struct{}{}, classes: map[string]int64{}, counts: map[string]int64{}}
			subs[s.Name] = a
			order = append(order, s.Name)
		}
		a.evals += s.Evaluations
		a.nontriv += s.Nontrivial
		for _, h := range s.Hashes {
			a.hashes[h] = struct{}{}
		}
		for k, v := range s.Classes {
			a.classes[k] += v
		}
		for k, v := range s.Counts {
			a.counts[k] += v
		}
		if len(a.samples) < 2 {
			for _, sm := range s.Samples {
				if len(a.samples) < 2 {
					a.samples = append(a.samples, sm)
				}
			}
		}
		for k, v := range s.KnownHits {
			knownHits[k] += v
		}
		a.wall += s.WallS
	}
	var evals, distinct int64
	var rules []string
	samples := []interface{}{}
	subOut := map[string]interface{}{}
	totalCounts := map[string]int64{}
	for _, name := range order {
		a := subs[name]
		evals += a.evals
		distinct += int64(len(a.hashes))
		rules = append(rules, name+": "+a.rule)
		for _, sm := range a.samples {
			samples = append(samples, map[string]interface{}{"sub": name, "case": sm})
		}
		for k, v := range a.counts {
			totalCounts[k] += v
		}
		subOut[name] = map[string]interface{}{
			"evaluations":         a.evals,
			"nontrivial":          a.nontriv,
			"distinct_nontrivial": len(a.hashes),
			"classes":             a.classes,
			"counts":              a.counts,
			"cpu_s":               a.wall,
		}
	}
	cov := map[string]interface{}{
		"evaluations":         evals,
		"distinct_nontrivial": distinct,
		"rule":                strings.Join(rules, " || "),
		"samples":             samples,
		"subchecks":           subOut,
		"excluded_known":      knownHits,
	}
	if c.TV {
		cov["programs"] = totalCounts["programs"]
		cov["disagreements_checked"] = totalCounts["disagreements_checked"]
	}
	if c.Level == "fault_enumeration" {
		if v, ok := totalCounts["scenarios_exhaustive"]; ok {
			cov["scenarios_enumerated_exhaustively"] = v
		}
	}
	ev := map[string]interface{}{
		"property_id": id,
		"tier":        tier,
		"seed":        seed,
		"level":       c.Level,
		"coverage":    cov,
		"assumptions": nonNil(c.Assumptions),
	}
	return ev, knownHits
}

func copyFile(src, dst string) {
	b, err := os.ReadFile(src)
	if err == nil {
		os.WriteFile(dst, b, 0o644)
	}
}

func tail(s string, n int) string {
	lines := strings.Split(s, "\n")
	if len(lines) > n {
		lines = lines[len(lines)-n:]
	}
	for i, l := range lines {
		if len(l) > 2000 {
			lines[i] = l[:2000] + "…"
		}
	}
	return strings.Join(lines, "\n")
}

func nonNil(s []string) []string {
	if s == nil {
		return []string{}
	}
	return s
}

// failSummary extracts the VIOLATION-CANDIDATE blocks from a shard's output.
func failSummary(out string) string {
	var b strings.Builder
	lines := strings.Split(out, "\n")
	seen := map[string]bool{}
	for i, l := range lines {
		if strings.Contains(l, "VIOLATION-CANDIDATE") && !seen[strings.TrimSpace(l)] {
			seen[strings.TrimSpace(l)] = true
			for j := i; j < len(lines) && j < i+12; j++ {
				if j > i && (strings.Contains(lines[j], "[rapid]") || strings.HasPrefix(lines[j], "===") || strings.HasPrefix(lines[j], "---")) {
					break
				}
				x := lines[j]
				if len(x) > 600 {
					x = x[:600] + "…"
				}
				b.WriteString(x + "\n")
			}
		}
	}
	return b.String()
}
