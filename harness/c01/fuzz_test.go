package c01

import (
	"testing"

	"capnproto.org/go/capnp/v3/verifharness/pbt"
)

// FuzzRead: coverage-guided search over byte strings handed to Unmarshal / UnmarshalPacked / the two decoders and
// then read through the whole consumer set of the generated check (lock-step walk, typed accessors, text, pogs,
// Equal, Canonicalize, copy).  The oracle is the one of the rapid check: no panic, no hang, no slice outside the
// segments, no process death.
func FuzzRead(f *testing.F) {
	for _, s := range [][]byte{
		{0, 0, 0, 0, 2, 0, 0, 0, 0, 0, 0, 0, 1, 0, 0, 0, 7, 0, 0, 0, 0, 0, 0, 0},
		{0, 0, 0, 0, 3, 0, 0, 0, 0, 0, 0, 0, 0, 0, 1, 0, 1, 0, 0, 0, 0x17, 0, 0, 0, 0xff, 0xff, 0xff, 0xff, 0xff, 0xff, 0xff, 0xff},
		{0, 0, 0, 0, 2, 0, 0, 0, 0xfc, 0xff, 0xff, 0xff, 0, 0, 1, 0, 0, 0, 0, 0, 0, 0, 0, 0},
		{1, 0, 0, 0, 1, 0, 0, 0, 1, 0, 0, 0, 0, 0, 0, 0, 2, 0, 0, 0, 1, 0, 0, 0, 0, 0, 0, 0, 0, 0, 0, 0},
		{0x10, 0x02, 0x40, 0x01, 0x01},
	} {
		f.Add(s, uint8(0), uint8(0))
		f.Add(s, uint8(1), uint8(3))
	}
	f.Fuzz(func(t *testing.T, data []byte, via uint8, lim uint8) {
		if len(data) > 1<<14 {
			return
		}
		c := Case{Kind: "fuzz", Stream: data, Via: 2 + int(via)%4, T: tLimits[int(lim)%len(tLimits)], D: dLimits[int(lim/16)%len(dLimits)], Caps: int(lim) % 3}
		if _, err := run(c); err != nil {
			v, _ := err.(*pbt.Violation)
			if v != nil {
				t.Fatalf("VIOLATION-CANDIDATE C01/fuzz sig=%s\n%s", v.Sig, v.Msg)
			}
			t.Fatalf("VIOLATION-CANDIDATE C01/fuzz sig=error\n%v", err)
		}
	})
}
