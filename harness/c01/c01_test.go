package c01

import (
	"bytes"
	"encoding/binary"
	"errors"
	"fmt"
	"os"
	"runtime/debug"
	"strings"
	"syscall"
	"testing"
	"time"
	"unsafe"

	capnp "capnproto.org/go/capnp/v3"
	"capnproto.org/go/capnp/v3/encoding/text"
	air "capnproto.org/go/capnp/v3/internal/aircraftlib"
	"capnproto.org/go/capnp/v3/pogs"
	"capnproto.org/go/capnp/v3/verifharness/gen"
	"capnproto.org/go/capnp/v3/verifharness/hx"
	"capnproto.org/go/capnp/v3/verifharness/mirror"
	"capnproto.org/go/capnp/v3/verifharness/pbt"
	"capnproto.org/go/capnp/v3/verifharness/ref"
	"capnproto.org/go/capnp/v3/verifharness/walk"
	"pgregory.net/rapid"
)

func TestProp(t *testing.T)   { pbt.RunProps(t) }
func TestReplay(t *testing.T) { pbt.RunReplay(t) }

func init() { debug.SetMaxStack(256 << 20) }

// SegSpec is a compact description of one segment: Words zero words with the
// listed overrides (sparse), or Raw bytes.
type SegSpec struct {
	Words int         `json:"words,omitempty"`
	Set   [][2]uint64 `json:"set,omitempty"` // (word index, value)
	Raw   hx.Bytes    `json:"raw,omitempty"`
}

func (s SegSpec) Build() []byte {
	if s.Raw != nil {
		return append([]byte(nil), s.Raw...)
	}
	b := make([]byte, s.Words*8)
	for _, kv := range s.Set {
		if int(kv[0]) < s.Words {
			binary.LittleEndian.PutUint64(b[kv[0]*8:], kv[1])
		}
	}
	return b
}

func sparse(segs [][]byte) []SegSpec {
	out := make([]SegSpec, len(segs))
	for i, s := range segs {
		sp := SegSpec{Words: len(s) / 8}
		for w := 0; w+8 <= len(s); w += 8 {
			if v := binary.LittleEndian.Uint64(s[w:]); v != 0 {
				sp.Set = append(sp.Set, [2]uint64{uint64(w / 8), v})
			}
		}
		if len(s)%8 != 0 || len(sp.Set)*2 > sp.Words+4 {
			sp = SegSpec{Raw: append([]byte(nil), s...)}
			if sp.Raw == nil {
				sp.Raw = hx.Bytes{}
			}
		}
		out[i] = sp
	}
	return out
}

type Case struct {
	built  *builtSegs
	Kind   string    `json:"kind"`
	Segs   []SegSpec `json:"segs"`
	Stream hx.Bytes  `json:"stream,omitempty"` // for via >= 2: raw bytes handed to Unmarshal / decoders instead of Segs
	Via    int       `json:"via"`              // 0 MultiSegment 1 SingleSegment 2 Unmarshal 3 UnmarshalPacked 4 Decoder 5 PackedDecoder 6 flaky arena
	T      uint64    `json:"traverse_limit"`   // 0 = default
	D      uint      `json:"depth_limit"`      // 0 = default
	Caps   int       `json:"cap_table"`        // 0 nil, 1 one entry, 2 eight entries
	Flaky  []int     `json:"flaky"`            // via 6: segment ids whose Data() fails; a trailing -1 adds a phantom segment
	Chunks []int     `json:"chunks"`
	Reuse  bool      `json:"reuse"`
	Prior  int       `json:"prior,omitempty"` // via 4/5: words of a sentinel-filled message decoded first on the same Decoder
}

// flakyArena delivers errors for some segments and can announce more segments than it has.
type flakyArena struct {
	segs    [][]byte
	fail    map[int]bool
	phantom bool
}

func (a *flakyArena) NumSegments() int64 {
	if a.phantom {
		return int64(len(a.segs)) + 1
	}
	return int64(len(a.segs))
}
func (a *flakyArena) Data(id capnp.SegmentID) ([]byte, error) {
	if a.fail[int(id)] || int(id) >= len(a.segs) {
		return nil, errors.New("flaky arena: segment unavailable")
	}
	return a.segs[id], nil
}
func (a *flakyArena) Allocate(capnp.Size, map[capnp.SegmentID]*capnp.Segment) (capnp.SegmentID, []byte, error) {
	return 0, nil, errors.New("flaky arena: read-only")
}

type builtSegs struct {
	raw, segs [][]byte
}

type opened struct {
	msg  *capnp.Message
	segs [][]byte // the segment bytes as supplied (for address checks); nil if unknown
	raw  [][]byte // plain copy for the reference decoder
}

// open builds a fresh Message over the case's bytes (each consumer gets its own, with a full traversal budget).
func (c *Case) open() (*opened, error) {
	o := &opened{}
	setup := func(m *capnp.Message) {
		m.TraverseLimit, m.DepthLimit = c.T, c.D
		switch c.Caps {
		case 1:
			m.CapTable = []*capnp.Client{capnp.ErrorClient(errors.New("c0"))}
		case 2:
			for i := 0; i < 8; i++ {
				if i == 3 {
					m.CapTable = append(m.CapTable, nil)
					continue
				}
				m.CapTable = append(m.CapTable, capnp.ErrorClient(errors.New("c")))
			}
		}
	}
	switch c.Via {
	case 0, 1, 6:
		if c.built == nil {
			raw := make([][]byte, len(c.Segs))
			for i, s := range c.Segs {
				raw[i] = s.Build()
			}
			segs, _ := hx.Carve(raw)
			c.built = &builtSegs{raw: raw, segs: segs}
		}
		raw, segs := c.built.raw, c.built.segs
		o.raw, o.segs = raw, segs
		var arena capnp.Arena
		switch {
		case c.Via == 1 && len(segs) >= 1:
			arena = capnp.SingleSegment(segs[0])
			o.raw, o.segs = raw[:1], segs[:1]
		case c.Via == 6:
			fa := &flakyArena{segs: segs, fail: map[int]bool{}}
			for _, f := range c.Flaky {
				if f < 0 {
					fa.phantom = true
				} else {
					fa.fail[f] = true
				}
			}
			arena = fa
			o.raw = nil // the reference decoder cannot model unavailable segments
		default:
			arena = capnp.MultiSegment(segs)
		}
		o.msg = &capnp.Message{Arena: arena}
		setup(o.msg)
		return o, nil
	case 2:
		m, err := capnp.Unmarshal(append([]byte(nil), c.Stream...))
		if err != nil {
			return nil, err
		}
		o.msg = m
	case 3:
		m, err := capnp.UnmarshalPacked(append([]byte(nil), c.Stream...))
		if err != nil {
			return nil, err
		}
		o.msg = m
	case 4, 5:
		data := append([]byte(nil), c.Stream...)
		if c.Prior > 0 {
			// an earlier, larger message of the same stream: whatever the Decoder keeps of it is not part of this message
			prior := ref.Frame([][]byte{bytes.Repeat([]byte{0xA5}, 8*c.Prior)})
			if c.Via == 5 {
				prior = ref.Pack(prior, nil)
			}
			data = append(prior, data...)
		}
		r := &hx.ChunkReader{Data: data, Chunks: c.Chunks}
		var d *capnp.Decoder
		if c.Via == 4 {
			d = capnp.NewDecoder(r)
		} else {
			d = capnp.NewPackedDecoder(r)
		}
		if c.Reuse {
			d.ReuseBuffer()
		}
		if c.Prior > 0 {
			if _, err := d.Decode(); err != nil {
				return nil, fmt.Errorf("harness: prior message rejected: %v", err)
			}
		}
		m, err := d.Decode()
		if err != nil {
			return nil, err
		}
		o.msg = m
	}
	setup(o.msg)
	// the segments of a framed message are what the frame says, byte for byte: an independent unframer must see the same
	if want, ok := c.framedSegments(); ok && int64(len(want)) == o.msg.NumSegments() {
		for i := range want {
			sg, err := o.msg.Segment(capnp.SegmentID(i))
			if err != nil {
				break
			}
			if got := sg.Data(); !bytes.Equal(got, want[i]) {
				return nil, pbt.Fail("segment-differs-from-frame", "via %d (reuse=%v prior=%d): segment %d as the library presents it has %d bytes, the frame holds %d (first difference at byte %d): reads can reach bytes that are not part of the message", c.Via, c.Reuse, c.Prior, i, len(got), len(want[i]), firstDiff(got, want[i]))
			}
		}
	}
	// recover the segments as the library sees them
	n := o.msg.NumSegments()
	if n > 0 && n <= 1024 {
		for i := int64(0); i < n; i++ {
			s, err := o.msg.Segment(capnp.SegmentID(i))
			if err != nil {
				o.segs, o.raw = nil, nil
				return o, nil
			}
			o.segs = append(o.segs, s.Data())
			o.raw = append(o.raw, append([]byte(nil), s.Data()...))
		}
	}
	return o, nil
}

// framedSegments parses the case's byte stream with the independent unframer / unpacker.
func (c *Case) framedSegments() ([][]byte, bool) {
	if c.Via < 2 || c.Via > 5 {
		return nil, false
	}
	b := []byte(c.Stream)
	if c.Via == 3 || c.Via == 5 {
		u, err := ref.Unpack(b)
		if err != nil {
			return nil, false
		}
		b = u
	}
	segs, _, err := ref.Unframe(b)
	if err != nil {
		return nil, false
	}
	return segs, true
}

func firstDiff(a, b []byte) int {
	for i := 0; i < len(a) && i < len(b); i++ {
		if a[i] != b[i] {
			return i
		}
	}
	if len(a) < len(b) {
		return len(a)
	}
	return len(b)
}

// inSegs reports whether b lies inside one of the supplied segments (by address).
func inSegs(segs [][]byte, b []byte) bool {
	if len(b) == 0 {
		return true
	}
	p := uintptr(unsafe.Pointer(&b[0]))
	for _, s := range segs {
		if len(s) == 0 {
			continue
		}
		q := uintptr(unsafe.Pointer(&s[0]))
		if p >= q && p+uintptr(len(b)) <= q+uintptr(len(s)) {
			return true
		}
	}
	return false
}

type consumer struct {
	name      string
	expensive bool // cost per list element is large (allocation / formatting): needs a small budget
	run       func(o *opened) error
}

func rootStruct(o *opened) (capnp.Struct, error) {
	p, err := o.msg.Root()
	if err != nil {
		return capnp.Struct{}, err
	}
	return p.Struct(), nil
}

var consumers = []consumer{
	{"equal", false, func(o *opened) error {
		p, err := o.msg.Root()
		if err != nil {
			return err
		}
		_, err = capnp.Equal(p, p)
		return err
	}},
	{"canonicalize", false, func(o *opened) error {
		s, err := rootStruct(o)
		if err != nil {
			return err
		}
		_, err = capnp.Canonicalize(s)
		return err
	}},
	{"setroot-copy", false, func(o *opened) error {
		p, err := o.msg.Root()
		if err != nil {
			return err
		}
		dst, _, err := capnp.NewMessage(capnp.SingleSegment(nil))
		if err != nil {
			return err
		}
		return dst.SetRoot(p)
	}},
	{"setptr-copy-multiseg", false, func(o *opened) error {
		p, err := o.msg.Root()
		if err != nil {
			return err
		}
		dst, seg, err := capnp.NewMessage(capnp.MultiSegment(nil))
		if err != nil {
			return err
		}
		r, err := capnp.NewRootStruct(seg, capnp.ObjectSize{PointerCount: 1})
		if err != nil {
			return err
		}
		_ = dst
		return r.SetPtr(0, p)
	}},
	{"text.Z", true, func(o *opened) error {
		s, err := rootStruct(o)
		if err != nil {
			return err
		}
		_, err = text.Marshal(air.Z_TypeID, s)
		return err
	}},
	{"text.Counter", true, func(o *opened) error {
		s, err := rootStruct(o)
		if err != nil {
			return err
		}
		_, err = text.Marshal(air.Counter_TypeID, s)
		return err
	}},
	{"text.HoldsText", true, func(o *opened) error {
		s, err := rootStruct(o)
		if err != nil {
			return err
		}
		_, err = text.Marshal(air.HoldsText_TypeID, s)
		return err
	}},
	{"text.RWTestCapn", true, func(o *opened) error {
		s, err := rootStruct(o)
		if err != nil {
			return err
		}
		_, err = text.Marshal(air.RWTestCapn_TypeID, s)
		return err
	}},
	{"text.Defaults", true, func(o *opened) error {
		s, err := rootStruct(o)
		if err != nil {
			return err
		}
		_, err = text.Marshal(air.Defaults_TypeID, s)
		return err
	}},
	{"text.list", true, func(o *opened) error {
		p, err := o.msg.Root()
		if err != nil {
			return err
		}
		_, err = text.MarshalList(air.Z_TypeID, p.List())
		return err
	}},
	{"pogs.Z", true, func(o *opened) error {
		s, err := rootStruct(o)
		if err != nil {
			return err
		}
		var z mirror.Z
		return pogs.Extract(&z, air.Z_TypeID, s)
	}},
	{"pogs.Regression", true, func(o *opened) error {
		s, err := rootStruct(o)
		if err != nil {
			return err
		}
		var r mirror.Regression
		return pogs.Extract(&r, air.Regression_TypeID, s)
	}},
	{"generated.Z", true, func(o *opened) error {
		z, err := air.ReadRootZ(o.msg)
		if err != nil {
			return err
		}
		_ = z.Which()
		_ = z.String()
		if z.Which() == air.Z_Which_zvec {
			l, err := z.Zvec()
			if err != nil {
				return err
			}
			for i := 0; i < l.Len() && i < 64; i++ {
				_ = l.At(i).Which()
			}
			_ = l.String()
		}
		if z.Which() == air.Z_Which_text {
			_, _ = z.Text()
			_, _ = z.TextBytes()
		}
		if z.Which() == air.Z_Which_planebase {
			pb, err := z.Planebase()
			if err != nil {
				return err
			}
			_, _ = pb.Name()
			h, err := pb.Homes()
			if err == nil {
				for i := 0; i < h.Len() && i < 64; i++ {
					_ = h.At(i).String()
				}
			}
		}
		if z.Which() == air.Z_Which_anyCapability {
			c, err := z.AnyCapability()
			if err == nil {
				_ = c.IsValid()
			}
		}
		return nil
	}},
}

// safely runs f with panic recovery and a watchdog; hung=true means f did not return within d.
func safely(d time.Duration, f func() error) (err error, panicked interface{}, stack string, hung bool) {
	type result struct {
		err   error
		p     interface{}
		stack string
	}
	ch := make(chan result, 1)
	go func() {
		var r result
		defer func() {
			if p := recover(); p != nil {
				r.p = p
				r.stack = string(debug.Stack())
			}
			ch <- r
		}()
		r.err = f()
	}()
	// The readers under test never block: a hang is an endless loop, which burns processor time.  The watchdog
	// therefore counts the process's CPU time (a loaded machine slows the wall clock, not the verdict), with a
	// generous wall-clock cap on top.
	// A reader blocked on a lock burns nothing: that shows as a stretch of wall-clock time without processor time.
	cpu0 := cpuTime()
	t0 := time.Now()
	tick := time.NewTicker(250 * time.Millisecond)
	defer tick.Stop()
	winStart, winCPU := t0, cpu0
	for {
		select {
		case r := <-ch:
			return r.err, r.p, r.stack, false
		case now := <-tick.C:
			cpu := cpuTime()
			if cpu-cpu0 > d || now.Sub(t0) > 8*d {
				return nil, nil, "", true
			}
			if now.Sub(winStart) >= 20*time.Second {
				if cpu-winCPU < 200*time.Millisecond {
					return nil, nil, "", true // 20 s without running: blocked
				}
				winStart, winCPU = now, cpu
			}
		}
	}
}

func cpuTime() time.Duration {
	var ru syscall.Rusage
	if err := syscall.Getrusage(syscall.RUSAGE_SELF, &ru); err != nil {
		return 0
	}
	return time.Duration(ru.Utime.Nano() + ru.Stime.Nano())
}

const watchdog = 120 * time.Second

func panicSite(stack string) string {
	// first library frame in the stack
	for _, line := range strings.Split(stack, "\n") {
		if strings.HasPrefix(line, "capnproto.org/go/capnp/v3") && !strings.Contains(line, "verifharness") {
			if i := strings.Index(line, "("); i > 0 {
				line = line[:i]
			}
			return strings.TrimPrefix(line, "capnproto.org/go/capnp/v3")
		}
	}
	return "?"
}

func run(c Case) (pbt.Result, error) {
	var res pbt.Result
	c.built = nil
	res.Class("kind:%s", c.Kind)
	res.Class("via:%d", c.Via)
	res.Class("T:%s", tClass(c.T))
	res.Class("D:%d", c.D)

	// ---- phase 1: lock-step walk (bounds oracle, aliasing of returned slices) ----
	var o *opened
	err, p, stack, hung := safely(watchdog, func() error {
		var e error
		o, e = c.open()
		return e
	})
	if hung {
		return res, pbt.Fail("hang/open", "opening the message did not return within %v", watchdog)
	}
	if p != nil {
		return res, pbt.Fail("panic/open/"+panicSite(stack), "panic while opening (via %d): %v\n%s", c.Via, p, stack)
	}
	if v, ok := err.(*pbt.Violation); ok {
		return res, v
	}
	if err != nil {
		res.Class("open-error:" + walk.NormErr(err))
		return res, nil
	}
	var w *walk.Walker
	var werr error
	_, p, stack, hung = safely(watchdog, func() error {
		var d *ref.Decoder
		if o.raw != nil {
			d = &ref.Decoder{Segs: o.raw}
		}
		w = &walk.Walker{D: d, Valid: false, MaxSteps: 4000}
		if o.segs != nil {
			segs := o.segs
			w.InSegs = func(b []byte) bool { return inSegs(segs, b) }
		}
		werr = w.Root(o.msg)
		return nil
	})
	if hung {
		return res, pbt.Fail("hang/walk", "walking the message did not return within %v", watchdog)
	}
	if p != nil {
		return res, pbt.Fail("panic/walk/"+panicSite(stack), "panic in a read accessor: %v\n%s", p, stack)
	}
	if werr != nil {
		return res, werr
	}
	nerr := 0
	for k, n := range w.Errs {
		res.Class("err:" + k)
		nerr += n
	}
	res.Count("derefs", int64(w.OK))

	// ---- phase 2: whole-tree consumers ----------------------------------------------
	small := !w.Truncated && w.TotalElems <= 20000
	cheapOK := c.T != 1<<40 || small                    // O(1)-per-element consumers: fine within the default budget
	expensiveOK := (c.T != 0 && c.T <= 64<<10) || small // pogs re-maps the Go type for every struct it extracts: ~0.5 ms per element
	ran := 0
	for _, cons := range consumers {
		if cons.expensive && !expensiveOK || !cons.expensive && !cheapOK {
			continue
		}
		cons := cons
		var cerr error
		t0 := time.Now()
		if os.Getenv("C01_TIMING") != "" {
			defer func(name string) { fmt.Printf("C01_TIMING %s %v\n", name, time.Since(t0)) }(cons.name)
		}
		_, p, stack, hung = safely(watchdog, func() error {
			oo, e := c.open()
			if e != nil {
				return nil
			}
			cerr = cons.run(oo)
			return nil
		})
		ran++
		if hung {
			return res, pbt.Fail("hang/"+cons.name, "%s did not return within %v", cons.name, watchdog)
		}
		if p != nil {
			return res, pbt.Fail("panic/"+cons.name+"/"+panicSite(stack), "%s panicked: %v\n%s", cons.name, p, stack)
		}
		if cerr != nil {
			nerr++
			res.Class("consumer-error:" + cons.name)
		} else {
			res.Class("consumer-ok:" + cons.name)
		}
	}
	res.Count("consumer_runs", int64(ran))
	res.Nontrivial = w.OK >= 1 && nerr >= 1
	return res, nil
}

func tClass(t uint64) string {
	switch {
	case t == 0:
		return "default"
	case t <= 1<<20:
		return "<=1MiB"
	case t == 1<<40:
		return "2^40"
	}
	return "other"
}

// ---- generators ----------------------------------------------------------------

var tLimits = []uint64{64, 1024, 64 << 10, 0, 0, 1 << 40}
var dLimits = []uint{0, 0, 1, 2, 3, 64, 1000}

func genConfig(t *rapid.T, c *Case) {
	c.T = rapid.SampledFrom(tLimits).Draw(t, "T")
	c.D = rapid.SampledFrom(dLimits).Draw(t, "D")
	c.Caps = rapid.IntRange(0, 2).Draw(t, "caps")
}

// zSegments builds a valid typed message (aircraftlib.Z) from a generated Go value.
func zSegments(t *rapid.T) [][]byte {
	z := mirror.GenZ(&mirror.Rapid{T: t}, 2)
	arena := capnp.Arena(capnp.SingleSegment(nil))
	if rapid.Bool().Draw(t, "zmulti") {
		arena = capnp.MultiSegment([][]byte{make([]byte, 0, 16)})
	}
	msg, seg, err := capnp.NewMessage(arena)
	if err != nil {
		return nil
	}
	root, err := air.NewRootZ(seg)
	if err != nil {
		return nil
	}
	if err := pogs.Insert(air.Z_TypeID, root.Struct, z); err != nil {
		return nil
	}
	var segs [][]byte
	for i := int64(0); i < msg.NumSegments(); i++ {
		s, err := msg.Segment(capnp.SegmentID(i))
		if err != nil {
			return nil
		}
		segs = append(segs, append([]byte(nil), s.Data()...))
	}
	return segs
}

// shave makes (in 1 case of 4) one segment end 1-7 bytes short of a word boundary: arenas hand the library whatever
// byte strings the caller has; an object whose last word is only partly present may still be in bounds (a byte list
// that does not use its padding) or not.
func shave(t *rapid.T, segs [][]byte) {
	if rapid.IntRange(0, 3).Draw(t, "shave") != 0 {
		return
	}
	i := rapid.IntRange(0, len(segs)-1).Draw(t, "shaveseg")
	if len(segs[i]) >= 8 {
		segs[i] = segs[i][:len(segs[i])-rapid.IntRange(1, 7).Draw(t, "shaven")]
	}
}

func genCase(t *rapid.T) Case {
	var c Case
	genConfig(t, &c)
	switch rapid.IntRange(0, 19).Draw(t, "kind") / 2 {
	case 0, 1, 2: // grammar of hostile words
		c.Kind = "grammar"
		nseg := rapid.SampledFrom([]int{1, 1, 2, 2, 3, 4}).Draw(t, "nseg")
		sw := make([]int, nseg)
		for i := range sw {
			sw[i] = rapid.IntRange(0, 12).Draw(t, "segwords")
			if i == 0 && sw[i] == 0 {
				sw[i] = 1
			}
		}
		goodRoot := rapid.IntRange(0, 3).Draw(t, "goodroot") != 0 && sw[0] >= 3
		for i := 0; i < nseg; i++ {
			sp := SegSpec{Words: sw[i]}
			for w := 0; w < sw[i]; w++ {
				v := gen.HostileWord(t, gen.WordCtx{SegWords: sw, Seg: i, Word: w})
				if goodRoot && i == 0 && w == 0 {
					// a well-formed root struct (Z-like: discriminant in its first data word) so that deeper pointers get exercised
					pc := rapid.IntRange(1, imin(3, sw[0]-2)).Draw(t, "rootpc")
					dw := rapid.IntRange(0, imin(3, sw[0]-1-pc)).Draw(t, "rootdw")
					v = uint64(dw)<<32 | uint64(pc)<<48
				}
				if goodRoot && i == 0 && w == 1 && rapid.Bool().Draw(t, "rootdisc") {
					v = uint64(rapid.IntRange(0, 50).Draw(t, "disc"))
				}
				if v != 0 {
					sp.Set = append(sp.Set, [2]uint64{uint64(w), v})
				}
			}
			c.Segs = append(c.Segs, sp)
		}
		// bias the root towards a Z-shaped struct so that schema-driven consumers go deep:
		// the discriminant of Z is the first 16 bits of its data section
		c.Via = rapid.SampledFrom([]int{0, 0, 0, 1, 6}).Draw(t, "via")
	case 3, 4, 5: // mutated valid typed message
		c.Kind = "mutated-Z"
		segs := zSegments(t)
		if segs == nil {
			segs = [][]byte{make([]byte, 8)}
		}
		gen.Apply(segs, gen.MutateWords(t, segs, 3))
		if rapid.IntRange(0, 4).Draw(t, "zdisc") == 0 && len(segs[0]) >= 16 {
			// re-point the union discriminant: the same pointers are now read as another type
			binary.LittleEndian.PutUint16(segs[0][8:], uint16(rapid.IntRange(0, 52).Draw(t, "disc")))
		}
		if rapid.IntRange(0, 5).Draw(t, "ztrunc") == 0 {
			i := rapid.IntRange(0, len(segs)-1).Draw(t, "tseg")
			if n := len(segs[i]) / 8; n > 1 {
				segs[i] = segs[i][:8*rapid.IntRange(1, n-1).Draw(t, "tlen")]
			}
		}
		shave(t, segs)
		c.Segs = sparse(segs)
		c.Via = rapid.SampledFrom([]int{0, 0, 0, 1, 6}).Draw(t, "via")
	case 6, 7: // mutated reference-encoded tree
		c.Kind = "mutated-tree"
		v := gen.ValueTree(t, gen.TreeOpts{MaxDepth: rapid.IntRange(1, 3).Draw(t, "depth"), Caps: true, MaxCap: 9, RootStruct: true})
		L, err := ref.Encode(ref.FromValue(v), gen.Plan(t, 4))
		segs := [][]byte{make([]byte, 8)}
		if err == nil {
			segs = L.Segs
		}
		gen.Apply(segs, gen.MutateWords(t, segs, 4))
		shave(t, segs)
		c.Segs = sparse(segs)
		c.Via = rapid.SampledFrom([]int{0, 0, 0, 1, 6}).Draw(t, "via")
	case 8: // byte streams through the framing / packing layers
		c.Kind = "stream"
		c.Via = rapid.IntRange(2, 5).Draw(t, "via")
		switch rapid.IntRange(0, 2).Draw(t, "streamsrc") {
		case 0:
			c.Stream = rapid.SliceOfN(rapid.Byte(), 0, 64).Draw(t, "raw")
		default:
			segs := zSegments(t)
			if segs == nil {
				segs = [][]byte{make([]byte, 8)}
			}
			gen.Apply(segs, gen.MutateWords(t, segs, 2))
			fr := ref.Frame(segs)
			if c.Via == 3 || c.Via == 5 {
				fr = ref.Pack(fr, nil)
			}
			if rapid.IntRange(0, 3).Draw(t, "smut") == 0 && len(fr) > 0 {
				fr[rapid.IntRange(0, len(fr)-1).Draw(t, "smutpos")] ^= byte(1 << uint(rapid.IntRange(0, 7).Draw(t, "smutbit")))
			}
			if rapid.IntRange(0, 3).Draw(t, "scut") == 0 && len(fr) > 0 {
				fr = fr[:rapid.IntRange(0, len(fr)).Draw(t, "scutpos")]
			}
			c.Stream = fr
		}
		n := rapid.IntRange(0, 2).Draw(t, "nchunks")
		for i := 0; i < n; i++ {
			c.Chunks = append(c.Chunks, rapid.SampledFrom([]int{1, 7, 8, 9, 64}).Draw(t, "chunk"))
		}
		c.Reuse = rapid.Bool().Draw(t, "reuse")
		if c.Via >= 4 {
			c.Prior = rapid.SampledFrom([]int{0, 0, 1, 40, 1024}).Draw(t, "prior")
		}
	case 9:
		if rapid.Bool().Draw(t, "notbig") {
			return genCase(t)
		}
		fallthrough
	default: // magic sizes: huge element counts in a big (sparse) segment
		c.Kind = "big"
		words := rapid.SampledFrom([]int{65536 + 8, 70000, 1 << 17}).Draw(t, "bigwords")
		// root: Z struct (3 data words, 1 pointer) at word 1; its pointer at word 4; list body from word 5
		disc := rapid.SampledFrom([]int{39, 24, 20, 40, 41, 25, 14, 13, 23}).Draw(t, "bigdisc")
		lk := rapid.IntRange(0, 7).Draw(t, "biglk")
		bodyWords := words - 5
		var cnt int
		switch rapid.IntRange(0, 4).Draw(t, "bigcnt") {
		case 0:
			cnt = 1 << 22
		case 1:
			cnt = 1<<22 + rapid.IntRange(1, 100).Draw(t, "bigextra")
		case 2:
			cnt = bodyWords * 64 // as many bits as fit
		case 3:
			cnt = bodyWords * 8
		default:
			cnt = bodyWords
		}
		// clip to what fits for the chosen element kind so that the pointer is (mostly) in bounds
		per := map[int]int{0: 1 << 29, 1: bodyWords * 64, 2: bodyWords * 8, 3: bodyWords * 4, 4: bodyWords * 2, 5: bodyWords, 6: bodyWords, 7: bodyWords - 1}[lk]
		if cnt > per && rapid.IntRange(0, 3).Draw(t, "bigclip") != 0 {
			cnt = per
		}
		if cnt >= 1<<29 {
			cnt = 1<<29 - 1
		}
		sp := SegSpec{Words: words}
		sp.Set = append(sp.Set, [2]uint64{0, 0 | 3<<32 | 1<<48})                    // struct ptr off 0, dw=3, pc=1
		sp.Set = append(sp.Set, [2]uint64{1, uint64(disc)})                         // discriminant
		sp.Set = append(sp.Set, [2]uint64{4, 1 | uint64(lk)<<32 | uint64(cnt)<<35}) // list pointer to word 5
		if lk == 7 {
			n := rapid.SampledFrom([]int{cnt, cnt / 4, 1 << 20}).Draw(t, "bign")
			sp.Set = append(sp.Set, [2]uint64{5, uint64(uint32(int32(n))<<2) | uint64(rapid.IntRange(0, 1).Draw(t, "bigdw"))<<32})
		}
		// a few set bits far into the list
		sp.Set = append(sp.Set, [2]uint64{uint64(words - 1), ^uint64(0)})
		c.Segs = []SegSpec{sp}
		c.Via = 0
		c.T = rapid.SampledFrom([]uint64{0, 0, 1 << 20, 1 << 40}).Draw(t, "bigT")
	}
	if c.Via == 6 {
		c.Flaky = rapid.SliceOfN(rapid.IntRange(-1, 3), 1, 3).Draw(t, "flaky")
	}
	return c
}

var _ = pbt.Register(pbt.Spec[Case]{
	Property: "C01", Name: "hostile-read",
	Rule:  "hostile messages: (grammar) 1-4 segments of words drawn from a pointer grammar with boundary targets/sizes/counts and landing-pad/tag shapes; (mutated-Z) valid aircraftlib.Z messages with 1-3 words overwritten, the union discriminant re-pointed, segments truncated (by words, or 1-7 bytes off the end so that the segment length is not a multiple of 8); (mutated-tree) reference-encoded random trees (far/double-far) with 1-4 words overwritten; (stream) raw/mutated/cut byte streams through Unmarshal, UnmarshalPacked, Decoder, PackedDecoder (+ReuseBuffer, chunked readers, a larger sentinel-filled message decoded first on the same Decoder); (big) sparse 0.5-1 MiB segments with element counts around 2^22 bits / 2^29; x arenas (MultiSegment, SingleSegment, own flaky Arena whose Data fails or that announces a phantom segment) x TraverseLimit {64,1Ki,64Ki,default,2^40} x DepthLimit {1,2,3,default,64,1000} x capability table {nil, 1, 8 entries}. Every segment is carved with cap==len out of a canary buffer. Oracle: the segments of a framed message are byte for byte what an independent unframer/unpacker finds in the stream; no panic in any accessor or consumer (walker over all accessors, Equal, Canonicalize, SetRoot/SetPtr deep copy, text.Marshal for 5 schemas, pogs.Extract for 2 Go types, generated accessors/String), every step returns within the watchdog, the lock-step reference decoder confirms every successful dereference lies inside its segment, returned Text/Data slices alias a supplied segment by address. Consumers whose per-element cost is high run when the budget is <=1MiB or the walk was small. Non-trivial: >=1 successful dereference and >=1 error in the same case.",
	Quick: 25000, Thorough: 250000,
	Gen: genCase,
	Run: run,
	Seeds: []Case{
		// composite tag announcing -1 zero-sized elements, read as Z.zvec under a 2^40 traversal budget
		{Kind: "grammar", Via: 0, T: 1 << 40, Segs: []SegSpec{{Words: 6, Set: [][2]uint64{{0, 281487861612544}, {1, 25}, {4, 30064771073}, {5, 4294967292}}}}},
		// root segment of zero words
		{Kind: "stream", Via: 3, Stream: hx.Bytes{0x02, 0x00}, T: 65536, D: 3, Caps: 1, Reuse: true},
		// struct list whose element points back at the list, depth limit 1 (depth budget must not wrap)
		{Kind: "grammar", Via: 0, D: 1, Caps: 1, Segs: []SegSpec{{Words: 6, Set: [][2]uint64{{0, 236223201277}, {1, 562952100904948}, {2, 21474836472}, {3, 18446462607322775556}, {4, 30064771075}}}, {Words: 2, Set: [][2]uint64{{0, 4294967300}, {1, 26}}}}},
		// a bit list announcing > 2^22 elements inside the default traversal budget (index >= 2^22 reachable by consumers)
		{Kind: "big", Via: 0, Segs: []SegSpec{{Words: 65600, Set: [][2]uint64{{0, 0 | 3<<32 | 1<<48}, {1, 39}, {4, 1 | 1<<32 | uint64(1<<22+40)<<35}, {65599, ^uint64(0)}}}}},
	},
})

var _ = fmt.Sprintf
var _ = bytes.Equal

func imin(a, b int) int {
	if a < b {
		return a
	}
	return b
}
