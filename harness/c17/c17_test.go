package c17

import (
	"errors"
	"fmt"
	"testing"

	capnp "capnproto.org/go/capnp/v3"
	"capnproto.org/go/capnp/v3/verifharness/gen"
	"capnproto.org/go/capnp/v3/verifharness/hx"
	"capnproto.org/go/capnp/v3/verifharness/pbt"
	"capnproto.org/go/capnp/v3/verifharness/ref"
	"pgregory.net/rapid"
)

func TestProp(t *testing.T)   { pbt.RunProps(t) }
func TestReplay(t *testing.T) { pbt.RunReplay(t) }

type Case struct {
	Mode    string    `json:"mode"` // layout | mutant | independent
	Desc    string    `json:"desc"`
	A, B    ref.Value `json:"-"`
	AJ      ref.Value `json:"a"`
	BJ      ref.Value `json:"b"`
	PlanA   ref.Plan  `json:"plan_a"`
	PlanB   ref.Plan  `json:"plan_b"`
	SameMsg bool      `json:"same_message"`
	CapsA   []int     `json:"caps_a"` // capability identity per table index (-1: nil entry); table may be shorter than the indices used
	CapsB   []int     `json:"caps_b"`
}

func mkTable(ids []int, clients map[int]*capnp.Client) []*capnp.Client {
	var tab []*capnp.Client
	for _, id := range ids {
		if id < 0 {
			tab = append(tab, nil)
			continue
		}
		c := clients[id]
		if c == nil {
			c = capnp.ErrorClient(errors.New("cap"))
			clients[id] = c
		}
		tab = append(tab, c.AddRef())
	}
	return tab
}

func run(c Case) (pbt.Result, error) {
	var res pbt.Result
	a, b := c.AJ, c.BJ
	clients := map[int]*capnp.Client{}
	var pa, pb capnp.Ptr
	var ma, mb *capnp.Message
	if c.SameMsg {
		wrap := ref.StructV(nil, a, b)
		L, err := ref.Encode(ref.FromValue(wrap), c.PlanA)
		if err != nil {
			return res, nil
		}
		segs, _ := hx.Carve(L.Segs)
		ma = &capnp.Message{Arena: capnp.MultiSegment(segs), TraverseLimit: 1 << 40}
		ma.CapTable = mkTable(c.CapsA, clients)
		mb = ma
		root, err := ma.Root()
		if err != nil {
			return res, pbt.Fail("harness/root", "%v", err)
		}
		if pa, err = root.Struct().Ptr(0); err != nil {
			return res, pbt.Fail("harness/ptr", "%v", err)
		}
		if pb, err = root.Struct().Ptr(1); err != nil {
			return res, pbt.Fail("harness/ptr", "%v", err)
		}
	} else {
		LA, err := ref.Encode(ref.FromValue(a), c.PlanA)
		if err != nil {
			return res, nil
		}
		LB, err := ref.Encode(ref.FromValue(b), c.PlanB)
		if err != nil {
			return res, nil
		}
		sa, _ := hx.Carve(LA.Segs)
		sb, _ := hx.Carve(LB.Segs)
		ma = &capnp.Message{Arena: capnp.MultiSegment(sa), TraverseLimit: 1 << 40}
		mb = &capnp.Message{Arena: capnp.MultiSegment(sb), TraverseLimit: 1 << 40}
		ma.CapTable = mkTable(c.CapsA, clients)
		mb.CapTable = mkTable(c.CapsB, clients)
		if pa, err = ma.Root(); err != nil {
			return res, pbt.Fail("harness/root", "%v", err)
		}
		if pb, err = mb.Root(); err != nil {
			return res, pbt.Fail("harness/root", "%v", err)
		}
	}
	capsB := c.CapsB
	if c.SameMsg {
		capsB = c.CapsA
	}
	unspecCap := false
	sameCap := func(i, j uint32) bool {
		if c.SameMsg && i == j {
			return true
		}
		if int(i) >= len(c.CapsA) || int(j) >= len(capsB) {
			if !c.SameMsg {
				unspecCap = true // both clients nil across messages: documentation silent
			}
			return false
		}
		x, y := c.CapsA[i], capsB[j]
		if x < 0 || y < 0 {
			unspecCap = true
			return false
		}
		return x == y
	}
	want := ref.Equal(a, b, sameCap)
	if unspecCap {
		want = ref.Unspecified
	}
	res.Class("mode:%s", c.Mode)
	res.Class("expect:%v", want)
	res.Class("same-message:%v", c.SameMsg)
	if c.Desc != "" {
		res.Class("mutation:%s", c.Desc)
	}
	kinds(a, &res, "a")
	res.Class("list-padding-dirty:%v", c.PlanA.PadFill != 0 || c.PlanB.PadFill != 0)
	res.Nontrivial = want != ref.Unspecified && ((c.Mode == "layout" && want == ref.IsEqual) || (c.Mode == "mutant" && want == ref.NotEqual))

	got, err := capnp.Equal(pa, pb)
	if err != nil {
		return res, pbt.Fail("equal-error", "Equal returned error %v on valid inputs", err)
	}
	rev, err := capnp.Equal(pb, pa)
	if err != nil {
		return res, pbt.Fail("equal-error", "Equal returned error %v on valid inputs", err)
	}
	if got != rev {
		return res, pbt.Fail("not-symmetric", "Equal(a,b)=%v but Equal(b,a)=%v\na=%v\nb=%v", got, rev, clip(a), clip(b))
	}
	for _, p := range []capnp.Ptr{pa, pb} {
		if r, err := capnp.Equal(p, p); err != nil || !r {
			return res, pbt.Fail("not-reflexive", "Equal(x,x)=%v,%v", r, err)
		}
	}
	if want == ref.Unspecified {
		return res, nil
	}
	if got != (want == ref.IsEqual) {
		return res, pbt.Fail(fmt.Sprintf("wrong-verdict/%s/want-%v", diffKind(a, b), want), "Equal=%v, documented rules say %v (mode %s %s)\na=%v\nb=%v", got, want, c.Mode, c.Desc, clip(a), clip(b))
	}
	return res, nil
}

// diffKind names the first kind of thing in which a and b differ structurally (for signatures).
func diffKind(a, b ref.Value) string {
	if a.Kind != b.Kind {
		return fmt.Sprintf("kind%d-vs-kind%d", a.Kind, b.Kind)
	}
	switch a.Kind {
	case ref.KStruct:
		n := len(a.Ptrs)
		if len(b.Ptrs) < n {
			n = len(b.Ptrs)
		}
		for i := 0; i < n; i++ {
			if ref.Equal(a.Ptrs[i], b.Ptrs[i], nil) != ref.IsEqual {
				return "struct." + diffKind(a.Ptrs[i], b.Ptrs[i])
			}
		}
		return "struct"
	case ref.KList:
		if a.LK != b.LK {
			return fmt.Sprintf("list%d-vs-list%d", a.LK, b.LK)
		}
		if (a.LK == ref.LPtr || a.LK == ref.LComposite) && a.N == b.N {
			for i := range a.Elems {
				if ref.Equal(a.Elems[i], b.Elems[i], nil) != ref.IsEqual {
					return fmt.Sprintf("list%d.", a.LK) + diffKind(a.Elems[i], b.Elems[i])
				}
			}
		}
		return fmt.Sprintf("list%d", a.LK)
	case ref.KCap:
		return "cap"
	}
	return "null"
}

func kinds(v ref.Value, res *pbt.Result, side string) {
	seen := map[string]bool{}
	var rec func(v ref.Value)
	rec = func(v ref.Value) {
		if v.Kind == ref.KList {
			k := fmt.Sprintf("has:list%d", v.LK)
			if !seen[k] {
				seen[k] = true
				res.Class(k)
			}
		}
		for _, p := range v.Ptrs {
			rec(p)
		}
		for _, e := range v.Elems {
			rec(e)
		}
	}
	rec(v)
}

func clip(v ref.Value) string {
	s := v.String()
	if len(s) > 1200 {
		s = s[:1200] + "…"
	}
	return s
}

func genCase(t *rapid.T) Case {
	c := Case{}
	opts := gen.TreeOpts{MaxDepth: rapid.IntRange(0, 3).Draw(t, "depth"), Caps: true, MaxCap: 4}
	a := gen.ValueTree(t, opts)
	switch rapid.IntRange(0, 5).Draw(t, "mode") {
	case 0, 1:
		c.Mode = "layout"
		c.AJ, c.BJ = a, gen.Relayout(t, a, true)
	case 2, 3, 4:
		c.Mode = "mutant"
		m, desc, ok := gen.MutateOne(t, a)
		if !ok {
			c.Mode = "layout"
			m = a
		}
		c.Desc = desc
		c.AJ, c.BJ = a, gen.Relayout(t, m, rapid.Bool().Draw(t, "upgrade"))
	default:
		c.Mode = "independent"
		c.AJ, c.BJ = a, gen.ValueTree(t, opts)
	}
	if rapid.Bool().Draw(t, "swap") {
		c.AJ, c.BJ = c.BJ, c.AJ
	}
	c.PlanA, c.PlanB = gen.Plan(t, 3), gen.Plan(t, 3)
	// a quarter of the pairs: the padding of bit/primitive lists (unused bits of the last
	// byte, bytes up to the word boundary) is not zero, differently on the two sides
	if rapid.IntRange(0, 3).Draw(t, "padfill") == 0 {
		c.PlanA.PadFill = byte(rapid.SampledFrom([]int{0, 0xff, 0xa5, 0xf0}).Draw(t, "padA"))
		c.PlanB.PadFill = byte(rapid.SampledFrom([]int{0, 0xff, 0x5a, 0x80}).Draw(t, "padB"))
	}
	c.SameMsg = rapid.IntRange(0, 2).Draw(t, "samemsg") == 0
	caps := func(label string) []int {
		return rapid.SliceOfN(rapid.IntRange(-1, 2), 0, 6).Draw(t, label)
	}
	c.CapsA = caps("capsA")
	if rapid.Bool().Draw(t, "sametable") {
		c.CapsB = append([]int(nil), c.CapsA...)
	} else {
		c.CapsB = caps("capsB")
	}
	return c
}

var _ = pbt.Register(pbt.Spec[Case]{
	Property: "C17", Name: "equal",
	Rule:     "pairs of value trees: (layout) one value and a re-expression of it - trailing zero data words/null pointers added to structs and struct-list elements, non-empty primitive/pointer/void lists upgraded to struct lists holding the value as first field - in independently drawn encodings (segments, far/double-far); (mutant) a value and a copy with exactly one change (one data bit, one list element bit, one length, null<->empty struct, struct/list->null, extra non-zero word, capability index), possibly re-expressed; (independent) two random values; capability tables with drawn client identities, nil entries and short tables, same or different message. Oracle: ref.Equal = the doc comment of capnp.Equal, asserted as iff where the documentation decides the pair (zero-length lists of different kinds, void-vs-bit, bit-vs-struct lists, nil clients across messages are 'unspecified' and only checked for symmetry/no error); plus symmetry and reflexivity. Non-trivial: layout pair expected equal, or one-change mutant expected unequal.",
	Quick:    60000, Thorough: 900000,
	Gen:      genCase,
	Run:      run,
})
