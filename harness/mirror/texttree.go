package mirror

import (
	"bytes"
	"fmt"
	"math"
	"strconv"

	air "capnproto.org/go/capnp/v3/internal/aircraftlib"
	"capnproto.org/go/capnp/v3/verifharness/ref"
)

// Expected text trees for the mirror types: what the text form must show for
// a given set of field values (names and order per the schema's code order).

// XV is an expected value.
type XV struct {
	Kind   byte // 's','l','q' as ref.TV; 'i' int64, 'u' uint64, 'f' float64 (Bits32 for float32), 'b' bool, 'v' void, 'e' enum, 'm' marker
	Names  []string
	Fields []XV
	Str    []byte
	I      int64
	U      uint64
	F      float64
	F32    bool
	B      bool
	Enum   uint16
	EnumNames []string
	Marker string
}

func xs(names []string, fields ...XV) XV { return XV{Kind: 's', Names: names, Fields: fields} }
func xq(b []byte) XV                     { return XV{Kind: 'q', Str: b} }
func xi(v int64) XV                      { return XV{Kind: 'i', I: v} }
func xu(v uint64) XV                     { return XV{Kind: 'u', U: v} }
func xf(v float64) XV                    { return XV{Kind: 'f', F: v} }
func xf32(v float32) XV                  { return XV{Kind: 'f', F: float64(v), F32: true} }
func xb(v bool) XV                       { return XV{Kind: 'b', B: v} }

var airportNames = []string{"none", "jfk", "lax", "sfo", "luv", "dfw", "test"}

func xairport(a air.Airport) XV { return XV{Kind: 'e', Enum: uint16(a), EnumNames: airportNames} }

func PlaneBaseTree(p *PlaneBase) XV {
	if p == nil {
		p = &PlaneBase{}
	}
	homes := XV{Kind: 'l'}
	for _, h := range p.Homes {
		homes.Fields = append(homes.Fields, xairport(h))
	}
	return xs([]string{"name", "homes", "rating", "canFly", "capacity", "maxSpeed"},
		xq([]byte(p.Name)), homes, xi(p.Rating), xb(p.CanFly), xi(p.Capacity), xf(p.MaxSpeed))
}

func baseHolder(b *PlaneBase) XV { return xs([]string{"base"}, PlaneBaseTree(b)) }

func AircraftTree(a *Aircraft) XV {
	if a == nil {
		a = &Aircraft{}
	}
	switch a.Which {
	case air.Aircraft_Which_b737:
		var b *PlaneBase
		if a.B737 != nil {
			b = a.B737.Base
		}
		return xs([]string{"b737"}, baseHolder(b))
	case air.Aircraft_Which_a320:
		var b *PlaneBase
		if a.A320 != nil {
			b = a.A320.Base
		}
		return xs([]string{"a320"}, baseHolder(b))
	case air.Aircraft_Which_f16:
		var b *PlaneBase
		if a.F16 != nil {
			b = a.F16.Base
		}
		return xs([]string{"f16"}, baseHolder(b))
	}
	return xs([]string{"void"}, XV{Kind: 'v'})
}

func zdateTree(d Zdate) XV {
	return xs([]string{"year", "month", "day"}, xi(int64(d.Year)), xu(uint64(d.Month)), xu(uint64(d.Day)))
}

func list(n int, f func(i int) XV) XV {
	l := XV{Kind: 'l'}
	for i := 0; i < n; i++ {
		l.Fields = append(l.Fields, f(i))
	}
	return l
}

// ZTree is the expected text tree of a Z value.
func ZTree(z *Z) XV {
	if z == nil {
		z = &Z{}
	}
	one := func(name string, v XV) XV { return xs([]string{name}, v) }
	switch z.Which {
	case air.Z_Which_void:
		return one("void", XV{Kind: 'v'})
	case air.Z_Which_zz:
		return one("zz", ZTree(z.Zz))
	case air.Z_Which_f64:
		return one("f64", xf(z.F64))
	case air.Z_Which_f32:
		return one("f32", xf32(z.F32))
	case air.Z_Which_i64:
		return one("i64", xi(z.I64))
	case air.Z_Which_i32:
		return one("i32", xi(int64(z.I32)))
	case air.Z_Which_i16:
		return one("i16", xi(int64(z.I16)))
	case air.Z_Which_i8:
		return one("i8", xi(int64(z.I8)))
	case air.Z_Which_u64:
		return one("u64", xu(z.U64))
	case air.Z_Which_u32:
		return one("u32", xu(uint64(z.U32)))
	case air.Z_Which_u16:
		return one("u16", xu(uint64(z.U16)))
	case air.Z_Which_u8:
		return one("u8", xu(uint64(z.U8)))
	case air.Z_Which_bool:
		return one("bool", xb(z.Bool))
	case air.Z_Which_text:
		return one("text", xq([]byte(z.Text)))
	case air.Z_Which_blob:
		return one("blob", xq(z.Blob))
	case air.Z_Which_f64vec:
		return one("f64vec", list(len(z.F64vec), func(i int) XV { return xf(z.F64vec[i]) }))
	case air.Z_Which_f32vec:
		return one("f32vec", list(len(z.F32vec), func(i int) XV { return xf32(z.F32vec[i]) }))
	case air.Z_Which_i64vec:
		return one("i64vec", list(len(z.I64vec), func(i int) XV { return xi(z.I64vec[i]) }))
	case air.Z_Which_i32vec:
		return one("i32vec", list(len(z.I32vec), func(i int) XV { return xi(int64(z.I32vec[i])) }))
	case air.Z_Which_i16vec:
		return one("i16vec", list(len(z.I16vec), func(i int) XV { return xi(int64(z.I16vec[i])) }))
	case air.Z_Which_i8vec:
		return one("i8vec", list(len(z.I8vec), func(i int) XV { return xi(int64(z.I8vec[i])) }))
	case air.Z_Which_u64vec:
		return one("u64vec", list(len(z.U64vec), func(i int) XV { return xu(z.U64vec[i]) }))
	case air.Z_Which_u32vec:
		return one("u32vec", list(len(z.U32vec), func(i int) XV { return xu(uint64(z.U32vec[i])) }))
	case air.Z_Which_u16vec:
		return one("u16vec", list(len(z.U16vec), func(i int) XV { return xu(uint64(z.U16vec[i])) }))
	case air.Z_Which_u8vec:
		return one("u8vec", list(len(z.U8vec), func(i int) XV { return xu(uint64(z.U8vec[i])) }))
	case air.Z_Which_boolvec:
		return one("boolvec", list(len(z.Boolvec), func(i int) XV { return xb(z.Boolvec[i]) }))
	case air.Z_Which_datavec:
		return one("datavec", list(len(z.Datavec), func(i int) XV { return xq(z.Datavec[i]) }))
	case air.Z_Which_textvec:
		return one("textvec", list(len(z.Textvec), func(i int) XV { return xq([]byte(z.Textvec[i])) }))
	case air.Z_Which_zvec:
		return one("zvec", list(len(z.Zvec), func(i int) XV { return ZTree(z.Zvec[i]) }))
	case air.Z_Which_zvecvec:
		return one("zvecvec", list(len(z.Zvecvec), func(i int) XV {
			row := z.Zvecvec[i]
			return list(len(row), func(j int) XV { return ZTree(row[j]) })
		}))
	case air.Z_Which_zdate:
		d := Zdate{}
		if z.Zdate != nil {
			d = *z.Zdate
		}
		return one("zdate", zdateTree(d))
	case air.Z_Which_zdata:
		var b []byte
		if z.Zdata != nil {
			b = z.Zdata.Data
		}
		return one("zdata", xs([]string{"data"}, xq(b)))
	case air.Z_Which_aircraftvec:
		return one("aircraftvec", list(len(z.Aircraftvec), func(i int) XV { return AircraftTree(&z.Aircraftvec[i]) }))
	case air.Z_Which_aircraft:
		return one("aircraft", AircraftTree(z.Aircraft))
	case air.Z_Which_regression:
		r := z.Regression
		if r == nil {
			r = &Regression{}
		}
		return one("regression", xs([]string{"base", "b0", "beta", "planes", "ymu", "ysd"},
			PlaneBaseTree(r.Base), xf(r.B0),
			list(len(r.Beta), func(i int) XV { return xf(r.Beta[i]) }),
			list(len(r.Planes), func(i int) XV { return AircraftTree(&r.Planes[i]) }),
			xf(r.Ymu), xf(r.Ysd)))
	case air.Z_Which_planebase:
		return one("planebase", PlaneBaseTree(z.Planebase))
	case air.Z_Which_airport:
		return one("airport", xairport(z.Airport))
	case air.Z_Which_b737:
		var b *PlaneBase
		if z.B737 != nil {
			b = z.B737.Base
		}
		return one("b737", baseHolder(b))
	case air.Z_Which_a320:
		var b *PlaneBase
		if z.A320 != nil {
			b = z.A320.Base
		}
		return one("a320", baseHolder(b))
	case air.Z_Which_f16:
		var b *PlaneBase
		if z.F16 != nil {
			b = z.F16.Base
		}
		return one("f16", baseHolder(b))
	case air.Z_Which_zdatevec:
		return one("zdatevec", list(len(z.Zdatevec), func(i int) XV { return zdateTree(z.Zdatevec[i]) }))
	case air.Z_Which_zdatavec:
		return one("zdatavec", list(len(z.Zdatavec), func(i int) XV { return xs([]string{"data"}, xq(z.Zdatavec[i].Data)) }))
	case air.Z_Which_grp:
		g := z.Grp
		if g == nil {
			g = &ZGroup{}
		}
		return one("grp", xs([]string{"first", "second"}, xu(g.First), xu(g.Second)))
	}
	return XV{Kind: 'm', Marker: "?"}
}

// Match checks that the parsed text value shows exactly the expected values.
func Match(got ref.TV, want XV, path string) error {
	switch want.Kind {
	case 's':
		if got.Kind != 's' {
			return fmt.Errorf("%s: expected a struct value, text shows kind %c", path, got.Kind)
		}
		if len(got.Names) != len(want.Names) {
			return fmt.Errorf("%s: text shows fields %v, expected %v", path, got.Names, want.Names)
		}
		for i := range want.Names {
			if got.Names[i] != want.Names[i] {
				return fmt.Errorf("%s: text shows field %q where %q is expected", path, got.Names[i], want.Names[i])
			}
			if err := Match(got.Fields[i], want.Fields[i], path+"."+want.Names[i]); err != nil {
				return err
			}
		}
	case 'l':
		if got.Kind != 'l' {
			return fmt.Errorf("%s: expected a list, text shows kind %c", path, got.Kind)
		}
		if len(got.Fields) != len(want.Fields) {
			return fmt.Errorf("%s: text shows %d elements, expected %d", path, len(got.Fields), len(want.Fields))
		}
		for i := range want.Fields {
			if err := Match(got.Fields[i], want.Fields[i], fmt.Sprintf("%s[%d]", path, i)); err != nil {
				return err
			}
		}
	case 'q':
		if got.Kind != 'q' {
			return fmt.Errorf("%s: expected a string literal, text shows kind %c (%q)", path, got.Kind, got.Atom)
		}
		if !bytes.Equal(got.Str, want.Str) {
			return fmt.Errorf("%s: string literal decodes to %q, field value is %q", path, got.Str, want.Str)
		}
	case 'i':
		v, err := strconv.ParseInt(got.Atom, 10, 64)
		if got.Kind != 'a' || err != nil || v != want.I {
			return fmt.Errorf("%s: text shows %q, field value is %d", path, got.Atom, want.I)
		}
	case 'u':
		v, err := strconv.ParseUint(got.Atom, 10, 64)
		if got.Kind != 'a' || err != nil || v != want.U {
			return fmt.Errorf("%s: text shows %q, field value is %d", path, got.Atom, want.U)
		}
	case 'f':
		if got.Kind != 'a' {
			return fmt.Errorf("%s: expected a number, text shows kind %c", path, got.Kind)
		}
		bits := 64
		if want.F32 {
			bits = 32
		}
		v, err := strconv.ParseFloat(got.Atom, bits)
		if err != nil {
			return fmt.Errorf("%s: text shows %q which is not a float (field value %v)", path, got.Atom, want.F)
		}
		if math.IsNaN(want.F) {
			if !math.IsNaN(v) {
				return fmt.Errorf("%s: text shows %q, field value is NaN", path, got.Atom)
			}
			return nil
		}
		if want.F32 {
			if math.Float32bits(float32(v)) != math.Float32bits(float32(want.F)) {
				return fmt.Errorf("%s: text shows %q, float32 field value is %v", path, got.Atom, float32(want.F))
			}
		} else if math.Float64bits(v) != math.Float64bits(want.F) {
			return fmt.Errorf("%s: text shows %q, float64 field value is %v", path, got.Atom, want.F)
		}
	case 'b':
		if got.Kind != 'a' || (got.Atom != "true" && got.Atom != "false") || (got.Atom == "true") != want.B {
			return fmt.Errorf("%s: text shows %q, field value is %v", path, got.Atom, want.B)
		}
	case 'v':
		if got.Kind != 'a' || got.Atom != "void" {
			return fmt.Errorf("%s: text shows %q, expected void", path, got.Atom)
		}
	case 'e':
		if got.Kind != 'a' {
			return fmt.Errorf("%s: expected an enumerant, text shows kind %c", path, got.Kind)
		}
		if int(want.Enum) < len(want.EnumNames) {
			if got.Atom != want.EnumNames[want.Enum] {
				return fmt.Errorf("%s: text shows %q, enum value is %d (%s)", path, got.Atom, want.Enum, want.EnumNames[want.Enum])
			}
		} else if v, err := strconv.ParseUint(got.Atom, 10, 16); err != nil || uint16(v) != want.Enum {
			return fmt.Errorf("%s: text shows %q, enum value is %d (out of range)", path, got.Atom, want.Enum)
		}
	}
	return nil
}
