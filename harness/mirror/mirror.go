// Package mirror defines Go struct types mapped (pogs) to the aircraftlib
// schema and rapid generators for their values.
package mirror

import (
	"math"

	capnp "capnproto.org/go/capnp/v3"
	air "capnproto.org/go/capnp/v3/internal/aircraftlib"
	"pgregory.net/rapid"
)

type Zdate struct {
	Year  int16
	Month uint8
	Day   uint8
}

type Zdata struct {
	Data []byte
}

type PlaneBase struct {
	Name     string
	Homes    []air.Airport
	Rating   int64
	CanFly   bool
	Capacity int64
	MaxSpeed float64
}

type B737 struct{ Base *PlaneBase }
type A320 struct{ Base *PlaneBase }
type F16 struct{ Base *PlaneBase }

type Aircraft struct {
	Which air.Aircraft_Which
	B737  *B737
	A320  *A320
	F16   *F16
}

type Regression struct {
	Base   *PlaneBase
	B0     float64
	Beta   []float64
	Planes []Aircraft
	Ymu    float64
	Ysd    float64
}

type ZGroup struct {
	First  uint64
	Second uint64
}

// Z mirrors every member of aircraftlib.Z.
type Z struct {
	Which air.Z_Which

	Zz *Z

	F64 float64
	F32 float32
	I64 int64
	I32 int32
	I16 int16
	I8  int8
	U64 uint64
	U32 uint32
	U16 uint16
	U8  uint8

	Bool bool
	Text string
	Blob []byte

	F64vec []float64
	F32vec []float32
	I64vec []int64
	I32vec []int32
	I16vec []int16
	I8vec  []int8
	U64vec []uint64
	U32vec []uint32
	U16vec []uint16
	U8vec  []uint8

	Boolvec []bool
	Datavec [][]byte
	Textvec []string

	Zvec    []*Z
	Zvecvec [][]*Z

	Zdate *Zdate
	Zdata *Zdata

	Aircraftvec []Aircraft
	Aircraft    *Aircraft
	Regression  *Regression
	Planebase   *PlaneBase
	Airport     air.Airport
	B737        *B737
	A320        *A320
	F16         *F16
	Zdatevec    []Zdate
	Zdatavec    []Zdata

	Grp *ZGroup

	Echo   air.Echo
	Echoes []air.Echo

	AnyPtr        capnp.Ptr
	AnyStruct     capnp.Struct
	AnyList       capnp.List
	AnyCapability *capnp.Client
}

// ---- generators ---------------------------------------------------------------

// Bytes draws a byte string with an emphasis on bytes that need escaping.
func Bytes(t Src, label string, max int) []byte {
	n := t.Int(0, max)
	b := make([]byte, n)
	for i := range b {
		switch t.Int(0, 5) {
		case 0:
			b[i] = byte(pickInt(t, []int{'"', '\\', '\'', 0, '\n', '\t', '\r', 0x7f, 0x80, 0xff, '\a', '\b', '\f', '\v', 0x1b, 0xc3, '(', ')', ',', '=', '[', ']', ' '}))
		case 1:
			b[i] = byte(t.Int(0, 255))
		default:
			b[i] = byte(t.Int(32, 126))
		}
	}
	return b
}

func f64(t Src) float64 {
	switch t.Int(0, 9) {
	case 0:
		return math.NaN()
	case 1:
		return math.Inf(1)
	case 2:
		return math.Inf(-1)
	case 3:
		return 0
	case 4:
		return math.Copysign(0, -1)
	case 5:
		return math.MaxFloat64
	case 6:
		return math.SmallestNonzeroFloat64
	default:
		return math.Float64frombits(t.U64())
	}
}

func f32(t Src) float32 {
	switch t.Int(0, 7) {
	case 0:
		return float32(math.NaN())
	case 1:
		return float32(math.Inf(1))
	case 2:
		return float32(math.Inf(-1))
	case 3:
		return 0
	case 4:
		return math.MaxFloat32
	default:
		return math.Float32frombits(uint32(t.U64()))
	}
}

func i64(t Src) int64 {
	switch t.Int(0, 5) {
	case 0:
		return math.MinInt64
	case 1:
		return math.MaxInt64
	case 2:
		return 0
	case 3:
		return -1
	default:
		return int64(t.U64())
	}
}

func u64(t Src) uint64 {
	switch t.Int(0, 4) {
	case 0:
		return math.MaxUint64
	case 1:
		return 0
	default:
		return t.U64()
	}
}

func sliceLen(t Src) int { return t.Int(0, 4) }

func GenPlaneBase(t Src) *PlaneBase {
	if t.Int(0, 5) == 0 {
		return nil
	}
	pb := &PlaneBase{Name: string(Bytes(t, "pbname", 8)), Rating: i64(t), CanFly: (t.Int(0, 1) == 1), Capacity: i64(t), MaxSpeed: f64(t)}
	n := sliceLen(t)
	for i := 0; i < n; i++ {
		pb.Homes = append(pb.Homes, air.Airport(t.Int(0, 9)))
	}
	return pb
}

func GenAircraft(t Src) Aircraft {
	a := Aircraft{Which: air.Aircraft_Which(t.Int(0, 3))}
	switch a.Which {
	case air.Aircraft_Which_b737:
		a.B737 = &B737{Base: GenPlaneBase(t)}
	case air.Aircraft_Which_a320:
		a.A320 = &A320{Base: GenPlaneBase(t)}
	case air.Aircraft_Which_f16:
		a.F16 = &F16{Base: GenPlaneBase(t)}
	}
	return a
}

// GenZ draws a Z value; only the active union member is populated (pogs
// ignores the others by contract, which C19 checks separately).
func GenZ(t Src, depth int) *Z {
	which := t.Int(0, 45) // capability/anyPointer members (46..49) are handled by dedicated cases
	if depth <= 0 && (which == 1 || which == 25 || which == 26) {
		which = 13
	}
	z := &Z{Which: air.Z_Which(which)}
	switch z.Which {
	case air.Z_Which_zz:
		z.Zz = GenZ(t, depth-1)
	case air.Z_Which_f64:
		z.F64 = f64(t)
	case air.Z_Which_f32:
		z.F32 = f32(t)
	case air.Z_Which_i64:
		z.I64 = i64(t)
	case air.Z_Which_i32:
		z.I32 = int32(i64(t))
	case air.Z_Which_i16:
		z.I16 = int16(i64(t))
	case air.Z_Which_i8:
		z.I8 = int8(i64(t))
	case air.Z_Which_u64:
		z.U64 = u64(t)
	case air.Z_Which_u32:
		z.U32 = uint32(u64(t))
	case air.Z_Which_u16:
		z.U16 = uint16(u64(t))
	case air.Z_Which_u8:
		z.U8 = uint8(u64(t))
	case air.Z_Which_bool:
		z.Bool = (t.Int(0, 1) == 1)
	case air.Z_Which_text:
		z.Text = string(Bytes(t, "ztext", 24))
	case air.Z_Which_blob:
		z.Blob = Bytes(t, "zblob", 24)
	case air.Z_Which_f64vec:
		for i, n := 0, sliceLen(t); i < n; i++ {
			z.F64vec = append(z.F64vec, f64(t))
		}
	case air.Z_Which_f32vec:
		for i, n := 0, sliceLen(t); i < n; i++ {
			z.F32vec = append(z.F32vec, f32(t))
		}
	case air.Z_Which_i64vec:
		for i, n := 0, sliceLen(t); i < n; i++ {
			z.I64vec = append(z.I64vec, i64(t))
		}
	case air.Z_Which_i32vec:
		for i, n := 0, sliceLen(t); i < n; i++ {
			z.I32vec = append(z.I32vec, int32(i64(t)))
		}
	case air.Z_Which_i16vec:
		for i, n := 0, sliceLen(t); i < n; i++ {
			z.I16vec = append(z.I16vec, int16(i64(t)))
		}
	case air.Z_Which_i8vec:
		for i, n := 0, sliceLen(t); i < n; i++ {
			z.I8vec = append(z.I8vec, int8(i64(t)))
		}
	case air.Z_Which_u64vec:
		for i, n := 0, sliceLen(t); i < n; i++ {
			z.U64vec = append(z.U64vec, u64(t))
		}
	case air.Z_Which_u32vec:
		for i, n := 0, sliceLen(t); i < n; i++ {
			z.U32vec = append(z.U32vec, uint32(u64(t)))
		}
	case air.Z_Which_u16vec:
		for i, n := 0, sliceLen(t); i < n; i++ {
			z.U16vec = append(z.U16vec, uint16(u64(t)))
		}
	case air.Z_Which_u8vec:
		for i, n := 0, sliceLen(t); i < n; i++ {
			z.U8vec = append(z.U8vec, uint8(u64(t)))
		}
	case air.Z_Which_boolvec:
		for i, n := 0, t.Int(0, 19); i < n; i++ {
			z.Boolvec = append(z.Boolvec, (t.Int(0, 1) == 1))
		}
	case air.Z_Which_datavec:
		for i, n := 0, sliceLen(t); i < n; i++ {
			z.Datavec = append(z.Datavec, Bytes(t, "dv", 8))
		}
	case air.Z_Which_textvec:
		for i, n := 0, sliceLen(t); i < n; i++ {
			z.Textvec = append(z.Textvec, string(Bytes(t, "tv", 8)))
		}
	case air.Z_Which_zvec:
		for i, n := 0, t.Int(0, 3); i < n; i++ {
			z.Zvec = append(z.Zvec, GenZ(t, depth-1))
		}
	case air.Z_Which_zvecvec:
		for i, n := 0, t.Int(0, 2); i < n; i++ {
			var row []*Z
			for j, m := 0, t.Int(0, 2); j < m; j++ {
				row = append(row, GenZ(t, depth-1))
			}
			z.Zvecvec = append(z.Zvecvec, row)
		}
	case air.Z_Which_zdate:
		z.Zdate = &Zdate{Year: int16(i64(t)), Month: uint8(u64(t)), Day: uint8(u64(t))}
	case air.Z_Which_zdata:
		z.Zdata = &Zdata{Data: Bytes(t, "zd", 10)}
	case air.Z_Which_aircraftvec:
		for i, n := 0, sliceLen(t); i < n; i++ {
			z.Aircraftvec = append(z.Aircraftvec, GenAircraft(t))
		}
	case air.Z_Which_aircraft:
		a := GenAircraft(t)
		z.Aircraft = &a
	case air.Z_Which_regression:
		r := &Regression{Base: GenPlaneBase(t), B0: f64(t), Ymu: f64(t), Ysd: f64(t)}
		for i, n := 0, sliceLen(t); i < n; i++ {
			r.Beta = append(r.Beta, f64(t))
		}
		for i, n := 0, t.Int(0, 2); i < n; i++ {
			r.Planes = append(r.Planes, GenAircraft(t))
		}
		z.Regression = r
	case air.Z_Which_planebase:
		z.Planebase = GenPlaneBase(t)
	case air.Z_Which_airport:
		z.Airport = air.Airport(t.Int(0, 9))
	case air.Z_Which_b737:
		z.B737 = &B737{Base: GenPlaneBase(t)}
	case air.Z_Which_a320:
		z.A320 = &A320{Base: GenPlaneBase(t)}
	case air.Z_Which_f16:
		z.F16 = &F16{Base: GenPlaneBase(t)}
	case air.Z_Which_zdatevec:
		for i, n := 0, sliceLen(t); i < n; i++ {
			z.Zdatevec = append(z.Zdatevec, Zdate{Year: int16(i64(t)), Month: uint8(u64(t)), Day: uint8(u64(t))})
		}
	case air.Z_Which_zdatavec:
		for i, n := 0, sliceLen(t); i < n; i++ {
			z.Zdatavec = append(z.Zdatavec, Zdata{Data: Bytes(t, "zdv", 6)})
		}
	case air.Z_Which_grp:
		z.Grp = &ZGroup{First: u64(t), Second: u64(t)}
	}
	return z
}

// ---- sources of randomness ----------------------------------------------------
//
// The generators draw from a Src so that a generated Go value (which may hold
// NaNs, nil pointers, arbitrary bytes: not JSON-friendly) can be stored in a
// case as the "tape" of drawn numbers and rebuilt exactly on replay.

type Src interface {
	Int(lo, hi int) int
	U64() uint64
}

func pickInt(t Src, choices []int) int { return choices[t.Int(0, len(choices)-1)] }

// Rapid draws from rapid and records every draw.
type Rapid struct {
	T    *rapid.T
	Tape []uint64
}

func (r *Rapid) Int(lo, hi int) int {
	v := rapid.IntRange(lo, hi).Draw(r.T, "i")
	r.Tape = append(r.Tape, uint64(v-lo))
	return v
}

func (r *Rapid) U64() uint64 {
	v := rapid.Uint64().Draw(r.T, "u")
	r.Tape = append(r.Tape, v)
	return v
}

// Tape replays recorded draws (and yields the lowest value once exhausted).
type Tape struct {
	Vals []uint64
	pos  int
}

func (p *Tape) next() uint64 {
	if p.pos >= len(p.Vals) {
		return 0
	}
	v := p.Vals[p.pos]
	p.pos++
	return v
}

func (p *Tape) Int(lo, hi int) int {
	v := p.next()
	if span := uint64(hi - lo + 1); v >= span {
		v %= span
	}
	return lo + int(v)
}

func (p *Tape) U64() uint64 { return p.next() }
