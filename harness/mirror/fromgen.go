package mirror

import (
	air "capnproto.org/go/capnp/v3/internal/aircraftlib"
)

// FromGenerated reads a Z through the generated accessors only.
func FromGenerated(z air.Z) (*Z, error) {
	out := &Z{Which: z.Which()}
	var err error
	switch z.Which() {
	case air.Z_Which_zz:
		var c air.Z
		if c, err = z.Zz(); err != nil {
			return nil, err
		}
		if c.Struct.IsValid() {
			if out.Zz, err = FromGenerated(c); err != nil {
				return nil, err
			}
		}
	case air.Z_Which_f64:
		out.F64 = z.F64()
	case air.Z_Which_f32:
		out.F32 = z.F32()
	case air.Z_Which_i64:
		out.I64 = z.I64()
	case air.Z_Which_i32:
		out.I32 = z.I32()
	case air.Z_Which_i16:
		out.I16 = z.I16()
	case air.Z_Which_i8:
		out.I8 = z.I8()
	case air.Z_Which_u64:
		out.U64 = z.U64()
	case air.Z_Which_u32:
		out.U32 = z.U32()
	case air.Z_Which_u16:
		out.U16 = z.U16()
	case air.Z_Which_u8:
		out.U8 = z.U8()
	case air.Z_Which_bool:
		out.Bool = z.Bool()
	case air.Z_Which_text:
		b, e := z.TextBytes()
		if e != nil {
			return nil, e
		}
		out.Text = string(b)
	case air.Z_Which_blob:
		if out.Blob, err = z.Blob(); err != nil {
			return nil, err
		}
	case air.Z_Which_f64vec:
		l, e := z.F64vec()
		if e != nil {
			return nil, e
		}
		for i := 0; i < l.Len(); i++ {
			out.F64vec = append(out.F64vec, l.At(i))
		}
	case air.Z_Which_f32vec:
		l, e := z.F32vec()
		if e != nil {
			return nil, e
		}
		for i := 0; i < l.Len(); i++ {
			out.F32vec = append(out.F32vec, l.At(i))
		}
	case air.Z_Which_i64vec:
		l, e := z.I64vec()
		if e != nil {
			return nil, e
		}
		for i := 0; i < l.Len(); i++ {
			out.I64vec = append(out.I64vec, l.At(i))
		}
	case air.Z_Which_i32vec:
		l, e := z.I32vec()
		if e != nil {
			return nil, e
		}
		for i := 0; i < l.Len(); i++ {
			out.I32vec = append(out.I32vec, l.At(i))
		}
	case air.Z_Which_i16vec:
		l, e := z.I16vec()
		if e != nil {
			return nil, e
		}
		for i := 0; i < l.Len(); i++ {
			out.I16vec = append(out.I16vec, l.At(i))
		}
	case air.Z_Which_i8vec:
		l, e := z.I8vec()
		if e != nil {
			return nil, e
		}
		for i := 0; i < l.Len(); i++ {
			out.I8vec = append(out.I8vec, l.At(i))
		}
	case air.Z_Which_u64vec:
		l, e := z.U64vec()
		if e != nil {
			return nil, e
		}
		for i := 0; i < l.Len(); i++ {
			out.U64vec = append(out.U64vec, l.At(i))
		}
	case air.Z_Which_u32vec:
		l, e := z.U32vec()
		if e != nil {
			return nil, e
		}
		for i := 0; i < l.Len(); i++ {
			out.U32vec = append(out.U32vec, l.At(i))
		}
	case air.Z_Which_u16vec:
		l, e := z.U16vec()
		if e != nil {
			return nil, e
		}
		for i := 0; i < l.Len(); i++ {
			out.U16vec = append(out.U16vec, l.At(i))
		}
	case air.Z_Which_u8vec:
		l, e := z.U8vec()
		if e != nil {
			return nil, e
		}
		for i := 0; i < l.Len(); i++ {
			out.U8vec = append(out.U8vec, l.At(i))
		}
	case air.Z_Which_boolvec:
		l, e := z.Boolvec()
		if e != nil {
			return nil, e
		}
		for i := 0; i < l.Len(); i++ {
			out.Boolvec = append(out.Boolvec, l.At(i))
		}
	case air.Z_Which_datavec:
		l, e := z.Datavec()
		if e != nil {
			return nil, e
		}
		for i := 0; i < l.Len(); i++ {
			b, e := l.At(i)
			if e != nil {
				return nil, e
			}
			out.Datavec = append(out.Datavec, b)
		}
	case air.Z_Which_textvec:
		l, e := z.Textvec()
		if e != nil {
			return nil, e
		}
		for i := 0; i < l.Len(); i++ {
			b, e := l.BytesAt(i)
			if e != nil {
				return nil, e
			}
			out.Textvec = append(out.Textvec, string(b))
		}
	case air.Z_Which_zvec:
		l, e := z.Zvec()
		if e != nil {
			return nil, e
		}
		for i := 0; i < l.Len(); i++ {
			c, e := FromGenerated(l.At(i))
			if e != nil {
				return nil, e
			}
			out.Zvec = append(out.Zvec, c)
		}
	case air.Z_Which_zvecvec:
		l, e := z.Zvecvec()
		if e != nil {
			return nil, e
		}
		for i := 0; i < l.Len(); i++ {
			p, e := l.At(i)
			if e != nil {
				return nil, e
			}
			var row []*Z
			rl := air.Z_List{List: p.List()}
			for j := 0; j < rl.Len(); j++ {
				c, e := FromGenerated(rl.At(j))
				if e != nil {
					return nil, e
				}
				row = append(row, c)
			}
			out.Zvecvec = append(out.Zvecvec, row)
		}
	case air.Z_Which_zdate:
		d, e := z.Zdate()
		if e != nil {
			return nil, e
		}
		if d.Struct.IsValid() {
			out.Zdate = &Zdate{Year: d.Year(), Month: d.Month(), Day: d.Day()}
		}
	case air.Z_Which_zdata:
		d, e := z.Zdata()
		if e != nil {
			return nil, e
		}
		if d.Struct.IsValid() {
			b, e := d.Data()
			if e != nil {
				return nil, e
			}
			out.Zdata = &Zdata{Data: b}
		}
	case air.Z_Which_aircraftvec:
		l, e := z.Aircraftvec()
		if e != nil {
			return nil, e
		}
		for i := 0; i < l.Len(); i++ {
			a, e := aircraftFrom(l.At(i))
			if e != nil {
				return nil, e
			}
			out.Aircraftvec = append(out.Aircraftvec, a)
		}
	case air.Z_Which_aircraft:
		a, e := z.Aircraft()
		if e != nil {
			return nil, e
		}
		if a.Struct.IsValid() {
			v, e := aircraftFrom(a)
			if e != nil {
				return nil, e
			}
			out.Aircraft = &v
		}
	case air.Z_Which_regression:
		r, e := z.Regression()
		if e != nil {
			return nil, e
		}
		if r.Struct.IsValid() {
			rr := &Regression{B0: r.B0(), Ymu: r.Ymu(), Ysd: r.Ysd()}
			b, e := r.Base()
			if e != nil {
				return nil, e
			}
			if b.Struct.IsValid() {
				if rr.Base, e = planeBaseFrom(b); e != nil {
					return nil, e
				}
			}
			bl, e := r.Beta()
			if e != nil {
				return nil, e
			}
			for i := 0; i < bl.Len(); i++ {
				rr.Beta = append(rr.Beta, bl.At(i))
			}
			pl, e := r.Planes()
			if e != nil {
				return nil, e
			}
			for i := 0; i < pl.Len(); i++ {
				a, e := aircraftFrom(pl.At(i))
				if e != nil {
					return nil, e
				}
				rr.Planes = append(rr.Planes, a)
			}
			out.Regression = rr
		}
	case air.Z_Which_planebase:
		b, e := z.Planebase()
		if e != nil {
			return nil, e
		}
		if b.Struct.IsValid() {
			if out.Planebase, e = planeBaseFrom(b); e != nil {
				return nil, e
			}
		}
	case air.Z_Which_airport:
		out.Airport = z.Airport()
	case air.Z_Which_b737:
		b, e := z.B737()
		if e != nil {
			return nil, e
		}
		if b.Struct.IsValid() {
			out.B737 = &B737{}
			pb, e := b.Base()
			if e != nil {
				return nil, e
			}
			if pb.Struct.IsValid() {
				if out.B737.Base, e = planeBaseFrom(pb); e != nil {
					return nil, e
				}
			}
		}
	case air.Z_Which_a320:
		b, e := z.A320()
		if e != nil {
			return nil, e
		}
		if b.Struct.IsValid() {
			out.A320 = &A320{}
			pb, e := b.Base()
			if e != nil {
				return nil, e
			}
			if pb.Struct.IsValid() {
				if out.A320.Base, e = planeBaseFrom(pb); e != nil {
					return nil, e
				}
			}
		}
	case air.Z_Which_f16:
		b, e := z.F16()
		if e != nil {
			return nil, e
		}
		if b.Struct.IsValid() {
			out.F16 = &F16{}
			pb, e := b.Base()
			if e != nil {
				return nil, e
			}
			if pb.Struct.IsValid() {
				if out.F16.Base, e = planeBaseFrom(pb); e != nil {
					return nil, e
				}
			}
		}
	case air.Z_Which_zdatevec:
		l, e := z.Zdatevec()
		if e != nil {
			return nil, e
		}
		for i := 0; i < l.Len(); i++ {
			d := l.At(i)
			out.Zdatevec = append(out.Zdatevec, Zdate{Year: d.Year(), Month: d.Month(), Day: d.Day()})
		}
	case air.Z_Which_zdatavec:
		l, e := z.Zdatavec()
		if e != nil {
			return nil, e
		}
		for i := 0; i < l.Len(); i++ {
			b, e := l.At(i).Data()
			if e != nil {
				return nil, e
			}
			out.Zdatavec = append(out.Zdatavec, Zdata{Data: b})
		}
	case air.Z_Which_grp:
		out.Grp = &ZGroup{First: z.Grp().First(), Second: z.Grp().Second()}
	}
	return out, nil
}

func planeBaseFrom(b air.PlaneBase) (*PlaneBase, error) {
	nb, err := b.NameBytes()
	if err != nil {
		return nil, err
	}
	pb := &PlaneBase{Name: string(nb), Rating: b.Rating(), CanFly: b.CanFly(), Capacity: b.Capacity(), MaxSpeed: b.MaxSpeed()}
	h, err := b.Homes()
	if err != nil {
		return nil, err
	}
	for i := 0; i < h.Len(); i++ {
		pb.Homes = append(pb.Homes, h.At(i))
	}
	return pb, nil
}

func aircraftFrom(a air.Aircraft) (Aircraft, error) {
	out := Aircraft{Which: a.Which()}
	switch a.Which() {
	case air.Aircraft_Which_b737:
		b, err := a.B737()
		if err != nil {
			return out, err
		}
		if b.Struct.IsValid() {
			out.B737 = &B737{}
			pb, err := b.Base()
			if err != nil {
				return out, err
			}
			if pb.Struct.IsValid() {
				if out.B737.Base, err = planeBaseFrom(pb); err != nil {
					return out, err
				}
			}
		}
	case air.Aircraft_Which_a320:
		b, err := a.A320()
		if err != nil {
			return out, err
		}
		if b.Struct.IsValid() {
			out.A320 = &A320{}
			pb, err := b.Base()
			if err != nil {
				return out, err
			}
			if pb.Struct.IsValid() {
				if out.A320.Base, err = planeBaseFrom(pb); err != nil {
					return out, err
				}
			}
		}
	case air.Aircraft_Which_f16:
		b, err := a.F16()
		if err != nil {
			return out, err
		}
		if b.Struct.IsValid() {
			out.F16 = &F16{}
			pb, err := b.Base()
			if err != nil {
				return out, err
			}
			if pb.Struct.IsValid() {
				if out.F16.Base, err = planeBaseFrom(pb); err != nil {
					return out, err
				}
			}
		}
	}
	return out, nil
}
