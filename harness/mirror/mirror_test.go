package mirror

import (
	"testing"

	capnp "capnproto.org/go/capnp/v3"
	air "capnproto.org/go/capnp/v3/internal/aircraftlib"
	"capnproto.org/go/capnp/v3/pogs"
	"pgregory.net/rapid"
)

func TestInsertAccepted(t *testing.T) {
	rapid.Check(t, func(t *rapid.T) {
		z := GenZ(&Rapid{T: t}, 2)
		_, seg, _ := capnp.NewMessage(capnp.SingleSegment(nil))
		root, err := air.NewRootZ(seg)
		if err != nil {
			t.Fatal(err)
		}
		if err := pogs.Insert(air.Z_TypeID, root.Struct, z); err != nil {
			t.Fatalf("insert: %v (which %v)", err, z.Which)
		}
		var out Z
		if err := pogs.Extract(&out, air.Z_TypeID, root.Struct); err != nil {
			t.Fatalf("extract: %v", err)
		}
		if out.Which != z.Which {
			t.Fatalf("which %v != %v", out.Which, z.Which)
		}
	})
}
