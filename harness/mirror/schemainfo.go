package mirror

import (
	"fmt"

	capnp "capnproto.org/go/capnp/v3"
	"capnproto.org/go/capnp/v3/schemas"
	"capnproto.org/go/capnp/v3/std/capnp/schema"
)

// FieldRange is where a field lives in its struct according to the schema node.
type FieldRange struct {
	Name         string
	Disc         uint16 // 0xffff: not a union member
	IsPointer    bool
	PtrIndex     int
	BitOff, Bits int // data fields
	Group        uint64 // group type id (0 if slot)
}

// StructInfo is the layout of a struct node.
type StructInfo struct {
	DataWords, Pointers int
	DiscCount           int
	DiscBitOff          int
	Fields              []FieldRange
}

var typeBits = map[schema.Type_Which]int{
	schema.Type_Which_void: 0, schema.Type_Which_bool: 1,
	schema.Type_Which_int8: 8, schema.Type_Which_uint8: 8,
	schema.Type_Which_int16: 16, schema.Type_Which_uint16: 16, schema.Type_Which_enum: 16,
	schema.Type_Which_int32: 32, schema.Type_Which_uint32: 32, schema.Type_Which_float32: 32,
	schema.Type_Which_int64: 64, schema.Type_Which_uint64: 64, schema.Type_Which_float64: 64,
}

// LoadStruct reads the layout of struct node id from the registered schema.
func LoadStruct(id uint64) (*StructInfo, error) {
	data := schemas.Find(id)
	if data == nil {
		return nil, fmt.Errorf("schema %#x not registered", id)
	}
	msg, err := capnp.Unmarshal(data)
	if err != nil {
		return nil, err
	}
	msg.TraverseLimit = 1 << 40
	req, err := schema.ReadRootCodeGeneratorRequest(msg)
	if err != nil {
		return nil, err
	}
	nodes, err := req.Nodes()
	if err != nil {
		return nil, err
	}
	for i := 0; i < nodes.Len(); i++ {
		n := nodes.At(i)
		if n.Id() != id || n.Which() != schema.Node_Which_structNode {
			continue
		}
		sn := n.StructNode()
		info := &StructInfo{DataWords: int(sn.DataWordCount()), Pointers: int(sn.PointerCount()), DiscCount: int(sn.DiscriminantCount()), DiscBitOff: int(sn.DiscriminantOffset()) * 16}
		fields, err := sn.Fields()
		if err != nil {
			return nil, err
		}
		for j := 0; j < fields.Len(); j++ {
			f := fields.At(j)
			name, _ := f.Name()
			fr := FieldRange{Name: name, Disc: f.DiscriminantValue()}
			if f.Which() == schema.Field_Which_group {
				fr.Group = f.Group().TypeId()
			} else {
				typ, err := f.Slot().Type()
				if err != nil {
					return nil, err
				}
				if bits, ok := typeBits[typ.Which()]; ok {
					fr.Bits = bits
					fr.BitOff = int(f.Slot().Offset()) * bits
				} else {
					fr.IsPointer = true
					fr.PtrIndex = int(f.Slot().Offset())
				}
			}
			info.Fields = append(info.Fields, fr)
		}
		return info, nil
	}
	return nil, fmt.Errorf("struct node %#x not found", id)
}
