package c08

import (
	"context"
	"encoding/binary"
	"fmt"
	"os"
	"strings"
	"testing"
	"time"

	capnp "capnproto.org/go/capnp/v3"
	"capnproto.org/go/capnp/v3/rpc"
	rpccp "capnproto.org/go/capnp/v3/std/capnp/rpc"
	"capnproto.org/go/capnp/v3/verifharness/pbt"
	"capnproto.org/go/capnp/v3/verifharness/rpcsim"
	"pgregory.net/rapid"
)

func TestProp(t *testing.T)   { pbt.RunProps(t) }
func TestReplay(t *testing.T) { pbt.RunReplay(t) }

var deadline = func() time.Duration {
	if os.Getenv("VERIF_FAST_DEADLINE") != "" {
		return 2 * time.Second
	}
	return 30 * time.Second
}()

// Step of a hostile history.
type Step struct {
	K string `json:"k"` // ping | keep-ping | call | held-call | open | finish | app-bootstrap | app-call | hostile | corrupt
	// hostile message description
	H   string `json:"h,omitempty"`
	IDK int    `json:"idk,omitempty"` // which id to name: 0 fresh, 1 live, 2 finished/absent small, 3 0xffffffff
	Var int    `json:"var,omitempty"` // variant inside the kind
	N   uint32 `json:"n,omitempty"`   // counts etc.
	Mut []int  `json:"mut,omitempty"` // corrupt: (byte position, xor mask) pairs
	Cut int    `json:"cut,omitempty"`
}

type Case struct {
	NoBootstrap bool   `json:"no_bootstrap"`          // the Conn exposes no bootstrap capability
	NoReporter  bool   `json:"no_reporter,omitempty"` // the Conn is created without an ErrorReporter
	Steps       []Step `json:"steps"`
}

type errList struct{ errs []string }

func (e *errList) ReportError(err error) { e.errs = append(e.errs, err.Error()) }

type harness struct {
	c               Case
	w               *rpcsim.Wire
	world           *rpcsim.World
	conn            *rpc.Conn
	res             *pbt.Result
	nextQ           uint32   // fresh ids for hostile messages (small range)
	pingQ           uint32   // reserved range for pings/markers
	liveAnswers     []uint32 // answer ids the peer has open at the Conn (Return seen or not), not finished
	finishedAnswers []uint32
	exportID        int64 // export id of the bootstrap capability as told by a ping Return (-1 unknown)
	exportRefs      uint32
	connQuestions   []uint32 // question ids the Conn has open at the peer (Bootstrap/Call seen, not returned)
	appClients      []*capnp.Client
	appAnswers      []*capnp.Answer
	appReleases     []capnp.ReleaseFunc
	aborted         bool
	serial          uint64
	liveEntries     int
	answerCaps      map[uint32]uint32 // export references carried by the results of a live answer (released by Finish(releaseResultCaps))
	pendingAnswers  []uint32          // answers whose implementation is held (or that are queued behind such an answer): their Return comes later
}

// observe collects what the Conn sent until the echo of a marker comes back (alive) or the transport is closed (aborted).
func (h *harness) observe() (msgs []rpcsim.Msg, alive bool, err error) {
	tag := h.pingQ
	h.pingQ++
	if e := h.w.SendMarker(tag); e != nil {
		return nil, false, e
	}
	t0 := time.Now()
	for {
		m, ok := h.w.Next(deadline - time.Since(t0))
		if !ok {
			if closed, _ := h.w.Closed(); closed {
				return msgs, false, nil
			}
			return msgs, false, pbt.Fail("hang/no-answer-and-not-closed", "the connection neither processed the marker message nor closed the transport within %v (messages so far: %v)\n%s", deadline, msgs, pbt.Stacks("capnp/v3/rpc."))
		}
		if m.Which == "unimplemented" && m.Inner != nil && m.Inner.Which == "join" && m.Inner.ID == tag {
			return msgs, true, nil
		}
		h.track(m)
		msgs = append(msgs, m)
	}
}

// track updates the peer's view of the Conn's tables from a message the Conn sent.
func (h *harness) track(m rpcsim.Msg) {
	switch m.Which {
	case "bootstrap", "call":
		h.connQuestions = append(h.connQuestions, m.ID)
	case "return":
		for _, c := range m.Caps {
			if c.Kind == "senderHosted" {
				if h.exportID < 0 {
					h.exportID = int64(c.ID)
				}
				if int64(c.ID) == h.exportID {
					h.exportRefs++
				}
			}
		}
	case "finish":
		for i, q := range h.connQuestions {
			if q == m.ID {
				h.connQuestions = append(h.connQuestions[:i], h.connQuestions[i+1:]...)
				break
			}
		}
	}
}

func (h *harness) waitFor(pred func(rpcsim.Msg) bool, seen []rpcsim.Msg) (rpcsim.Msg, bool) {
	return h.waitForD(pred, seen, deadline)
}

func (h *harness) waitForD(pred func(rpcsim.Msg) bool, seen []rpcsim.Msg, deadline time.Duration) (rpcsim.Msg, bool) {
	for _, m := range seen {
		if pred(m) {
			return m, true
		}
	}
	t0 := time.Now()
	for time.Since(t0) < deadline {
		m, ok := h.w.Next(deadline - time.Since(t0))
		if !ok {
			return rpcsim.Msg{}, false
		}
		h.track(m)
		if pred(m) {
			return m, true
		}
	}
	return rpcsim.Msg{}, false
}

// ping checks that the connection still answers a fresh Bootstrap correctly.
func (h *harness) ping(keep bool) error {
	q := h.pingQ
	h.pingQ++
	if err := h.w.SendBootstrap(q); err != nil {
		return err
	}
	msgs, alive, err := h.observe()
	if err != nil {
		return err
	}
	if !alive {
		return h.checkAborted(msgs, "after a Bootstrap ping")
	}
	ret, ok := h.waitFor(func(m rpcsim.Msg) bool { return m.Which == "return" && m.ID == q }, msgs)
	if !ok {
		return pbt.Fail("ping-unanswered", "a fresh Bootstrap (question %d) was not answered although the connection is alive; got %v", q, msgs)
	}
	if h.c.NoBootstrap {
		if ret.RetKind != "exception" {
			return pbt.Fail("ping-wrong-return", "Bootstrap on a vat without bootstrap capability returned %v", ret)
		}
	} else if ret.RetKind != "results" || ret.ContentKind != "cap" || len(ret.Caps) != 1 || ret.Caps[0].Kind != "senderHosted" {
		return pbt.Fail("ping-wrong-return", "Bootstrap ping returned %v, want results with one senderHosted capability", ret)
	}
	if keep {
		if ret.RetKind == "results" {
			h.answerCaps[q] = 1
		}
		h.liveAnswers = append(h.liveAnswers, q)
		h.liveEntries++
		return nil
	}
	if err := h.w.SendFinish(q, true); err != nil {
		return err
	}
	if ret.RetKind == "results" && h.exportRefs > 0 {
		h.exportRefs-- // releaseResultCaps
	}
	h.finishedAnswers = append(h.finishedAnswers, q)
	return nil
}

// checkAborted: the peer saw at most an Abort and then the transport closed; the local side is shut down cleanly.
func (h *harness) checkAborted(msgs []rpcsim.Msg, when string) error {
	h.aborted = true
	aborts := 0
	for i, m := range msgs {
		if m.Which == "abort" {
			aborts++
			if i != len(msgs)-1 {
				return pbt.Fail("traffic-after-abort", "%s: the connection sent %v after its Abort", when, msgs[i+1:])
			}
		}
	}
	if aborts > 1 {
		return pbt.Fail("abort-twice", "%s: %d Abort messages", when, aborts)
	}
	select {
	case <-h.conn.Done():
	case <-time.After(deadline):
		return pbt.Fail("hang/done-not-closed", "%s: the transport was closed but Conn.Done() never closed\n%s", when, pbt.Stacks("capnp/v3/rpc."))
	}
	return nil
}

func (h *harness) pickID(idk int, live, finished []uint32) uint32 {
	switch idk % 4 {
	case 1:
		if len(live) > 0 {
			return live[len(live)-1]
		}
	case 2:
		if len(finished) > 0 {
			return finished[len(finished)-1]
		}
		return 77 // never used
	case 3:
		return 0xffffffff
	}
	h.nextQ++
	return 1000 + h.nextQ
}

func has(ids []uint32, id uint32) bool {
	for _, x := range ids {
		if x == id {
			return true
		}
	}
	return false
}

// hostile sends one offending message and checks that it is answered per protocol.
func (h *harness) hostile(s Step) error {
	var allowed map[string]bool
	var sentID uint32
	var desc string
	allow := func(ks ...string) {
		allowed = map[string]bool{}
		for _, k := range ks {
			allowed[k] = true
		}
	}
	push := func(f func(m rpccp.Message) error) error { return h.w.Push(f) }
	var err error
	switch s.H {
	case "bootstrap":
		sentID = h.pickID(s.IDK, h.liveAnswers, h.finishedAnswers)
		desc = fmt.Sprintf("Bootstrap(question %d)", sentID)
		if has(h.liveAnswers, sentID) {
			allow("abort")
		} else {
			allow("return")
			h.liveAnswers = append(h.liveAnswers, sentID)
			if !h.c.NoBootstrap {
				h.answerCaps[sentID] = 1
			}
		}
		err = h.w.SendBootstrap(sentID)
	case "call-import":
		sentID = h.pickID(s.IDK, h.liveAnswers, h.finishedAnswers)
		tgt := []uint32{0, 7, 0xffffffff, 1}[s.Var%4]
		if s.Var%4 == 0 && h.exportID >= 0 {
			tgt = uint32(h.exportID)
		}
		desc = fmt.Sprintf("Call(question %d, importedCap %d)", sentID, tgt)
		valid := h.exportID >= 0 && int64(tgt) == h.exportID && h.exportRefs > 0
		switch {
		case has(h.liveAnswers, sentID):
			allow("abort")
		case valid:
			allow("return")
			h.liveAnswers = append(h.liveAnswers, sentID)
		default:
			allow("abort")
		}
		h.serial++
		err = h.w.SendCall(rpcsim.PeerCall{Q: sentID, Target: rpcsim.Target{ID: tgt}, Serial: h.serial})
	case "call-answer":
		sentID = h.pickID(0, nil, nil)
		tq := h.pickID(s.IDK, h.liveAnswers, h.finishedAnswers)
		if s.Var%7 == 6 {
			tq = sentID // a call pipelined on its own answer
		}
		xf := [][]uint16{nil, {0}, {1}, {0, 0}, {300}}[s.Var%5]
		desc = fmt.Sprintf("Call(question %d, promisedAnswer %d %v)", sentID, tq, xf)
		if has(h.liveAnswers, tq) {
			allow("return")
			if has(h.pendingAnswers, tq) {
				allow("return", "silent") // queued behind an answer that has not returned yet
				h.pendingAnswers = append(h.pendingAnswers, sentID)
			}
			h.liveAnswers = append(h.liveAnswers, sentID)
		} else {
			allow("abort")
		}
		h.serial++
		err = h.w.SendCall(rpcsim.PeerCall{Q: sentID, Target: rpcsim.Target{Answer: true, ID: tq, Transform: xf}, Serial: h.serial})
	case "call-badcaps":
		// a Call to the bootstrap export whose params name capabilities that do not exist / are of unsupported kinds
		sentID = h.pickID(0, nil, nil)
		if h.exportID < 0 || h.exportRefs == 0 {
			return nil
		}
		kinds := [][]rpcsim.CapDesc{
			{{Kind: "receiverHosted", ID: 99}},
			{{Kind: "receiverHosted", ID: 0xffffffff}},
			{{Kind: "senderHosted", ID: 5}, {Kind: "receiverHosted", ID: 42}},
			{{Kind: "senderPromise", ID: 6}},
			{{Kind: "none"}},
			{{Kind: "receiverAnswer"}}, // left unset: written as "none"
		}
		caps := kinds[s.Var%len(kinds)]
		desc = fmt.Sprintf("Call(question %d, params caps %v)", sentID, caps)
		allow("return", "abort")
		h.liveAnswers = append(h.liveAnswers, sentID)
		h.serial++
		err = h.w.SendCall(rpcsim.PeerCall{Q: sentID, Target: rpcsim.Target{ID: uint32(h.exportID)}, Serial: h.serial, Caps: caps})
	case "call-rawtarget":
		// unknown MessageTarget union member / params that are not a struct / sendResultsTo != caller
		sentID = h.pickID(0, nil, nil)
		v := s.Var % 4
		desc = fmt.Sprintf("Call(question %d, malformed variant %d)", sentID, v)
		switch v {
		case 0:
			allow("return", "unimplemented", "abort")
		case 1, 2:
			allow("return", "abort")
		case 3:
			allow("unimplemented")
		}
		if v != 3 {
			h.liveAnswers = append(h.liveAnswers, sentID)
		}
		exp := uint32(0)
		if h.exportID >= 0 {
			exp = uint32(h.exportID)
		}
		err = push(func(m rpccp.Message) error {
			call, err := m.NewCall()
			if err != nil {
				return err
			}
			call.SetQuestionId(sentID)
			call.SetInterfaceId(rpcsim.Iface)
			call.SetMethodId(rpcsim.Method)
			t, err := call.NewTarget()
			if err != nil {
				return err
			}
			t.SetImportedCap(exp)
			p, err := call.NewParams()
			if err != nil {
				return err
			}
			switch v {
			case 0:
				t.Struct.SetUint16(4, 9) // union tag out of range
			case 1:
				l, _ := capnp.NewUInt8List(p.Segment(), 3)
				return p.SetContent(l.ToPtr())
			case 2:
				return p.SetContent(capnp.NewInterface(p.Segment(), 55).ToPtr()) // capability index outside the (empty) table
			case 3:
				call.SendResultsTo().SetYourself()
			}
			st, _ := capnp.NewStruct(p.Segment(), capnp.ObjectSize{DataSize: 16, PointerCount: 1})
			return p.SetContent(st.ToPtr())
		})
	case "return":
		sentID = h.pickID(s.IDK, h.connQuestions, nil)
		live := has(h.connQuestions, sentID)
		v := s.Var % 9
		desc = fmt.Sprintf("Return(answer %d, variant %d)", sentID, v)
		if live {
			allow("silent")
		} else {
			allow("abort")
		}
		err = push(func(m rpccp.Message) error {
			r, err := m.NewReturn()
			if err != nil {
				return err
			}
			r.SetAnswerId(sentID)
			switch v {
			case 0:
				e, _ := r.NewException()
				return e.SetReason("hostile")
			case 1:
				r.SetCanceled()
			case 2:
				r.SetResultsSentElsewhere()
			case 3:
				r.SetTakeFromOtherQuestion(12345)
			case 4:
				r.Struct.SetUint16(6, 17) // unknown union member
			case 6, 7:
				// results whose content pointer (6) / an exception whose reason pointer (7) leads out of the segment:
				// a pointer to a struct of a size nothing else in the message has is written, then its offset is bent
				var owner capnp.Struct
				if v == 6 {
					p, _ := r.NewResults()
					owner = p.Struct
				} else {
					e, _ := r.NewException()
					owner = e.Struct
				}
				mark, _ := capnp.NewStruct(owner.Segment(), capnp.ObjectSize{DataSize: 8, PointerCount: 5})
				owner.SetPtr(0, mark.ToPtr())
				data := owner.Segment().Data()
				for off := 0; off+8 <= len(data); off += 8 {
					if w := binary.LittleEndian.Uint64(data[off:]); w>>32 == 0x0005_0001 && w&3 == 0 {
						binary.LittleEndian.PutUint64(data[off:], 0x0005_0001_0000_0000|uint64(0x0ffffff0)<<2)
					}
				}
				if live {
					allow("silent", "abort")
				}
			case 8:
				p, _ := r.NewResults()
				l, _ := p.NewCapTable(1)
				pa, _ := l.At(0).NewReceiverAnswer()
				pa.SetQuestionId(0xfffffff0) // an answer that never existed
				p.SetContent(capnp.NewInterface(p.Segment(), 0).ToPtr())
				if live {
					allow("silent", "abort")
				}
			default:
				p, _ := r.NewResults()
				p.SetContent(capnp.NewInterface(p.Segment(), 9).ToPtr()) // cap index out of range
				l, _ := p.NewCapTable(2)
				l.At(0).SetReceiverHosted(4242) // non-existent export
				l.At(1).SetSenderHosted(3)
				if live {
					allow("silent", "abort")
				}
			}
			return nil
		})
	case "finish":
		sentID = h.pickID(s.IDK, h.liveAnswers, h.finishedAnswers)
		desc = fmt.Sprintf("Finish(question %d)", sentID)
		if has(h.liveAnswers, sentID) {
			allow("silent")
			for i, q := range h.liveAnswers {
				if q == sentID {
					h.liveAnswers = append(h.liveAnswers[:i], h.liveAnswers[i+1:]...)
					break
				}
			}
			h.finishedAnswers = append(h.finishedAnswers, sentID)
			if s.Var%2 == 0 {
				if n := h.answerCaps[sentID]; n > 0 && h.exportRefs >= n {
					h.exportRefs -= n
				} else if n > 0 {
					// the peer has already given these references back with Release: releasing them again through
					// the Finish is its protocol error, which the connection may answer with an Abort
					allow("abort")
				}
			}
			delete(h.answerCaps, sentID)
		} else {
			allow("abort")
		}
		err = h.w.SendFinish(sentID, s.Var%2 == 0)
	case "release":
		id := []uint32{0, 9, 0xffffffff}[s.IDK%3]
		if s.IDK%3 == 0 && h.exportID >= 0 {
			id = uint32(h.exportID)
		}
		n := []uint32{1, 0, 1000, 0xffffffff}[s.Var%4]
		desc = fmt.Sprintf("Release(export %d, count %d)", id, n)
		switch {
		case h.exportID >= 0 && int64(id) == h.exportID && h.exportRefs > 0 && n <= h.exportRefs:
			allow("silent")
			h.exportRefs -= n
		default:
			allow("abort")
		}
		err = h.w.SendRelease(id, n)
	case "disembargo":
		v := s.Var % 5
		tq := h.pickID(s.IDK, h.liveAnswers, h.finishedAnswers)
		desc = fmt.Sprintf("Disembargo(variant %d, id %d)", v, tq)
		switch v {
		case 0: // receiverLoopback for an embargo that does not exist
			allow("abort")
			err = h.w.SendDisembargo(rpcsim.Target{ID: 0}, "receiverLoopback", tq)
		case 1: // senderLoopback naming an import instead of an answer
			allow("abort")
			err = h.w.SendDisembargo(rpcsim.Target{ID: 3}, "senderLoopback", 1)
		case 2: // senderLoopback on an answer (absent, or whose result is not an import)
			allow("abort")
			err = h.w.SendDisembargo(rpcsim.Target{Answer: true, ID: tq, Transform: []uint16{0}}, "senderLoopback", 1)
		case 3:
			allow("unimplemented")
			err = h.w.SendDisembargo(rpcsim.Target{ID: 0}, "accept", 0)
		default:
			allow("unimplemented")
			err = h.w.SendDisembargo(rpcsim.Target{ID: 0}, "provide", 5)
		}
	case "level2":
		v := s.Var % 6
		names := []string{"resolve", "provide", "accept", "join", "obsoleteSave", "raw-tag"}
		desc = "message kind " + names[v]
		allow("unimplemented")
		err = push(func(m rpccp.Message) error {
			switch v {
			case 0:
				r, err := m.NewResolve()
				if err != nil {
					return err
				}
				r.SetPromiseId(3)
			case 1:
				p, err := m.NewProvide()
				if err != nil {
					return err
				}
				p.SetQuestionId(777)
			case 2:
				a, err := m.NewAccept()
				if err != nil {
					return err
				}
				a.SetQuestionId(778)
			case 3:
				j, err := m.NewJoin()
				if err != nil {
					return err
				}
				j.SetQuestionId(999_999)
			case 4:
				return m.SetObsoleteSave(capnp.Ptr{})
			default:
				m.Struct.SetUint16(0, 40) // union member that does not exist
			}
			return nil
		})
	case "unimplemented":
		desc = "Unimplemented(echo)"
		allow("silent")
		err = push(func(m rpccp.Message) error {
			in, err := m.NewUnimplemented()
			if err != nil {
				return err
			}
			f, err := in.NewFinish()
			if err != nil {
				return err
			}
			f.SetQuestionId(5)
			return nil
		})
	case "null-body":
		// the union names a message kind, the pointer to its body is null: an all-default message of that kind
		// (question/answer/export id 0, null target, no payload).  Whatever the connection makes of it is fine
		// as long as it makes something of it.
		tags := []uint16{2, 3, 4, 6, 8, 13, 0, 5, 10, 11, 12, 1}
		tag := tags[s.Var%len(tags)]
		desc = fmt.Sprintf("message with union tag %d and a null body", tag)
		allow("return", "abort", "unimplemented", "silent")
		// the peer's own books: an all-default Bootstrap asks question 0, an all-default Finish finishes it and
		// (releaseResultCaps defaults to true) gives its result capabilities back
		switch tag {
		case 8:
			if !has(h.liveAnswers, 0) {
				h.liveAnswers = append(h.liveAnswers, 0)
				if !h.c.NoBootstrap {
					h.answerCaps[0] = 1
				}
			}
		case 2:
			if !has(h.liveAnswers, 0) {
				h.liveAnswers = append(h.liveAnswers, 0) // answered with an exception; no capabilities
			}
		case 4:
			if has(h.liveAnswers, 0) {
				for i, q := range h.liveAnswers {
					if q == 0 {
						h.liveAnswers = append(h.liveAnswers[:i], h.liveAnswers[i+1:]...)
						break
					}
				}
				h.finishedAnswers = append(h.finishedAnswers, 0)
				if n := h.answerCaps[0]; n > 0 && h.exportRefs >= n {
					h.exportRefs -= n
				}
				delete(h.answerCaps, 0)
			}
		}
		err = push(func(m rpccp.Message) error {
			m.Struct.SetUint16(0, tag)
			return nil
		})
	case "abort":
		desc = "Abort"
		allow("abort")
		err = push(func(m rpccp.Message) error {
			e, err := m.NewAbort()
			if err != nil {
				return err
			}
			return e.SetReason("peer gives up")
		})
	default:
		return nil
	}
	if err != nil {
		return pbt.Fail("harness/push", "%v", err)
	}
	h.res.Class("hostile:%s", s.H)
	msgs, alive, oerr := h.observe()
	if oerr != nil {
		return oerr
	}
	var got string
	switch {
	case !alive:
		got = "abort"
		if e := h.checkAborted(msgs, "after "+desc); e != nil {
			return e
		}
	default:
		got = "silent"
		for _, m := range msgs {
			if m.Which == "unimplemented" {
				got = "unimplemented"
			}
		}
		if allowed["return"] && got != "unimplemented" {
			d := deadline
			if allowed["silent"] {
				d = 20 * time.Millisecond // a deferred Return is legitimate here: do not wait for it
			}
			if _, ok := h.waitForD(func(m rpcsim.Msg) bool { return m.Which == "return" && m.ID == sentID }, msgs, d); ok {
				got = "return"
			}
		}
	}
	h.res.Class("outcome:%s", got)
	if !allowed[got] {
		var al []string
		for k := range allowed {
			al = append(al, k)
		}
		return pbt.Fail("wrong-protocol-answer/"+s.H+"/"+got, "%s (with %d live table entries) was answered with %q; the protocol allows %v. Messages from the connection: %v", desc, h.liveEntries, got, al, msgs)
	}
	return nil
}

func run(c Case) (pbt.Result, error) {
	var res pbt.Result
	h := &harness{c: c, w: rpcsim.NewWire(), world: rpcsim.NewWorld(), res: &res, pingQ: 1 << 31, exportID: -1, answerCaps: map[uint32]uint32{}}
	var boot *capnp.Client
	if !c.NoBootstrap {
		_, boot = h.world.NewObject()
	}
	rep := &errList{}
	opts := &rpc.Options{BootstrapClient: boot, ErrorReporter: rep, AbortTimeout: 50 * time.Millisecond}
	if c.NoReporter {
		opts.ErrorReporter = nil
	}
	h.conn = rpc.NewConn(h.w, opts)
	hostileWithLive := false
	for _, s := range c.Steps {
		if h.aborted {
			break
		}
		var err error
		switch s.K {
		case "ping":
			err = h.ping(false)
		case "keep-ping":
			err = h.ping(true)
		case "held-call":
			// a valid call that stays running at the local object
			if h.exportID < 0 || h.exportRefs == 0 {
				continue
			}
			h.nextQ++
			q := 1000 + h.nextQ
			h.serial++
			err = h.w.SendCall(rpcsim.PeerCall{Q: q, Target: rpcsim.Target{ID: uint32(h.exportID)}, Serial: h.serial, Flags: rpcsim.FlagHold})
			h.liveAnswers = append(h.liveAnswers, q)
			h.pendingAnswers = append(h.pendingAnswers, q)
			h.liveEntries++
		case "err-call", "ok-call":
			// a valid call that returns at once (with an exception / with results) and is NOT finished: its answer stays in the table
			if h.exportID < 0 || h.exportRefs == 0 {
				continue
			}
			h.nextQ++
			q := 1000 + h.nextQ
			h.serial++
			fl := uint64(0)
			if s.K == "err-call" {
				fl = rpcsim.FlagErr
			}
			err = h.w.SendCall(rpcsim.PeerCall{Q: q, Target: rpcsim.Target{ID: uint32(h.exportID)}, Serial: h.serial, Flags: fl})
			h.liveAnswers = append(h.liveAnswers, q)
			h.liveEntries++
			if err == nil {
				msgs, alive, e := h.observe()
				if e != nil {
					err = e
				} else if !alive {
					err = pbt.Fail("abort-without-offence", "the connection shut down after a valid call")
				} else if _, ok := h.waitFor(func(m rpcsim.Msg) bool { return m.Which == "return" && m.ID == q }, msgs); !ok {
					err = pbt.Fail("valid-call-unanswered", "a valid call (question %d) got no Return", q)
				}
			}
		case "release-race":
			// A held call whose results carry an export the peer already holds, finished early with releaseResultCaps;
			// while the Conn is busy writing the Return (it has already counted the new reference) the peer releases one
			// reference more than it was ever given.  Whatever the Conn makes of it: no deadlock.
			if h.exportID < 0 || h.exportRefs == 0 || len(h.pendingAnswers) > 0 {
				continue
			}
			h.nextQ++
			q := 1000 + h.nextQ
			h.serial++
			serial := h.serial
			id := uint32(h.exportID)
			h.w.SendCall(rpcsim.PeerCall{Q: q, Target: rpcsim.Target{ID: id}, Serial: serial, Flags: rpcsim.FlagHold | rpcsim.FlagNoCancel | rpcsim.CapEchoParam<<rpcsim.FlagCapShift, Caps: []rpcsim.CapDesc{{Kind: "receiverHosted", ID: id}}})
			h.w.SendFinish(q, true)
			if _, alive, e := h.observe(); e != nil {
				err = e
				break
			} else if !alive {
				err = pbt.Fail("abort-without-offence", "the connection shut down after a valid call and its Finish")
				break
			}
			entered, gate := make(chan struct{}, 1), make(chan struct{})
			h.w.SetGate(func(m rpcsim.Msg) {
				if m.Which == "return" && m.ID == q {
					select {
					case entered <- struct{}{}:
						<-gate
					default:
					}
				}
			})
			h.world.Open(serial)
			raced := false
			select {
			case <-entered:
				raced = true
				h.w.SendRelease(id, h.exportRefs+1)
				time.Sleep(2 * time.Millisecond)
			case <-time.After(50 * time.Millisecond):
			}
			h.w.SetGate(nil)
			close(gate)
			res.Class("hostile:release-race")
			if raced {
				hostileWithLive = true
			}
			msgs, alive, e := h.observe()
			if e != nil {
				err = e
			} else if !alive {
				err = h.checkAborted(msgs, "after an over-release timed into the transmission of a Return")
				res.Class("outcome:abort")
			} else {
				res.Class("outcome:alive")
				if raced {
					h.exportRefs = 0
					h.exportID = -1
				}
			}
		case "open":
			h.world.OpenUpTo(h.serial)
			h.pendingAnswers = nil
		case "app-bootstrap":
			cl := h.conn.Bootstrap(context.Background())
			h.appClients = append(h.appClients, cl)
			h.liveEntries++
			if _, alive, e := h.observe(); e != nil {
				err = e
			} else if !alive {
				err = pbt.Fail("abort-without-offence", "the connection shut down although the peer sent only valid traffic")
			}
		case "app-call":
			if len(h.appClients) == 0 {
				continue
			}
			ans, rel := h.appClients[len(h.appClients)-1].SendCall(context.Background(), capnp.Send{Method: capnp.Method{InterfaceID: rpcsim.Iface, MethodID: rpcsim.Method}, ArgsSize: capnp.ObjectSize{DataSize: 16}})
			h.appAnswers = append(h.appAnswers, ans)
			h.appReleases = append(h.appReleases, rel)
			h.liveEntries++
			if _, alive, e := h.observe(); e != nil {
				err = e
			} else if !alive {
				err = pbt.Fail("abort-without-offence", "the connection shut down although the peer sent only valid traffic")
			}
		case "hostile":
			if h.liveEntries > 0 {
				hostileWithLive = true
			}
			err = h.hostile(s)
		case "corrupt":
			// a valid frame with flipped bytes / cut short
			msg, seg, _ := capnp.NewMessage(capnp.SingleSegment(nil))
			rm, _ := rpccp.NewRootMessage(seg)
			call, _ := rm.NewCall()
			call.SetQuestionId(4000 + uint32(s.Var))
			t, _ := call.NewTarget()
			t.SetImportedCap(0)
			p, _ := call.NewParams()
			st, _ := capnp.NewStruct(p.Segment(), capnp.ObjectSize{DataSize: 16, PointerCount: 1})
			p.SetContent(st.ToPtr())
			b, _ := msg.Marshal()
			for i := 0; i+1 < len(s.Mut); i += 2 {
				b[s.Mut[i]%len(b)] ^= byte(s.Mut[i+1])
			}
			if s.Cut > 0 {
				b = b[:len(b)-(s.Cut%len(b))]
			}
			h.w.PushRaw(b)
			res.Class("hostile:corrupt")
			if h.liveEntries > 0 {
				hostileWithLive = true
			}
			msgs, alive, e := h.observe()
			if e != nil {
				err = e
			} else if !alive {
				err = h.checkAborted(msgs, "after a corrupted frame")
				res.Class("outcome:abort")
			} else {
				res.Class("outcome:alive")
			}
		}
		if err != nil {
			return res, err
		}
	}
	res.Nontrivial = hostileWithLive
	// whatever happened: local callers get results or errors, Close returns
	h.world.OpenUpTo(1 << 62)
	if !h.aborted {
		if err := h.ping(false); err != nil {
			return res, err
		}
	}
	closed := make(chan error, 1)
	go func() { closed <- h.conn.Close() }()
	select {
	case <-closed:
	case <-time.After(deadline):
		return res, pbt.Fail("hang/close", "Conn.Close() did not return\n%s", pbt.Stacks("capnp/v3/rpc."))
	}
	for i, ans := range h.appAnswers {
		done := make(chan struct{})
		go func() { ans.Struct(); close(done) }()
		select {
		case <-done:
		case <-time.After(deadline):
			return res, pbt.Fail("hang/local-call", "a local call never resolved after the connection went down\n%s", pbt.Stacks("capnp/v3/rpc."))
		}
		h.appReleases[i]()
	}
	for _, cl := range h.appClients {
		done := make(chan struct{})
		go func() { cl.Release(); close(done) }()
		select {
		case <-done:
		case <-time.After(deadline):
			return res, pbt.Fail("hang/local-release", "releasing a bootstrap client hung after the connection went down\n%s", pbt.Stacks("capnp/v3/rpc."))
		}
	}
	for _, e := range rep.errs {
		if strings.Contains(e, "panic") {
			return res, pbt.Fail("reported-panic", "error reporter received: %s", e)
		}
	}
	return res, nil
}

var hostileKinds = []string{"bootstrap", "call-import", "call-answer", "call-badcaps", "call-rawtarget", "return", "finish", "release", "disembargo", "level2", "unimplemented", "abort", "null-body"}

func genCase(t *rapid.T) Case {
	c := Case{NoBootstrap: rapid.IntRange(0, 7).Draw(t, "noboot") == 0, NoReporter: rapid.IntRange(0, 3).Draw(t, "noreporter") == 0}
	kinds := []string{"ping", "keep-ping", "held-call", "err-call", "ok-call", "open", "app-bootstrap", "app-call", "hostile", "hostile", "hostile", "hostile", "corrupt", "release-race"}
	if rapid.IntRange(0, 5).Draw(t, "skeleton") == 0 {
		// a local caller waiting for the peer, then a Return for exactly that question
		c.Steps = append(c.Steps, Step{K: "app-bootstrap"})
		if rapid.Bool().Draw(t, "sk-call") {
			c.Steps = append(c.Steps, Step{K: "app-call"})
		}
		c.Steps = append(c.Steps, Step{K: "hostile", H: "return", IDK: 1, Var: rapid.IntRange(0, 8).Draw(t, "sk-var")})
	}
	for i, n := 0, rapid.IntRange(1, 10).Draw(t, "n"); i < n; i++ {
		s := Step{K: rapid.SampledFrom(kinds).Draw(t, "k")}
		switch s.K {
		case "hostile":
			s.H = rapid.SampledFrom(hostileKinds).Draw(t, "h")
			if s.H == "abort" && rapid.IntRange(0, 3).Draw(t, "lessabort") != 0 {
				s.H = "level2"
			}
			s.IDK = rapid.IntRange(0, 3).Draw(t, "idk")
			s.Var = rapid.IntRange(0, 17).Draw(t, "var")
			if s.H == "return" && rapid.Bool().Draw(t, "live") {
				s.IDK = 1 // answers to questions the Conn really has open are where a caller can be left hanging
			}
		case "corrupt":
			s.Var = rapid.IntRange(0, 50).Draw(t, "var")
			s.Mut = rapid.SliceOfN(rapid.IntRange(0, 255), 0, 6).Draw(t, "mut")
			if rapid.IntRange(0, 3).Draw(t, "cut") == 0 {
				s.Cut = rapid.IntRange(1, 40).Draw(t, "cutn")
			}
		}
		c.Steps = append(c.Steps, s)
	}
	return c
}

var _ = pbt.Register(pbt.Spec[Case]{
	Property: "C08", Name: "hostile-peer",
	Rule:  "histories of up to 10 steps against a live rpc.Conn over a harness-owned transport: valid traffic that creates live table entries (Bootstrap pings kept open, calls held inside a local server object, local Bootstrap()/calls pending at the peer) interleaved with hostile messages built with the rpc.capnp schema: Bootstrap/Call/Finish/Return/Release/Disembargo naming fresh, live, finished, never-used and 2^32-1 ids; calls to absent exports and absent/finished promised answers with transforms up to field 300; params with capability descriptors of every kind incl. non-existent receiverHosted ids; raw unknown union tags; non-struct params; sendResultsTo != caller; Returns of every variant incl. capability tables naming absent exports or absent answers, content/exception pointers leading out of the segment, aimed at questions a local caller is waiting on (1 in 6 cases starts with local Bootstrap [+ call] and a Return for that question); over-release; level-2 messages; Unimplemented; Abort; messages whose union names a kind while the body pointer is null (all-default Call, Return, Finish, Release, Bootstrap, Disembargo, ...); a quarter of the connections has no ErrorReporter; and byte-corrupted/truncated frames. Oracle after every offending message: the process lives (crash journal), and the connection is either alive (a later marker message is echoed and a fresh Bootstrap on a reserved id gets its correct Return) or aborted (at most one Abort as last message, transport closed, Done() closed); the offence is answered by one of the outcomes the protocol allows for it (exception/results Return, Unimplemented echo, Abort, or nothing for messages that are in fact legal); finally Close() returns, every local call resolves, bootstrap clients release. Non-trivial: an offending message arrived while >=1 table entry was live.",
	Quick: 10000, Thorough: 60000,
	Gen: genCase,
	Run: run,
})
