// Package rpcsim provides a harness-owned rpc.Transport, a scripted peer vat
// and recording capabilities for the RPC properties (C06-C09).
package rpcsim

import (
	"bytes"
	"context"
	"errors"
	"fmt"
	"io"
	"os"
	"sync"
	"time"

	capnp "capnproto.org/go/capnp/v3"
	rpccp "capnproto.org/go/capnp/v3/std/capnp/rpc"
)

// Fault kinds injected at a transport operation index.
const (
	FaultNone = 0
	FaultErr  = 1 // the operation returns an error
	FaultEOF  = 2 // RecvMessage returns io.EOF (peer hung up)
	// FaultFull: NewMessage hands out a message whose arena has room for the root Message struct and nothing more
	// (a transport with a fixed-size send buffer that is exhausted): building the message fails
	FaultFull = 3
)

// fullArena is a one-segment arena of fixed capacity.
type fullArena struct {
	buf  []byte
	used bool
}

func (a *fullArena) NumSegments() int64 {
	if a.used {
		return 1
	}
	return 0
}

func (a *fullArena) Data(id capnp.SegmentID) ([]byte, error) {
	if id != 0 || !a.used {
		return nil, errors.New("rpcsim: segment out of range")
	}
	return a.buf, nil
}

func (a *fullArena) Allocate(minsz capnp.Size, segs map[capnp.SegmentID]*capnp.Segment) (capnp.SegmentID, []byte, error) {
	if !a.used {
		a.used = true
		if int(minsz) > cap(a.buf) {
			return 0, nil, errors.New("rpcsim: send buffer exhausted")
		}
		return 0, a.buf[:0], nil
	}
	data := a.buf
	if s := segs[0]; s != nil {
		data = s.Data()
	}
	if cap(data)-len(data) < int(minsz) {
		return 0, nil, errors.New("rpcsim: send buffer exhausted")
	}
	return 0, data, nil
}

// OpKind of a transport operation.
const (
	OpNew  = "NewMessage"
	OpSend = "send"
	OpRecv = "RecvMessage"
)

type OpRec struct {
	Index int
	Kind  string
	Fault int
}

// Wire is the Transport handed to rpc.NewConn.  Frames cross it as bytes, so
// the two sides never share memory.
type Wire struct {
	// Sink, if set, receives every frame the peer-side builders (Push, SendCall, ...) produce instead of the
	// Conn-facing queue; used to feed a byte-stream Pipe.
	Sink func(b []byte)
	// SendHook, if set, runs at the start of every send (a slow or descheduled transport).
	SendHook func()
	// Gate, if set, sees every outgoing message before it goes on the wire and may block (a transport whose write of
	// this message takes a while).  Set and cleared by the harness through SetGate.
	gate     func(m Msg)
	mu       sync.Mutex
	in       [][]byte // peer -> Conn
	inSig    chan struct{}
	out      [][]byte // Conn -> peer
	outSig   chan struct{}
	closed   bool
	closedCh chan struct{}
	closeN   int

	ops            []OpRec
	Faults         map[int]int // op index -> fault kind
	live           int         // messages created and not yet released
	sentAfterClose int
	RecvHungUp     bool // the peer hung up: RecvMessage returns io.EOF once the queue is empty
	CloseFails     bool // Close closes the transport but reports an error (as a TLS stream does after a reset)
}

func NewWire() *Wire {
	return &Wire{inSig: make(chan struct{}, 1), outSig: make(chan struct{}, 1), closedCh: make(chan struct{}), Faults: map[int]int{}}
}

func (w *Wire) op(kind string) (int, int) {
	w.mu.Lock()
	defer w.mu.Unlock()
	i := len(w.ops)
	f := w.Faults[i]
	w.ops = append(w.ops, OpRec{i, kind, f})
	return i, f
}

// SetGate installs (or, with nil, removes) the outgoing-message gate.
func (w *Wire) SetGate(g func(m Msg)) {
	w.mu.Lock()
	w.gate = g
	w.mu.Unlock()
}

// Ops returns the operations performed so far.
func (w *Wire) Ops() []OpRec {
	w.mu.Lock()
	defer w.mu.Unlock()
	return append([]OpRec(nil), w.ops...)
}

var ErrInjected = errors.New("rpcsim: injected transport fault")

func (w *Wire) NewMessage(ctx context.Context) (rpccp.Message, func() error, capnp.ReleaseFunc, error) {
	_, f := w.op(OpNew)
	if f == FaultErr {
		return rpccp.Message{}, nil, nil, ErrInjected
	}
	var arena capnp.Arena = capnp.MultiSegment(nil)
	if f == FaultFull {
		arena = &fullArena{buf: make([]byte, 0, 24)} // root pointer + Message{8 data bytes, 1 pointer}
	}
	msg, seg, err := capnp.NewMessage(arena)
	if err != nil {
		return rpccp.Message{}, nil, nil, err
	}
	rmsg, err := rpccp.NewRootMessage(seg)
	if err != nil {
		return rpccp.Message{}, nil, nil, err
	}
	w.mu.Lock()
	w.live++
	w.mu.Unlock()
	released := false
	send := func() error {
		if w.SendHook != nil {
			w.SendHook()
		}
		_, f := w.op(OpSend)
		if f == FaultErr {
			return ErrInjected
		}
		if err := ctx.Err(); err != nil {
			return err
		}
		b, err := msg.Marshal()
		if err != nil {
			return err
		}
		w.mu.Lock()
		g := w.gate
		w.mu.Unlock()
		if g != nil {
			g(Parse(b))
		}
		w.mu.Lock()
		if w.closed {
			w.sentAfterClose++
			w.mu.Unlock()
			return errors.New("rpcsim: send on closed transport")
		}
		w.out = append(w.out, b)
		w.mu.Unlock()
		select {
		case w.outSig <- struct{}{}:
		default:
		}
		return nil
	}
	release := func() {
		w.mu.Lock()
		if !released {
			released = true
			w.live--
		}
		w.mu.Unlock()
		msg.Reset(nil)
	}
	return rmsg, send, release, nil
}

func (w *Wire) RecvMessage(ctx context.Context) (rpccp.Message, capnp.ReleaseFunc, error) {
	_, f := w.op(OpRecv)
	switch f {
	case FaultErr:
		return rpccp.Message{}, nil, ErrInjected
	case FaultEOF:
		return rpccp.Message{}, nil, io.EOF
	}
	for {
		w.mu.Lock()
		if len(w.in) > 0 {
			b := w.in[0]
			w.in = w.in[1:]
			w.mu.Unlock()
			m, err := capnp.Unmarshal(b)
			if err != nil {
				return rpccp.Message{}, nil, err
			}
			rm, err := rpccp.ReadRootMessage(m)
			if err != nil {
				return rpccp.Message{}, nil, err
			}
			return rm, func() { m.Reset(nil) }, nil
		}
		hung := w.RecvHungUp
		closed := w.closed
		w.mu.Unlock()
		if hung {
			return rpccp.Message{}, nil, io.EOF
		}
		if closed {
			return rpccp.Message{}, nil, errors.New("rpcsim: transport closed")
		}
		select {
		case <-w.inSig:
		case <-ctx.Done():
			return rpccp.Message{}, nil, ctx.Err()
		case <-w.closedCh:
		}
	}
}

func (w *Wire) Close() error {
	w.mu.Lock()
	defer w.mu.Unlock()
	w.closeN++
	if !w.closed {
		w.closed = true
		close(w.closedCh)
	}
	if w.CloseFails {
		return ErrInjected
	}
	return nil
}

// Closed reports whether the Conn closed the transport, and how often.
func (w *Wire) Closed() (bool, int) {
	w.mu.Lock()
	defer w.mu.Unlock()
	return w.closed, w.closeN
}

// Live returns the number of created-but-unreleased outgoing messages.
func (w *Wire) Live() int {
	w.mu.Lock()
	defer w.mu.Unlock()
	return w.live
}

// HangUp makes the peer's side of the stream end.
func (w *Wire) HangUp() {
	w.mu.Lock()
	w.RecvHungUp = true
	w.mu.Unlock()
	select {
	case w.inSig <- struct{}{}:
	default:
	}
}

// ---- peer side --------------------------------------------------------------------

// PushRaw delivers a frame (bytes of a marshalled message) to the Conn.
func (w *Wire) PushRaw(b []byte) {
	if w.Sink != nil {
		w.Sink(b)
		return
	}
	w.mu.Lock()
	w.in = append(w.in, b)
	w.mu.Unlock()
	select {
	case w.inSig <- struct{}{}:
	default:
	}
}

// Push builds an rpc message and delivers it to the Conn.
func (w *Wire) Push(build func(m rpccp.Message) error) error {
	msg, seg, err := capnp.NewMessage(capnp.MultiSegment(nil))
	if err != nil {
		return err
	}
	rm, err := rpccp.NewRootMessage(seg)
	if err != nil {
		return err
	}
	if err := build(rm); err != nil {
		return err
	}
	b, err := msg.Marshal()
	if err != nil {
		return err
	}
	w.PushRaw(b)
	return nil
}

// Pending returns how many frames the Conn has not consumed yet.
func (w *Wire) Pending() int {
	w.mu.Lock()
	defer w.mu.Unlock()
	return len(w.in)
}

// Next returns the next frame the Conn sent, waiting up to d.  ok=false on timeout or close-with-nothing-left.
func (w *Wire) Next(d time.Duration) (Msg, bool) {
	deadline := time.NewTimer(d)
	defer deadline.Stop()
	for {
		w.mu.Lock()
		if len(w.out) > 0 {
			b := w.out[0]
			w.out = w.out[1:]
			w.mu.Unlock()
			return Parse(b), true
		}
		closed := w.closed
		w.mu.Unlock()
		if closed {
			return Msg{}, false
		}
		select {
		case <-w.outSig:
		case <-w.closedCh:
		case <-deadline.C:
			return Msg{}, false
		}
	}
}

// Drain returns every frame currently queued from the Conn without waiting.
func (w *Wire) Drain() []Msg {
	w.mu.Lock()
	out := w.out
	w.out = nil
	w.mu.Unlock()
	var ms []Msg
	for _, b := range out {
		ms = append(ms, Parse(b))
	}
	return ms
}

// ---- message summaries ---------------------------------------------------------------

type CapDesc struct {
	Kind string `json:"kind"` // none senderHosted senderPromise receiverHosted receiverAnswer thirdPartyHosted unknown
	ID   uint32 `json:"id"`
}

// Msg is a flat summary of an rpc.capnp message.
type Msg struct {
	Which       string    `json:"which"`
	ID          uint32    `json:"id"` // questionId / answerId / export id
	TargetKind  string    `json:"target_kind,omitempty"`
	TargetID    uint32    `json:"target_id,omitempty"`
	Transform   []uint16  `json:"transform,omitempty"`
	Iface       uint64    `json:"iface,omitempty"`
	Method      uint16    `json:"method,omitempty"`
	RetKind     string    `json:"ret_kind,omitempty"`     // results exception canceled ...
	Serial      uint64    `json:"serial,omitempty"`       // data word 0 of params/results content
	Flags       uint64    `json:"flags,omitempty"`        // data word 1 of params content (behaviour flags)
	ContentKind string    `json:"content_kind,omitempty"` // null struct list cap
	ContentCap  int       `json:"content_cap"`            // capability index if the content is an interface pointer, else -1
	PtrCaps     []int     `json:"ptr_caps,omitempty"`     // capability index in each pointer field of a struct content (-1 otherwise)
	Caps        []CapDesc `json:"caps,omitempty"`
	Reason      string    `json:"reason,omitempty"`
	ExcType     int       `json:"exc_type,omitempty"`
	Flag        bool      `json:"flag,omitempty"` // releaseResultCaps / releaseParamCaps
	Count       uint32    `json:"count,omitempty"`
	DisCtx      string    `json:"dis_ctx,omitempty"`
	DisID       uint32    `json:"dis_id,omitempty"`
	Inner       *Msg      `json:"inner,omitempty"` // unimplemented echo
	Err         string    `json:"err,omitempty"`
	Raw         []byte    `json:"-"`
}

func (m Msg) String() string {
	s := fmt.Sprintf("%s(id=%d", m.Which, m.ID)
	if m.TargetKind != "" {
		s += fmt.Sprintf(" target=%s:%d%v", m.TargetKind, m.TargetID, m.Transform)
	}
	if m.RetKind != "" {
		s += " " + m.RetKind
	}
	if m.Which == "call" || m.RetKind == "results" {
		s += fmt.Sprintf(" serial=%d", m.Serial)
	}
	if len(m.Caps) > 0 {
		s += fmt.Sprintf(" caps=%v", m.Caps)
	}
	if m.Reason != "" {
		s += fmt.Sprintf(" reason=%q", m.Reason)
	}
	if m.Which == "finish" {
		s += fmt.Sprintf(" releaseResultCaps=%v", m.Flag)
	}
	if m.Which == "release" {
		s += fmt.Sprintf(" count=%d", m.Count)
	}
	if m.DisCtx != "" {
		s += fmt.Sprintf(" %s=%d", m.DisCtx, m.DisID)
	}
	if m.Inner != nil {
		s += " echo=" + m.Inner.String()
	}
	return s + ")"
}

// Parse summarises a frame.
func Parse(b []byte) Msg {
	out := Msg{Raw: b, ContentCap: -1}
	cm, err := capnp.Unmarshal(b)
	if err != nil {
		out.Which, out.Err = "unparseable", err.Error()
		return out
	}
	rm, err := rpccp.ReadRootMessage(cm)
	if err != nil {
		out.Which, out.Err = "unparseable", err.Error()
		return out
	}
	return summarize(rm, b)
}

func payload(out *Msg, p rpccp.Payload) {
	out.ContentCap = -1
	if !p.IsValid() {
		out.ContentKind = "null"
		return
	}
	c, err := p.Content()
	if err != nil {
		out.Err = err.Error()
		return
	}
	switch {
	case !c.IsValid():
		out.ContentKind = "null"
	case c.Struct().IsValid():
		out.ContentKind = "struct"
		s := c.Struct()
		out.Serial = s.Uint64(0)
		if s.Size().DataSize >= 16 {
			out.Flags = s.Uint64(8)
		}
		for i := 0; i < int(s.Size().PointerCount); i++ {
			pp, err := s.Ptr(uint16(i))
			if err == nil && pp.Interface().IsValid() {
				out.PtrCaps = append(out.PtrCaps, int(pp.Interface().Capability()))
			} else {
				out.PtrCaps = append(out.PtrCaps, -1)
			}
		}
	case c.Interface().IsValid():
		out.ContentKind = "cap"
		out.ContentCap = int(c.Interface().Capability())
	default:
		out.ContentKind = "list"
	}
	ct, err := p.CapTable()
	if err != nil {
		out.Err = err.Error()
		return
	}
	for i := 0; i < ct.Len(); i++ {
		d := ct.At(i)
		switch d.Which() {
		case rpccp.CapDescriptor_Which_none:
			out.Caps = append(out.Caps, CapDesc{"none", 0})
		case rpccp.CapDescriptor_Which_senderHosted:
			out.Caps = append(out.Caps, CapDesc{"senderHosted", d.SenderHosted()})
		case rpccp.CapDescriptor_Which_senderPromise:
			out.Caps = append(out.Caps, CapDesc{"senderPromise", d.SenderPromise()})
		case rpccp.CapDescriptor_Which_receiverHosted:
			out.Caps = append(out.Caps, CapDesc{"receiverHosted", d.ReceiverHosted()})
		case rpccp.CapDescriptor_Which_receiverAnswer:
			out.Caps = append(out.Caps, CapDesc{"receiverAnswer", 0})
		case rpccp.CapDescriptor_Which_thirdPartyHosted:
			out.Caps = append(out.Caps, CapDesc{"thirdPartyHosted", 0})
		default:
			out.Caps = append(out.Caps, CapDesc{"unknown", 0})
		}
	}
}

func target(out *Msg, t rpccp.MessageTarget, err error) {
	if err != nil {
		out.Err = err.Error()
		return
	}
	switch t.Which() {
	case rpccp.MessageTarget_Which_importedCap:
		out.TargetKind, out.TargetID = "import", t.ImportedCap()
	case rpccp.MessageTarget_Which_promisedAnswer:
		out.TargetKind = "answer"
		pa, err := t.PromisedAnswer()
		if err != nil {
			out.Err = err.Error()
			return
		}
		out.TargetID = pa.QuestionId()
		ops, err := pa.Transform()
		if err == nil {
			for i := 0; i < ops.Len(); i++ {
				if ops.At(i).Which() == rpccp.PromisedAnswer_Op_Which_getPointerField {
					out.Transform = append(out.Transform, ops.At(i).GetPointerField())
				}
			}
		}
	default:
		out.TargetKind = "unknown"
	}
}

func summarize(rm rpccp.Message, raw []byte) Msg {
	out := Msg{Raw: raw, ContentCap: -1}
	switch rm.Which() {
	case rpccp.Message_Which_unimplemented:
		out.Which = "unimplemented"
		if in, err := rm.Unimplemented(); err == nil {
			s := summarize(in, nil)
			out.Inner = &s
		}
	case rpccp.Message_Which_abort:
		out.Which = "abort"
		if e, err := rm.Abort(); err == nil {
			out.Reason, _ = e.Reason()
			out.ExcType = int(e.Type())
		}
	case rpccp.Message_Which_bootstrap:
		out.Which = "bootstrap"
		if b, err := rm.Bootstrap(); err == nil {
			out.ID = b.QuestionId()
		}
	case rpccp.Message_Which_call:
		out.Which = "call"
		c, err := rm.Call()
		if err != nil {
			out.Err = err.Error()
			break
		}
		out.ID, out.Iface, out.Method = c.QuestionId(), c.InterfaceId(), c.MethodId()
		t, terr := c.Target()
		target(&out, t, terr)
		if p, err := c.Params(); err == nil {
			payload(&out, p)
		}
	case rpccp.Message_Which_return:
		out.Which = "return"
		r, err := rm.Return()
		if err != nil {
			out.Err = err.Error()
			break
		}
		out.ID, out.Flag = r.AnswerId(), r.ReleaseParamCaps()
		switch r.Which() {
		case rpccp.Return_Which_results:
			out.RetKind = "results"
			if p, err := r.Results(); err == nil {
				payload(&out, p)
			}
		case rpccp.Return_Which_exception:
			out.RetKind = "exception"
			if e, err := r.Exception(); err == nil {
				out.Reason, _ = e.Reason()
				out.ExcType = int(e.Type())
			}
		case rpccp.Return_Which_canceled:
			out.RetKind = "canceled"
		default:
			out.RetKind = fmt.Sprintf("other-%d", r.Which())
		}
	case rpccp.Message_Which_finish:
		out.Which = "finish"
		if f, err := rm.Finish(); err == nil {
			out.ID, out.Flag = f.QuestionId(), f.ReleaseResultCaps()
		}
	case rpccp.Message_Which_release:
		out.Which = "release"
		if r, err := rm.Release(); err == nil {
			out.ID, out.Count = r.Id(), r.ReferenceCount()
		}
	case rpccp.Message_Which_disembargo:
		out.Which = "disembargo"
		if d, err := rm.Disembargo(); err == nil {
			t, terr := d.Target()
			target(&out, t, terr)
			switch d.Context().Which() {
			case rpccp.Disembargo_context_Which_senderLoopback:
				out.DisCtx, out.DisID = "senderLoopback", d.Context().SenderLoopback()
			case rpccp.Disembargo_context_Which_receiverLoopback:
				out.DisCtx, out.DisID = "receiverLoopback", d.Context().ReceiverLoopback()
			case rpccp.Disembargo_context_Which_accept:
				out.DisCtx = "accept"
			case rpccp.Disembargo_context_Which_provide:
				out.DisCtx, out.DisID = "provide", d.Context().Provide()
			default:
				out.DisCtx = "unknown"
			}
		}
	case rpccp.Message_Which_resolve:
		out.Which = "resolve"
	case rpccp.Message_Which_provide:
		out.Which = "provide"
	case rpccp.Message_Which_accept:
		out.Which = "accept"
	case rpccp.Message_Which_join:
		out.Which = "join"
		if j, err := rm.Join(); err == nil {
			out.ID = j.QuestionId()
		}
	default:
		out.Which = fmt.Sprintf("other-%d", rm.Which())
	}
	return out
}

// ---- byte-stream pipe for the stream transports ------------------------------------------

// PipeFault describes a fault on the byte stream.
type PipeFault struct {
	Write bool // fault on the k-th Write (else on the k-th Read)
	Index int
	Keep  int  // Write: accept this many bytes (mod len) before failing; Read: deliver this many bytes (mod available) then fail
	EOF   bool // Read: fail with io.EOF instead of an error
	// Stall (Write, deadline-capable streams only): the stream accepts Keep bytes of the buffer and then stops taking
	// data: the Write blocks until its deadline expires (it then fails with a timeout), the stream is resumed, or it
	// is closed.  Dead: Writes that carry a deadline keep timing out after that, until the stream is resumed.
	Stall bool `json:",omitempty"`
	Dead  bool `json:",omitempty"`
}

// WriteRec is one Write call the Conn made on the stream.
type WriteRec struct {
	Buf      []byte
	Accepted int
	Failed   bool
	Cont     bool // the bytes continue the buffer a previous, partly accepted Write left unfinished
}

// Pipe is an io.ReadWriteCloser under rpc.NewStreamTransport.  Everything the Conn writes is recorded; the peer
// feeds bytes for the Conn to read.  It has no deadline methods (DPipe adds them).
type Pipe struct {
	mu       sync.Mutex
	toConn   []byte
	sig      chan struct{}
	closed   bool
	closedCh chan struct{}
	wake     chan struct{} // closed and replaced whenever a deadline, resumed or closed changes
	wdl, rdl time.Time

	Accepted        []byte // bytes accepted from the Conn
	Writes          int
	Reads           int
	Fault           *PipeFault
	Faulted         bool
	AcceptedAtFault int
	LaterWrites     int // bytes accepted in Write calls after the fault fired
	peerEOF         bool

	Recs        []WriteRec
	pendingRest []byte // what is missing of a buffer the stream accepted only partly
	Garbage     string // first Write whose bytes did not continue a partly accepted buffer
	stalled     chan struct{}
	stallOver   bool
	resumed     bool
}

func NewPipe() *Pipe {
	return &Pipe{sig: make(chan struct{}, 1), closedCh: make(chan struct{}), wake: make(chan struct{}), stalled: make(chan struct{})}
}

// DPipe is a Pipe with SetReadDeadline/SetWriteDeadline, i.e. what a net.Conn looks like to the stream transport.
type DPipe struct{ *Pipe }

func (p DPipe) SetWriteDeadline(t time.Time) error {
	p.mu.Lock()
	p.wdl = t
	p.broadcast()
	p.mu.Unlock()
	return nil
}

func (p DPipe) SetReadDeadline(t time.Time) error {
	p.mu.Lock()
	p.rdl = t
	p.broadcast()
	p.mu.Unlock()
	return nil
}

// broadcast wakes everything that waits for a deadline, a resume or a close.  p.mu is held.
func (p *Pipe) broadcast() {
	close(p.wake)
	p.wake = make(chan struct{})
}

// waitUntil releases p.mu, sleeps until the stream state changes or the deadline passes, and takes p.mu again.
func (p *Pipe) waitUntil(dl time.Time) {
	w := p.wake
	p.mu.Unlock()
	if dl.IsZero() {
		<-w
	} else {
		t := time.NewTimer(time.Until(dl))
		select {
		case <-w:
		case <-t.C:
		}
		t.Stop()
	}
	p.mu.Lock()
}

// Stalled is closed when the stall fault has fired.
func (p *Pipe) Stalled() <-chan struct{} { return p.stalled }

// StallOver reports whether the stalled Write call has returned.
func (p *Pipe) StallOver() bool {
	p.mu.Lock()
	defer p.mu.Unlock()
	return p.stallOver
}

// Resume makes the stream take data again.
func (p *Pipe) Resume() {
	p.mu.Lock()
	p.resumed = true
	p.broadcast()
	p.mu.Unlock()
}

func expired(dl time.Time) bool { return !dl.IsZero() && !time.Now().Before(dl) }

// accept appends b[:n] to the stream and keeps the books on partly accepted buffers.  p.mu is held.
func (p *Pipe) accept(rec *WriteRec, b []byte, n int) {
	if n == 0 {
		return
	}
	if len(p.pendingRest) > 0 {
		if rec.Accepted == 0 {
			rec.Cont = true
		}
		m := len(p.pendingRest)
		if len(b) < m {
			m = len(b)
		}
		if !bytes.Equal(b[:m], p.pendingRest[:m]) && p.Garbage == "" {
			p.Garbage = fmt.Sprintf("Write #%d put %d bytes into the stream although the previous buffer had been accepted only in part; they are not the %d bytes that were missing (first bytes written %x, missing %x)", len(p.Recs), n, len(p.pendingRest), clipB(b[:n]), clipB(p.pendingRest))
		}
		if n >= len(p.pendingRest) {
			p.pendingRest = nil
		} else {
			p.pendingRest = p.pendingRest[n:]
		}
	} else if n < len(b) {
		p.pendingRest = append([]byte(nil), b[n:]...)
	}
	p.Accepted = append(p.Accepted, b[:n]...)
	rec.Accepted += n
}

func clipB(b []byte) []byte {
	if len(b) > 16 {
		return b[:16]
	}
	return b
}

func (p *Pipe) Write(b []byte) (n int, err error) {
	p.mu.Lock()
	defer p.mu.Unlock()
	if p.closed {
		return 0, errors.New("rpcsim: write on closed pipe")
	}
	i := p.Writes
	p.Writes++
	p.Recs = append(p.Recs, WriteRec{Buf: append([]byte(nil), b...)})
	rec := func() *WriteRec { return &p.Recs[i] }
	defer func() { rec().Failed = err != nil }()
	f := p.Fault
	if f != nil && f.Write && f.Index == i && !p.Faulted {
		n := 0
		if len(b) > 0 {
			n = f.Keep % len(b) // always short of the whole buffer
		}
		p.accept(rec(), b, n)
		p.Faulted = true
		p.AcceptedAtFault = len(p.Accepted)
		if !f.Stall {
			return n, ErrInjected
		}
		close(p.stalled)
		defer func() { p.stallOver = true }()
		for {
			switch {
			case p.closed:
				return n, errors.New("rpcsim: pipe closed during write")
			case p.resumed:
				p.accept(rec(), b[n:], len(b)-n)
				return len(b), nil
			case expired(p.wdl):
				return n, os.ErrDeadlineExceeded
			}
			p.waitUntil(p.wdl)
		}
	}
	if f != nil && f.Write && f.Stall && f.Dead && p.Faulted && !p.wdl.IsZero() {
		// the peer still takes nothing: a Write with a deadline runs into it (one without a deadline is let through:
		// a stream that blocks for ever is not a fault the connection can be asked to survive)
		for !p.resumed {
			if p.closed {
				return 0, errors.New("rpcsim: pipe closed during write")
			}
			if expired(p.wdl) {
				return 0, os.ErrDeadlineExceeded
			}
			p.waitUntil(p.wdl)
		}
	}
	if p.Faulted && p.Fault.Write {
		p.LaterWrites += len(b)
	}
	p.accept(rec(), b, len(b))
	return len(b), nil
}

func (p *Pipe) Read(b []byte) (int, error) {
	p.mu.Lock()
	defer p.mu.Unlock()
	for {
		if p.closed {
			return 0, errors.New("rpcsim: read on closed pipe")
		}
		if len(p.toConn) > 0 {
			i := p.Reads
			p.Reads++
			n := copy(b, p.toConn)
			if p.Fault != nil && !p.Fault.Write && p.Fault.Index == i && !p.Faulted {
				p.Faulted = true
				n = p.Fault.Keep % (n + 1)
				copy(b, p.toConn[:n])
				p.toConn = nil
				p.peerEOF = true
				if n > 0 {
					return n, nil // the failure itself is reported by the next Read
				}
				if p.Fault.EOF {
					return 0, io.EOF
				}
				return 0, ErrInjected
			}
			p.toConn = p.toConn[n:]
			return n, nil
		}
		if p.peerEOF {
			if (p.Fault != nil && p.Fault.EOF) || p.Fault == nil {
				return 0, io.EOF
			}
			return 0, ErrInjected
		}
		if expired(p.rdl) {
			return 0, os.ErrDeadlineExceeded
		}
		p.waitUntil(p.rdl)
	}
}

func (p *Pipe) Close() error {
	p.mu.Lock()
	defer p.mu.Unlock()
	if !p.closed {
		p.closed = true
		close(p.closedCh)
		p.broadcast()
	}
	return nil
}

// WriteRecs returns the Write calls seen so far.
func (p *Pipe) WriteRecs() ([]WriteRec, string) {
	p.mu.Lock()
	defer p.mu.Unlock()
	return append([]WriteRec(nil), p.Recs...), p.Garbage
}

// Feed gives the Conn bytes to read.
func (p *Pipe) Feed(b []byte) {
	p.mu.Lock()
	p.toConn = append(p.toConn, b...)
	p.broadcast()
	p.mu.Unlock()
}

// HangUp ends the peer's side of the stream.
func (p *Pipe) HangUp() {
	p.mu.Lock()
	p.peerEOF = true
	p.broadcast()
	p.mu.Unlock()
}

func (p *Pipe) Snapshot() (accepted []byte, writes, reads int, faulted bool, atFault, later int, closed bool) {
	p.mu.Lock()
	defer p.mu.Unlock()
	return append([]byte(nil), p.Accepted...), p.Writes, p.Reads, p.Faulted, p.AcceptedAtFault, p.LaterWrites, p.closed
}

// FrameBytes marshals an rpc message built by build.
func FrameBytes(build func(m rpccp.Message) error) ([]byte, error) {
	msg, seg, err := capnp.NewMessage(capnp.MultiSegment(nil))
	if err != nil {
		return nil, err
	}
	rm, err := rpccp.NewRootMessage(seg)
	if err != nil {
		return nil, err
	}
	if err := build(rm); err != nil {
		return nil, err
	}
	return msg.Marshal()
}
