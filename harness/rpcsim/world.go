package rpcsim

import (
	"context"
	"fmt"
	"sync"

	capnp "capnproto.org/go/capnp/v3"
	"capnproto.org/go/capnp/v3/server"
	rpccp "capnproto.org/go/capnp/v3/std/capnp/rpc"
	"capnproto.org/go/capnp/v3/verifharness/capsim"
)

// The one method recording objects implement.
const (
	Iface  uint64 = 0xfeedface12345678
	Method uint16 = 3
)

// Behaviour flags carried in data word 1 of the params.
const (
	FlagHold     = 1 << 0 // Ack, then wait for the gate of this serial
	FlagErr      = 1 << 1 // return an error
	FlagCapShift = 2      // bits 2-3: capability placed in result pointer 0
	CapNone      = 0
	CapNewObject = 1       // a fresh local object
	CapSelf      = 2       // the object itself
	CapEchoParam = 3       // the capability received in params pointer 0
	FlagTwice    = 1 << 4  // the same capability also in result pointer 1
	FlagSecond   = 1 << 5  // a second, different fresh object in result pointer 1 (instead of FlagTwice's copy)
	SecondMark   = 1 << 40 // object-new events of the second object carry serial|SecondMark
	FlagNoCancel = 1 << 7  // with FlagHold: the implementation ignores the cancellation of its context
	FlagLateAck  = 1 << 6  // with FlagHold: the delivery is acknowledged only when the gate opens (the object stays busy)
)

// World holds the local application's recording objects.
type World struct {
	Log *capsim.Log

	mu      sync.Mutex
	objects []*Object
	gates   map[uint64]chan struct{}
	held    map[uint64]bool
	openTo  uint64 // every serial <= openTo is (or will be) let through
}

func NewWorld() *World {
	return &World{Log: &capsim.Log{}, gates: map[uint64]chan struct{}{}, held: map[uint64]bool{}}
}

// Object is a locally implemented capability backed by server.Server.
type Object struct {
	ID  int
	W   *World
	srv *server.Server

	mu        sync.Mutex
	shutdowns int
}

func (o *Object) Shutdown() {
	o.mu.Lock()
	o.shutdowns++
	o.mu.Unlock()
	o.W.Log.Add(capsim.Event{Kind: "object-shutdown", Hook: o.ID})
}

func (o *Object) Shutdowns() int {
	o.mu.Lock()
	defer o.mu.Unlock()
	return o.shutdowns
}

// NewObject creates an object and returns the first client reference to it.
func (w *World) NewObject() (*Object, *capnp.Client) {
	w.mu.Lock()
	o := &Object{ID: len(w.objects), W: w}
	w.objects = append(w.objects, o)
	w.mu.Unlock()
	o.srv = server.New([]server.Method{{Method: capnp.Method{InterfaceID: Iface, MethodID: Method}, Impl: o.do}}, o, o, &server.Policy{MaxConcurrentCalls: 64, AnswerQueueSize: 64})
	return o, capnp.NewClient(o.srv)
}

func (w *World) Objects() []*Object {
	w.mu.Lock()
	defer w.mu.Unlock()
	return append([]*Object(nil), w.objects...)
}

func (w *World) gate(serial uint64) chan struct{} {
	w.mu.Lock()
	defer w.mu.Unlock()
	g := w.gates[serial]
	if g == nil {
		g = make(chan struct{})
		w.gates[serial] = g
		if serial <= w.openTo {
			w.held[serial] = true
			close(g)
		}
	}
	return g
}

// OpenUpTo lets every held call with a serial <= max return, including calls that have not reached their gate yet.
func (w *World) OpenUpTo(max uint64) {
	w.mu.Lock()
	if max > w.openTo {
		w.openTo = max
	}
	w.mu.Unlock()
	w.OpenAll()
}

// Open lets the held call with this serial return.
func (w *World) Open(serial uint64) {
	g := w.gate(serial)
	w.mu.Lock()
	if !w.held[serial] {
		w.held[serial] = true
		close(g)
	}
	w.mu.Unlock()
}

// OpenAll opens every gate ever asked for and all future ones are opened lazily by callers.
func (w *World) OpenAll() {
	w.mu.Lock()
	serials := make([]uint64, 0, len(w.gates))
	for s := range w.gates {
		if s <= w.openTo || w.openTo == 0 {
			serials = append(serials, s)
		}
	}
	w.mu.Unlock()
	for _, s := range serials {
		w.Open(s)
	}
}

func (o *Object) do(ctx context.Context, call *server.Call) error {
	args := call.Args()
	serial, flags := args.Uint64(0), args.Uint64(8)
	o.W.Log.Add(capsim.Event{Kind: "deliver", Hook: o.ID, Call: serial})
	var echo *capnp.Client
	if (flags>>FlagCapShift)&3 == CapEchoParam {
		if p, err := args.Ptr(0); err == nil {
			echo = p.Interface().Client().AddRef()
		}
	}
	if flags&FlagLateAck == 0 || flags&FlagHold == 0 {
		call.Ack()
	}
	if flags&FlagHold != 0 && flags&FlagNoCancel != 0 {
		<-o.W.gate(serial)
	} else if flags&FlagHold != 0 {
		select {
		case <-o.W.gate(serial):
		case <-ctx.Done():
			o.W.Log.Add(capsim.Event{Kind: "deliver-cancelled", Hook: o.ID, Call: serial})
			echo.Release()
			return ctx.Err()
		}
	}
	if flags&FlagErr != 0 {
		o.W.Log.Add(capsim.Event{Kind: "impl-return", Hook: o.ID, Call: serial})
		echo.Release()
		return fmt.Errorf("object-error-%d", serial)
	}
	res, err := call.AllocResults(capnp.ObjectSize{DataSize: 8, PointerCount: 2})
	if err != nil {
		echo.Release()
		return err
	}
	res.SetUint64(0, serial)
	var c *capnp.Client
	switch (flags >> FlagCapShift) & 3 {
	case CapNewObject:
		var no *Object
		no, c = o.W.NewObject()
		o.W.Log.Add(capsim.Event{Kind: "object-new", Hook: no.ID, Call: serial})
	case CapSelf:
		c = nil // (reserved)
	case CapEchoParam:
		c = echo
	}
	if c != nil {
		id := res.Message().AddCap(c)
		if err := res.SetPtr(0, capnp.NewInterface(res.Segment(), id).ToPtr()); err != nil {
			return err
		}
		if flags&FlagSecond != 0 {
			no, c2 := o.W.NewObject()
			o.W.Log.Add(capsim.Event{Kind: "object-new", Hook: no.ID, Call: serial | SecondMark})
			id2 := res.Message().AddCap(c2)
			if err := res.SetPtr(1, capnp.NewInterface(res.Segment(), id2).ToPtr()); err != nil {
				return err
			}
		} else if flags&FlagTwice != 0 {
			id2 := res.Message().AddCap(c.AddRef())
			if err := res.SetPtr(1, capnp.NewInterface(res.Segment(), id2).ToPtr()); err != nil {
				return err
			}
		}
	}
	o.W.Log.Add(capsim.Event{Kind: "impl-return", Hook: o.ID, Call: serial})
	return nil
}

// Deliveries returns, per object id, the serials in delivery order.
func (w *World) Deliveries() map[int][]uint64 {
	out := map[int][]uint64{}
	for _, e := range w.Log.Snapshot() {
		if e.Kind == "deliver" {
			out[e.Hook] = append(out[e.Hook], e.Call)
		}
	}
	return out
}

// ---- peer message builders ---------------------------------------------------------------

// Target of a peer Call / Disembargo.
type Target struct {
	Answer    bool     `json:"answer,omitempty"` // promisedAnswer instead of importedCap
	ID        uint32   `json:"id"`
	Transform []uint16 `json:"transform,omitempty"`
}

func setTarget(t rpccp.MessageTarget, tgt Target) error {
	if !tgt.Answer {
		t.SetImportedCap(tgt.ID)
		return nil
	}
	pa, err := t.NewPromisedAnswer()
	if err != nil {
		return err
	}
	pa.SetQuestionId(tgt.ID)
	ops, err := pa.NewTransform(int32(len(tgt.Transform)))
	if err != nil {
		return err
	}
	for i, f := range tgt.Transform {
		ops.At(i).SetGetPointerField(f)
	}
	return nil
}

func setCaps(p rpccp.Payload, caps []CapDesc) error {
	if len(caps) == 0 {
		return nil
	}
	l, err := p.NewCapTable(int32(len(caps)))
	if err != nil {
		return err
	}
	for i, c := range caps {
		switch c.Kind {
		case "senderHosted":
			l.At(i).SetSenderHosted(c.ID)
		case "senderPromise":
			l.At(i).SetSenderPromise(c.ID)
		case "receiverHosted":
			l.At(i).SetReceiverHosted(c.ID)
		case "none":
			l.At(i).SetNone()
		}
	}
	return nil
}

// PeerCall describes a Call the peer sends.
type PeerCall struct {
	Q      uint32    `json:"q"`
	Target Target    `json:"target"`
	Serial uint64    `json:"serial"`
	Flags  uint64    `json:"flags"`
	Caps   []CapDesc `json:"caps,omitempty"` // params cap table; params pointer 0 refers to capability 0 if present
}

func (w *Wire) SendBootstrap(q uint32) error {
	return w.Push(func(m rpccp.Message) error {
		b, err := m.NewBootstrap()
		if err != nil {
			return err
		}
		b.SetQuestionId(q)
		return nil
	})
}

func (w *Wire) SendCall(c PeerCall) error {
	return w.Push(func(m rpccp.Message) error {
		call, err := m.NewCall()
		if err != nil {
			return err
		}
		call.SetQuestionId(c.Q)
		call.SetInterfaceId(Iface)
		call.SetMethodId(Method)
		t, err := call.NewTarget()
		if err != nil {
			return err
		}
		if err := setTarget(t, c.Target); err != nil {
			return err
		}
		p, err := call.NewParams()
		if err != nil {
			return err
		}
		s, err := capnp.NewStruct(p.Segment(), capnp.ObjectSize{DataSize: 16, PointerCount: 1})
		if err != nil {
			return err
		}
		s.SetUint64(0, c.Serial)
		s.SetUint64(8, c.Flags)
		if len(c.Caps) > 0 {
			if err := s.SetPtr(0, capnp.NewInterface(p.Segment(), 0).ToPtr()); err != nil {
				return err
			}
		}
		if err := p.SetContent(s.ToPtr()); err != nil {
			return err
		}
		return setCaps(p, c.Caps)
	})
}

func (w *Wire) SendFinish(q uint32, releaseResultCaps bool) error {
	return w.Push(func(m rpccp.Message) error {
		f, err := m.NewFinish()
		if err != nil {
			return err
		}
		f.SetQuestionId(q)
		f.SetReleaseResultCaps(releaseResultCaps)
		return nil
	})
}

func (w *Wire) SendRelease(id, count uint32) error {
	return w.Push(func(m rpccp.Message) error {
		r, err := m.NewRelease()
		if err != nil {
			return err
		}
		r.SetId(id)
		r.SetReferenceCount(count)
		return nil
	})
}

// PeerReturn describes a Return the peer sends for one of the Conn's questions.
type PeerReturn struct {
	A          uint32    `json:"a"`
	Exc        string    `json:"exc,omitempty"` // exception reason (if set, an exception Return)
	Serial     uint64    `json:"serial"`
	Caps       []CapDesc `json:"caps,omitempty"` // results pointer i refers to capability i
	RelParams  bool      `json:"release_param_caps"`
	ContentCap bool      `json:"content_cap,omitempty"` // the content is an interface pointer to capability 0 (a Bootstrap answer)
}

func (w *Wire) SendReturn(r PeerReturn) error {
	return w.Push(func(m rpccp.Message) error {
		ret, err := m.NewReturn()
		if err != nil {
			return err
		}
		ret.SetAnswerId(r.A)
		ret.SetReleaseParamCaps(r.RelParams)
		if r.Exc != "" {
			e, err := ret.NewException()
			if err != nil {
				return err
			}
			e.SetType(rpccp.Exception_Type_failed)
			return e.SetReason(r.Exc)
		}
		p, err := ret.NewResults()
		if err != nil {
			return err
		}
		if r.ContentCap {
			if err := p.SetContent(capnp.NewInterface(p.Segment(), 0).ToPtr()); err != nil {
				return err
			}
			return setCaps(p, r.Caps)
		}
		s, err := capnp.NewStruct(p.Segment(), capnp.ObjectSize{DataSize: 8, PointerCount: 2})
		if err != nil {
			return err
		}
		s.SetUint64(0, r.Serial)
		for i := range r.Caps {
			if i < 2 {
				if err := s.SetPtr(uint16(i), capnp.NewInterface(p.Segment(), capnp.CapabilityID(i)).ToPtr()); err != nil {
					return err
				}
			}
		}
		if err := p.SetContent(s.ToPtr()); err != nil {
			return err
		}
		return setCaps(p, r.Caps)
	})
}

func (w *Wire) SendDisembargo(tgt Target, ctxKind string, id uint32) error {
	return w.Push(func(m rpccp.Message) error {
		d, err := m.NewDisembargo()
		if err != nil {
			return err
		}
		t, err := d.NewTarget()
		if err != nil {
			return err
		}
		if err := setTarget(t, tgt); err != nil {
			return err
		}
		switch ctxKind {
		case "senderLoopback":
			d.Context().SetSenderLoopback(id)
		case "receiverLoopback":
			d.Context().SetReceiverLoopback(id)
		case "accept":
			d.Context().SetAccept()
		case "provide":
			d.Context().SetProvide(id)
		}
		return nil
	})
}

// SendMarker sends a message kind the Conn does not implement; the Unimplemented echo that comes back tells the
// peer that every earlier message has been processed (the receive loop is sequential).
func (w *Wire) SendMarker(tag uint32) error {
	return w.Push(func(m rpccp.Message) error {
		j, err := m.NewJoin()
		if err != nil {
			return err
		}
		j.SetQuestionId(tag)
		return nil
	})
}
