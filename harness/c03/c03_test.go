package c03

import (
	"fmt"
	"testing"

	capnp "capnproto.org/go/capnp/v3"
	"capnproto.org/go/capnp/v3/verifharness/gen"
	"capnproto.org/go/capnp/v3/verifharness/hx"
	"capnproto.org/go/capnp/v3/verifharness/pbt"
	"capnproto.org/go/capnp/v3/verifharness/ref"
	"capnproto.org/go/capnp/v3/verifharness/walk"
	"pgregory.net/rapid"
)

func TestProp(t *testing.T)   { pbt.RunProps(t) }
func TestReplay(t *testing.T) { pbt.RunReplay(t) }

// Case: a value tree, an encoding plan and how the bytes reach the library.
type validCase struct {
	Value ref.Value `json:"value"`
	Plan  ref.Plan  `json:"plan"`
	Via   int       `json:"via"` // 0 MultiSegment, 1 SingleSegment (forces 1 seg), 2 Unmarshal(frame), 3 UnmarshalPacked(ref.Pack(frame))
}

func open(segs [][]byte, via int) (*capnp.Message, error) {
	switch via {
	case 1:
		if len(segs) == 1 {
			return &capnp.Message{Arena: capnp.SingleSegment(segs[0]), TraverseLimit: 1 << 40}, nil
		}
		fallthrough
	case 0:
		return &capnp.Message{Arena: capnp.MultiSegment(segs), TraverseLimit: 1 << 40}, nil
	case 2:
		m, err := capnp.Unmarshal(ref.Frame(segs))
		if m != nil {
			m.TraverseLimit = 1 << 40
		}
		return m, err
	default:
		m, err := capnp.UnmarshalPacked(ref.Pack(ref.Frame(segs), nil))
		if m != nil {
			m.TraverseLimit = 1 << 40
		}
		return m, err
	}
}

func classifyValue(v ref.Value, res *pbt.Result, seen map[string]bool) {
	mark := func(s string) {
		if !seen[s] {
			seen[s] = true
			res.Class(s)
		}
	}
	switch v.Kind {
	case ref.KStruct:
		if len(v.Data) == 0 && len(v.Ptrs) == 0 {
			mark("has:zero-sized-struct")
		}
		for _, p := range v.Ptrs {
			classifyValue(p, res, seen)
		}
	case ref.KList:
		mark(fmt.Sprintf("has:list-kind-%d", v.LK))
		for _, e := range v.Elems {
			classifyValue(e, res, seen)
		}
	case ref.KCap:
		mark("has:cap")
	}
}

func runValid(c validCase) (pbt.Result, error) {
	var res pbt.Result
	if c.Via == 1 {
		c.Plan.NSegs = 1
	}
	L, err := ref.Encode(ref.FromValue(c.Value), c.Plan)
	if err != nil {
		return res, nil // plan not encodable (too large): not a case
	}
	// sanity of the oracle itself (never a verdict on the library)
	if back, derr := ref.Decode(L.Segs, c.Plan.PadFill == 0); derr != nil || !ref.Identical(back, c.Value) {
		panic(fmt.Sprintf("harness: ref cannot round-trip its own encoding: %v", derr))
	}
	seen := map[string]bool{}
	classifyValue(c.Value, &res, seen)
	res.Class("via:%d", c.Via)
	res.Class("segs:%d", len(L.Segs))
	if L.Stats.Far > 0 {
		res.Class("has:far")
	}
	if L.Stats.DoubleFar > 0 {
		res.Class("has:double-far")
	}
	depth := c.Value.Depth()
	res.Nontrivial = depth >= 2 && (L.Stats.Far > 0 || L.Stats.DoubleFar > 0 || seen["has:list-kind-7"] || seen["has:zero-sized-struct"])

	segs, _ := hx.Carve(L.Segs)
	msg, err := open(segs, c.Via)
	if err != nil {
		return res, pbt.Fail("open-valid-message", "cannot open a spec-valid message (via %d): %v", c.Via, err)
	}
	// segments as seen through the API must be the supplied bytes
	d := &ref.Decoder{Segs: L.Segs}
	w := &walk.Walker{D: d, Valid: true}
	if err := w.Root(msg); err != nil {
		return res, err
	}
	res.Count("derefs", int64(w.OK))
	return res, nil
}

var _ = pbt.Register(pbt.Spec[validCase]{
	Property: "C03", Name: "valid",
	Rule:     "value tree (depth<=4; structs 0-3 data words x 0-3 pointers incl. zero-sized; all 8 list kinds; composite lists with/without pointers and n=0; caps) encoded by ref.Encode under a drawn plan (1-5 segments, object placement/order, per-edge near/far/double-far, junk gaps, non-canonical zero-size offsets), opened via MultiSegment/SingleSegment/Unmarshal/UnmarshalPacked; oracle: lock-step walk of the public API against the independent decoder: every struct size, every data read at widths 1/8/16/32/64 at all offsets incl. past-the-end (=0), every Ptr(i) incl. past-the-end (=null), HasPtr, list lengths/elements through typed wrappers, primitive-list elements viewed as structs, composite lists viewed through primitive and pointer wrappers, Text/Data bytes, capability indices. Non-trivial: depth>=2 and the encoding has a far or double-far pointer, a composite list or a zero-sized struct.",
	Quick:    12000, Thorough: 250000,
	Gen: func(t *rapid.T) validCase {
		c := validCase{
			Value: gen.ValueTree(t, gen.TreeOpts{MaxDepth: rapid.IntRange(1, 4).Draw(t, "depth"), Caps: true, MaxCap: 4}),
			Plan:  gen.Plan(t, 5),
			Via:   rapid.IntRange(0, 3).Draw(t, "via"),
		}
		if rapid.IntRange(0, 3).Draw(t, "padfill") == 0 {
			// list padding (unused bits of a bit list's last byte, bytes up to the word boundary) is not zero: it denotes nothing
			c.Plan.PadFill = byte(rapid.SampledFrom([]int{0xff, 0xa5, 0xf0, 0x80}).Draw(t, "pad"))
		}
		return c
	},
	Run: runValid,
})

// ---------------------------------------------------------------------------
// second sentence: whenever a read succeeds on ANY input, the bytes it was
// derived from lie inside the segments.

type hostileCase struct {
	Value ref.Value      `json:"value"`
	Plan  ref.Plan       `json:"plan"`
	Muts  []gen.Mutation `json:"mutations"`
	Trunc []int          `json:"truncate_words"` // per segment: drop this many trailing words (mod len)
}

func runHostile(c hostileCase) (pbt.Result, error) {
	var res pbt.Result
	L, err := ref.Encode(ref.FromValue(c.Value), c.Plan)
	if err != nil {
		return res, nil
	}
	raw := hx.CloneSegs(L.Segs)
	gen.Apply(raw, c.Muts)
	for i := range raw {
		if i < len(c.Trunc) && len(raw[i]) > 0 {
			k := c.Trunc[i] % (len(raw[i])/8 + 1)
			if i == 0 && k >= len(raw[i])/8 {
				k = len(raw[i])/8 - 1
			}
			raw[i] = raw[i][:len(raw[i])-8*k]
		}
	}
	segs, _ := hx.Carve(raw)
	msg := &capnp.Message{Arena: capnp.MultiSegment(segs), TraverseLimit: 1 << 40}
	d := &ref.Decoder{Segs: raw}
	w := &walk.Walker{D: d, Valid: false, MaxSteps: 3000}
	werr := w.Root(msg)
	for k := range w.Errs {
		res.Class("err:" + k)
	}
	res.Count("derefs", int64(w.OK))
	nerr := 0
	for _, n := range w.Errs {
		nerr += n
	}
	res.Nontrivial = w.OK >= 1 && nerr >= 1
	return res, werr
}

var _ = pbt.Register(pbt.Spec[hostileCase]{
	Property: "C03", Name: "hostile-bounds",
	Rule:     "a valid encoding with 1-4 words overwritten by words from the hostile-pointer grammar (struct/list/far/double-far/cap/other/tag words with boundary targets, sizes and counts) and segments truncated; oracle: lock-step walk; whenever the API dereferences a pointer successfully the independent decoder must find the target extent inside its segment (bounds/segment-range failures of the reference are violations, shape-only differences are not) and for resolvable pointers nothing is asserted beyond bounds. Non-trivial: >=1 successful dereference and >=1 API error in the same walk.",
	Quick:    30000, Thorough: 700000,
	Gen: func(t *rapid.T) hostileCase {
		v := gen.ValueTree(t, gen.TreeOpts{MaxDepth: rapid.IntRange(1, 3).Draw(t, "depth"), Caps: true, MaxCap: 4})
		plan := gen.Plan(t, 4)
		c := hostileCase{Value: v, Plan: plan}
		L, err := ref.Encode(ref.FromValue(v), plan)
		if err == nil {
			c.Muts = gen.MutateWords(t, L.Segs, 4)
		}
		if rapid.IntRange(0, 3).Draw(t, "trunc") == 0 {
			c.Trunc = rapid.SliceOfN(rapid.IntRange(0, 8), 1, 4).Draw(t, "truncw")
		}
		return c
	},
	Run: runHostile,
})
