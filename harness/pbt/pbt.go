// Package pbt is the glue between rapid and the vcheck driver: every
// property is a set of Specs ("sub-checks"), each a pair
// (generator -> serialisable Case, runCase(Case) -> Result/error).
//
// A Spec run:
//   - derives rapid's seed from VERIF_SEED, the sub-check name and the shard,
//   - journals the case about to run (crash forensics),
//   - classifies every case (classes, non-trivial, distinct hash),
//   - on failure writes a replay file holding the (shrunk) Case as JSON,
//   - looks the failure signature up in known_findings.json,
//   - writes a stats file the driver merges into evidence/<id>.json.
//
// Replay bypasses rapid: the Case is read back from JSON and fed to Run.
package pbt

import (
	"encoding/json"
	"flag"
	"fmt"
	"hash/fnv"
	"os"
	"path/filepath"
	"runtime"
	"runtime/debug"
	"sort"
	"strconv"
	"strings"
	"sync"
	"syscall"
	"testing"
	"time"

	"pgregory.net/rapid"
)

// Result classifies one executed case.
type Result struct {
	Classes    []string         // labels counted in the class histogram
	Nontrivial bool             // by the Spec's Rule
	Counts     map[string]int64 // additive counters (e.g. field checks)
}

func (r *Result) Class(format string, args ...interface{}) {
	if len(args) == 0 {
		r.Classes = append(r.Classes, format)
		return
	}
	r.Classes = append(r.Classes, fmt.Sprintf(format, args...))
}

func (r *Result) Count(name string, n int64) {
	if r.Counts == nil {
		r.Counts = map[string]int64{}
	}
	r.Counts[name] += n
}

// Violation is an oracle failure with a stable signature that names the
// failing input class / call site (used for known-findings lookup).
type Violation struct {
	Sig string
	Msg string
}

func (v *Violation) Error() string { return v.Sig + ": " + v.Msg }

// Fail builds a Violation.
func Fail(sig, format string, args ...interface{}) error {
	return &Violation{Sig: sig, Msg: fmt.Sprintf(format, args...)}
}

// Spec is one generated check.
type Spec[C any] struct {
	Property string // "C13"
	Name     string // sub-check name
	Rule     string // how cases are generated and what makes one non-trivial
	Quick    int    // rapid checks in the quick tier
	Thorough int    // rapid checks per shard in the thorough tier
	Gen      func(t *rapid.T) C
	Run      func(c C) (Result, error)
	// Seeds are fixed regression cases run before generation (plain replay tier).
	Seeds []C
	// NoJournal disables the per-case crash journal (very cheap cases).
	NoJournal bool
}

type runner interface {
	name() string
	property() string
	check(t *testing.T)
	replay(raw json.RawMessage) error
}

var registry []runner

// Register adds a Spec to the package's registry (call from init or a var decl).
func Register[C any](s Spec[C]) bool {
	registry = append(registry, &specRunner[C]{s: s})
	return true
}

type specRunner[C any] struct{ s Spec[C] }

func (r *specRunner[C]) name() string     { return r.s.Name }
func (r *specRunner[C]) property() string { return r.s.Property }

// ---- environment ----------------------------------------------------------

type envT struct {
	tier      string
	seed      uint64
	shard     int
	nshards   int
	statsDir  string
	replayOut string
	journal   string
	known     []KnownFinding
	scale     float64
}

type KnownFinding struct {
	Property  string `json:"property"`
	Kind      string `json:"kind"` // "known" | "fixed"
	Signature string `json:"signature"`
	Commit    string `json:"commit,omitempty"`
	What      string `json:"what"`
}

var (
	envOnce sync.Once
	env     envT
)

func getenv() *envT {
	envOnce.Do(func() {
		env.tier = os.Getenv("VERIF_TIER")
		if env.tier == "" {
			env.tier = "quick"
		}
		env.seed, _ = strconv.ParseUint(os.Getenv("VERIF_SEED"), 10, 64)
		env.shard, _ = strconv.Atoi(os.Getenv("VERIF_SHARD"))
		env.nshards, _ = strconv.Atoi(os.Getenv("VERIF_NSHARDS"))
		if env.nshards == 0 {
			env.nshards = 1
		}
		env.statsDir = os.Getenv("VERIF_STATS_DIR")
		env.replayOut = os.Getenv("VERIF_REPLAY_OUT")
		env.journal = os.Getenv("VERIF_JOURNAL")
		env.scale = 1
		if s := os.Getenv("VERIF_SCALE"); s != "" {
			if f, err := strconv.ParseFloat(s, 64); err == nil && f > 0 {
				env.scale = f
			}
		}
		kf := os.Getenv("VERIF_KNOWN")
		if kf == "" {
			kf = "/verif/known_findings.json"
		}
		if b, err := os.ReadFile(kf); err == nil {
			var all []KnownFinding
			if json.Unmarshal(b, &all) == nil {
				for _, k := range all {
					if k.Kind == "known" {
						env.known = append(env.known, k)
					}
				}
			}
		}
	})
	return &env
}

func splitmix(x uint64) uint64 {
	x += 0x9e3779b97f4a7c15
	x = (x ^ (x >> 30)) * 0xbf58476d1ce4e5b9
	x = (x ^ (x >> 27)) * 0x94d049bb133111eb
	return x ^ (x >> 31)
}

func hashStr(s string) uint64 {
	h := fnv.New64a()
	h.Write([]byte(s))
	return h.Sum64()
}

// ---- stats ------------------------------------------------------------------

type SubStats struct {
	Property    string            `json:"property"`
	Name        string            `json:"name"`
	Rule        string            `json:"rule"`
	Seed        uint64            `json:"rapid_seed"`
	Evaluations int64             `json:"evaluations"`
	Nontrivial  int64             `json:"nontrivial"`
	Hashes      []uint64          `json:"hashes"` // distinct hashes of non-trivial cases
	Classes     map[string]int64  `json:"classes"`
	Counts      map[string]int64  `json:"counts"`
	Samples     []json.RawMessage `json:"samples"`
	KnownHits   map[string]int64  `json:"known_hits"`
	Failed      bool              `json:"failed"`
	FailSig     string            `json:"fail_sig,omitempty"`
	WallS       float64           `json:"wall_s"`

	hashSet map[uint64]struct{}
}

func (st *SubStats) record(js []byte, res Result) {
	st.Evaluations++
	for _, c := range res.Classes {
		st.Classes[c]++
	}
	for k, v := range res.Counts {
		st.Counts[k] += v
	}
	if res.Nontrivial {
		st.Nontrivial++
		h := hashStr(st.Name) ^ splitmix(hashBytes(js))
		if _, ok := st.hashSet[h]; !ok && len(st.hashSet) < 2_000_000 {
			st.hashSet[h] = struct{}{}
			if len(st.Samples) < 3 {
				s := js
				if len(s) > 6000 {
					s, _ = json.Marshal(map[string]interface{}{"truncated_case_prefix": string(js[:6000])})
				}
				st.Samples = append(st.Samples, append(json.RawMessage(nil), s...))
			}
		}
	}
}

func hashBytes(b []byte) uint64 {
	h := fnv.New64a()
	h.Write(b)
	return h.Sum64()
}

func (st *SubStats) flush(dir string, shard int) {
	if dir == "" {
		return
	}
	st.Hashes = st.Hashes[:0]
	for h := range st.hashSet {
		st.Hashes = append(st.Hashes, h)
	}
	sort.Slice(st.Hashes, func(i, j int) bool { return st.Hashes[i] < st.Hashes[j] })
	b, _ := json.Marshal(st)
	_ = os.MkdirAll(dir, 0o755)
	tmp := filepath.Join(dir, fmt.Sprintf("%s.%d.json.tmp", st.Name, shard))
	_ = os.WriteFile(tmp, b, 0o644)
	_ = os.Rename(tmp, strings.TrimSuffix(tmp, ".tmp"))
}

// ---- replay / journal files ---------------------------------------------------

type ReplayFile struct {
	Property string          `json:"property"`
	Sub      string          `json:"sub"`
	Sig      string          `json:"sig,omitempty"`
	Msg      string          `json:"msg,omitempty"`
	Case     json.RawMessage `json:"case"`
}

var journalMu sync.Mutex
var journalF *os.File

func journalWrite(prop, sub string, js []byte) {
	e := getenv()
	if e.journal == "" {
		return
	}
	journalMu.Lock()
	defer journalMu.Unlock()
	if journalF == nil {
		f, err := os.OpenFile(e.journal, os.O_CREATE|os.O_RDWR|os.O_TRUNC, 0o644)
		if err != nil {
			return
		}
		journalF = f
	}
	b, _ := json.Marshal(ReplayFile{Property: prop, Sub: sub, Case: js})
	journalF.WriteAt(b, 0)
	journalF.Truncate(int64(len(b)))
}

func writeReplay(prop, sub string, js []byte, v *Violation) {
	e := getenv()
	if e.replayOut == "" {
		return
	}
	b, _ := json.MarshalIndent(ReplayFile{Property: prop, Sub: sub, Sig: v.Sig, Msg: v.Msg, Case: js}, "", " ")
	_ = os.WriteFile(e.replayOut+"."+sub+".json", b, 0o644)
}

// ---- running ----------------------------------------------------------------

func toViolation(err error) *Violation {
	if v, ok := err.(*Violation); ok {
		return v
	}
	return &Violation{Sig: "error", Msg: err.Error()}
}

func safeRun[C any](run func(C) (Result, error), c C) (res Result, err error) {
	defer func() {
		if r := recover(); r != nil {
			msg := fmt.Sprint(r)
			short := msg
			if len(short) > 80 {
				short = short[:80]
			}
			err = &Violation{Sig: "panic/" + short, Msg: msg + "\n" + string(debug.Stack())}
		}
	}()
	return run(c)
}

func matchKnown(prop string, v *Violation) *KnownFinding {
	for i := range getenv().known {
		k := &getenv().known[i]
		if k.Property == prop && (k.Signature == v.Sig || strings.HasPrefix(v.Sig, k.Signature+"/")) {
			return k
		}
	}
	return nil
}

func (r *specRunner[C]) check(t *testing.T) {
	e := getenv()
	s := r.s
	seed := splitmix(e.seed^hashStr(s.Property+"/"+s.Name)^splitmix(uint64(e.shard))) | 1
	checks := s.Quick
	if e.tier == "thorough" {
		checks = s.Thorough
	}
	checks = int(float64(checks) * e.scale)
	if checks < 1 {
		checks = 1
	}
	flag.Set("rapid.seed", strconv.FormatUint(seed, 10))
	flag.Set("rapid.checks", strconv.Itoa(checks))
	flag.Set("rapid.nofailfile", "true")
	if e.tier == "thorough" {
		flag.Set("rapid.shrinktime", "60s")
	} else {
		flag.Set("rapid.shrinktime", "20s")
	}
	st := &SubStats{Property: s.Property, Name: s.Name, Rule: s.Rule, Seed: seed,
		Classes: map[string]int64{}, Counts: map[string]int64{}, KnownHits: map[string]int64{}, hashSet: map[uint64]struct{}{}}
	start := time.Now()
	defer func() {
		st.WallS = time.Since(start).Seconds()
		st.flush(e.statsDir, e.shard)
	}()

	one := func(c C, fatal func(format string, args ...any)) {
		js, jerr := json.Marshal(c)
		if jerr != nil {
			panic("pbt: case not serialisable: " + jerr.Error())
		}
		if !s.NoJournal {
			journalWrite(s.Property, s.Name, js)
		}
		res, err := safeRun(s.Run, c)
		st.record(js, res)
		if err == nil {
			return
		}
		v := toViolation(err)
		if k := matchKnown(s.Property, v); k != nil {
			st.KnownHits[k.Signature]++
			return
		}
		st.Failed = true
		st.FailSig = v.Sig
		writeReplay(s.Property, s.Name, js, v)
		fatal("VIOLATION-CANDIDATE %s/%s sig=%s\n%s", s.Property, s.Name, v.Sig, v.Msg)
	}
	for _, c := range s.Seeds {
		one(c, t.Fatalf)
	}
	rapid.Check(t, func(rt *rapid.T) {
		c := s.Gen(rt)
		one(c, rt.Fatalf)
	})
}

func (r *specRunner[C]) replay(raw json.RawMessage) error {
	var c C
	if err := json.Unmarshal(raw, &c); err != nil {
		return fmt.Errorf("replay: cannot decode case: %v", err)
	}
	_, err := safeRun(r.s.Run, c)
	return err
}

// Main runs every registered Spec as a subtest (TestProp), or, when
// VERIF_REPLAY names a replay file, only that case (TestReplay).
func RunProps(t *testing.T) {
	only := os.Getenv("VERIF_ONLY")
	for _, r := range registry {
		r := r
		if only != "" && !strings.Contains(","+only+",", ","+r.name()+",") {
			continue
		}
		t.Run(r.name(), r.check)
	}
}

func RunReplay(t *testing.T) {
	path := os.Getenv("VERIF_REPLAY")
	if path == "" {
		t.Skip("VERIF_REPLAY not set")
	}
	b, err := os.ReadFile(path)
	if err != nil {
		t.Fatalf("replay: %v", err)
	}
	var rf ReplayFile
	if err := json.Unmarshal(b, &rf); err != nil {
		t.Fatalf("replay: %v", err)
	}
	n := 1
	if s := os.Getenv("VERIF_REPLAY_TIMES"); s != "" {
		n, _ = strconv.Atoi(s)
	}
	for _, r := range registry {
		if r.name() == rf.Sub {
			for i := 0; i < n; i++ {
				if err := r.replay(rf.Case); err != nil {
					v := toViolation(err)
					if k := matchKnown(rf.Property, v); k != nil {
						t.Logf("KNOWN-FINDING-HIT %s", k.Signature)
						return
					}
					t.Fatalf("REPLAY-FAILED %s/%s sig=%s\n%s", rf.Property, rf.Sub, v.Sig, v.Msg)
				}
			}
			t.Logf("replay passed (%d runs)", n)
			return
		}
	}
	t.Fatalf("replay: no sub-check %q in this package", rf.Sub)
}

// WithDeadline runs f on its own goroutine and reports whether it finished
// within d. It is only ever used to detect "blocked forever".
func WithDeadline(d time.Duration, f func()) bool {
	done := make(chan struct{})
	go func() {
		defer close(done)
		f()
	}()
	tm := time.NewTimer(d)
	defer tm.Stop()
	select {
	case <-done:
		return true
	case <-tm.C:
		return false
	}
}

// WithCPUBudget runs f and reports whether it returned before the process had burnt d of processor time (or 8*d of
// wall-clock time had passed).  For computations that never block, an endless loop shows as processor time; measuring
// that instead of the wall clock keeps the verdict independent of how busy the machine is.
func WithCPUBudget(d time.Duration, f func()) bool {
	done := make(chan struct{})
	go func() {
		defer close(done)
		f()
	}()
	cpu0, t0 := cpuTime(), time.Now()
	tick := time.NewTicker(200 * time.Millisecond)
	defer tick.Stop()
	winStart, winCPU := t0, cpu0
	for {
		select {
		case <-done:
			return true
		case now := <-tick.C:
			cpu := cpuTime()
			if cpu-cpu0 > d || now.Sub(t0) > 8*d {
				return false
			}
			// blocked rather than looping: 20 s of wall-clock time without processor time
			if now.Sub(winStart) >= 20*time.Second {
				if cpu-winCPU < 200*time.Millisecond {
					return false
				}
				winStart, winCPU = now, cpu
			}
		}
	}
}

func cpuTime() time.Duration {
	var ru syscall.Rusage
	if err := syscall.Getrusage(syscall.RUSAGE_SELF, &ru); err != nil {
		return 0
	}
	return time.Duration(ru.Utime.Nano() + ru.Stime.Nano())
}

// Tier returns "quick" or "thorough".
func Tier() string { return getenv().tier }

// Stacks returns the stacks of all goroutines that contain the substring
// (diagnostics for "did not return" failures).
func Stacks(contains string) string {
	buf := make([]byte, 4<<20)
	buf = buf[:runtime.Stack(buf, true)]
	var out []string
	for _, g := range strings.Split(string(buf), "\n\n") {
		if strings.Contains(g, contains) && !strings.Contains(g, "pbt.Stacks") {
			lines := strings.Split(g, "\n")
			if len(lines) > 24 {
				lines = lines[:24]
			}
			out = append(out, strings.Join(lines, "\n"))
		}
	}
	if len(out) > 8 {
		out = out[:8]
	}
	return strings.Join(out, "\n\n")
}
