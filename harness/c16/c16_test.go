package c16

import (
	"bytes"
	"fmt"
	"testing"

	capnp "capnproto.org/go/capnp/v3"
	"capnproto.org/go/capnp/v3/verifharness/build"
	"capnproto.org/go/capnp/v3/verifharness/capsim"
	"capnproto.org/go/capnp/v3/verifharness/gen"
	"capnproto.org/go/capnp/v3/verifharness/hx"
	"capnproto.org/go/capnp/v3/verifharness/pbt"
	"capnproto.org/go/capnp/v3/verifharness/ref"
	"pgregory.net/rapid"
)

func TestProp(t *testing.T)   { pbt.RunProps(t) }
func TestReplay(t *testing.T) { pbt.RunReplay(t) }

const (
	opSetRoot = iota
	opSetPtr
	opPtrListSet
	opSetStruct
	opCopyFrom
	nOps
)

const (
	stageNone = iota
	stageCopyFrom
	stageSetStruct
	stageMemberSetPtr
	stagePrimMember // a member of an 8-byte or pointer list of the destination message, assigned within that message
	nStages
)

type Case struct {
	Src     ref.Value       `json:"src"`
	Plan    ref.Plan        `json:"src_plan"`
	Member  int             `json:"member"` // 0: the pointer itself; 1: element of a struct list wrapping Src (Src must be a struct); 2: element of a primitive list
	PrimLK  int             `json:"prim_lk"`
	Prim    ref.Bytes       `json:"prim"`
	Idx     int             `json:"idx"`
	Op      int             `json:"op"`
	Arena   build.ArenaSpec `json:"dst_arena"`
	DstDW   int             `json:"dst_dw"`
	DstPC   int             `json:"dst_pc"`
	Stage   int             `json:"same_message_stage"`
	StageDW int             `json:"stage_dw"`
	StagePC int             `json:"stage_pc"`
	CapIDs  []int           `json:"cap_ids"` // source cap table: identity per index (-1 nil)
	Prefill bool            `json:"prefill"`  // SetStruct/CopyFrom destinations already hold non-zero data and pointers
	PrimSel int             `json:"prim_sel"` // stagePrimMember: 0 UInt64 list, 1 pointer list, 2 UInt32 list
}

// prefill writes non-default content into every word and pointer of a destination struct.
func prefill(st capnp.Struct, dw, pc int) error {
	for i := 0; i < dw; i++ {
		st.SetUint64(capnp.DataOffset(i*8), 0x2222222222222222)
	}
	for i := 0; i < pc; i++ {
		if err := st.SetText(uint16(i), "previous content of the destination"); err != nil {
			return err
		}
	}
	return nil
}

// resize applies the documented version rule to the top-level struct only.
func resize(v ref.Value, dw, pc int) ref.Value {
	out := ref.Value{Kind: ref.KStruct, Data: make([]byte, dw*8)}
	copy(out.Data, v.Data)
	for i := 0; i < pc; i++ {
		if i < len(v.Ptrs) {
			out.Ptrs = append(out.Ptrs, v.Ptrs[i])
		} else {
			out.Ptrs = append(out.Ptrs, ref.Null())
		}
	}
	if len(out.Data) == 0 {
		out.Data = nil
	}
	return out
}

func zeroStruct(dw, pc int) ref.Value { return resize(ref.Value{Kind: ref.KStruct}, dw, pc) }

func countCaps(v ref.Value) int {
	n := 0
	if v.Kind == ref.KCap {
		n++
	}
	for _, p := range v.Ptrs {
		n += countCaps(p)
	}
	for _, e := range v.Elems {
		n += countCaps(e)
	}
	return n
}

// pairCaps walks src and dst trees (same shape) and reports (srcIdx,dstIdx) for each capability pointer.
func pairCaps(s, d ref.Value, f func(si, di uint32)) {
	if s.Kind == ref.KCap && d.Kind == ref.KCap {
		f(s.Cap, d.Cap)
	}
	for i := range s.Ptrs {
		if i < len(d.Ptrs) {
			pairCaps(s.Ptrs[i], d.Ptrs[i], f)
		}
	}
	for i := range s.Elems {
		if i < len(d.Elems) {
			pairCaps(s.Elems[i], d.Elems[i], f)
		}
	}
}

// sameModuloCaps: Identical except capability indices.
func stripCaps(v ref.Value) ref.Value {
	out := v
	if v.Kind == ref.KCap {
		out.Cap = 0
	}
	if len(v.Ptrs) > 0 {
		out.Ptrs = make([]ref.Value, len(v.Ptrs))
		for i, p := range v.Ptrs {
			out.Ptrs[i] = stripCaps(p)
		}
	}
	if len(v.Elems) > 0 {
		out.Elems = make([]ref.Value, len(v.Elems))
		for i, e := range v.Elems {
			out.Elems[i] = stripCaps(e)
		}
	}
	return out
}

func run(c Case) (pbt.Result, error) {
	var res pbt.Result
	// ---- source message ----------------------------------------------------
	srcVal := c.Src     // what the source pointer denotes
	wrapped := c.Src    // what hangs off the source root's p0
	switch c.Member {
	case 1:
		if c.Src.Kind != ref.KStruct {
			return res, nil
		}
		z := zeroStruct(len(c.Src.Data)/8, len(c.Src.Ptrs))
		l := ref.Value{Kind: ref.KList, LK: ref.LComposite, N: 3, DW: len(c.Src.Data) / 8, PC: len(c.Src.Ptrs), Elems: []ref.Value{z, z, z}}
		l.Elems[c.Idx%3] = c.Src
		wrapped = l
	case 2:
		lk := ref.ListKind(c.PrimLK)
		sz := lk.ElemBytes()
		n := len(c.Prim) / sz
		if n == 0 {
			return res, nil
		}
		wrapped = ref.Value{Kind: ref.KList, LK: lk, N: n, Prim: c.Prim[:n*sz]}
		d := make([]byte, 8)
		copy(d, c.Prim[(c.Idx%n)*sz:(c.Idx%n+1)*sz])
		srcVal = ref.StructV(d) // a struct narrower than a word is copied as a one-word struct
	}
	needStruct := c.Op == opSetRoot || c.Op == opSetStruct || c.Op == opCopyFrom
	if needStruct && srcVal.Kind != ref.KStruct {
		return res, nil
	}
	L, err := ref.Encode(ref.FromValue(ref.StructV(nil, wrapped)), c.Plan)
	if err != nil {
		return res, nil
	}
	srcBefore := hx.CloneSegs(L.Segs)
	segs, _ := hx.Carve(L.Segs)
	srcMsg := &capnp.Message{Arena: capnp.MultiSegment(segs), TraverseLimit: 1 << 40}
	hooks := map[int]*capsim.CountingHook{}
	base := map[int]*capnp.Client{}
	for _, id := range c.CapIDs {
		if id < 0 {
			srcMsg.CapTable = append(srcMsg.CapTable, nil)
			continue
		}
		if hooks[id] == nil {
			hooks[id] = &capsim.CountingHook{Name: fmt.Sprint(id)}
			base[id] = capnp.NewClient(hooks[id])
		}
		srcMsg.CapTable = append(srcMsg.CapTable, base[id].AddRef())
	}
	sroot, err := srcMsg.Root()
	if err != nil {
		return res, pbt.Fail("harness/src-root", "%v", err)
	}
	sp, err := sroot.Struct().Ptr(0)
	if err != nil {
		return res, pbt.Fail("harness/src-ptr", "%v", err)
	}
	switch c.Member {
	case 1:
		sp = sp.List().Struct(c.Idx % 3).ToPtr()
	case 2:
		sp = sp.List().Struct(c.Idx % sp.List().Len()).ToPtr()
	}

	// ---- destination message ---------------------------------------------------
	dst, dseg, err := capnp.NewMessage(c.Arena.New())
	if err != nil {
		return res, pbt.Fail("new-message", "%v", err)
	}
	dst.TraverseLimit = 1 << 40
	droot, err := capnp.NewRootStruct(dseg, capnp.ObjectSize{PointerCount: 2})
	if err != nil {
		return res, pbt.Fail("api-error/NewRootStruct", "%v", err)
	}
	var expect0 ref.Value // expected value at root.p0 (or of the root for SetRoot)
	fail := func(op string, err error) (pbt.Result, error) {
		return res, pbt.Fail("api-error/"+op, "%s failed copying a valid source: %v\nsrc=%v", op, err, clip(srcVal))
	}
	switch c.Op {
	case opSetRoot:
		if err := dst.SetRoot(sp); err != nil {
			return fail("SetRoot", err)
		}
		expect0 = srcVal
	case opSetPtr:
		if err := droot.SetPtr(0, sp); err != nil {
			return fail("SetPtr", err)
		}
		expect0 = srcVal
	case opPtrListSet:
		pl, err := capnp.NewPointerList(dseg, 2)
		if err != nil {
			return fail("NewPointerList", err)
		}
		if err := droot.SetPtr(0, pl.ToPtr()); err != nil {
			return fail("SetPtr", err)
		}
		if err := pl.Set(1, sp); err != nil {
			return fail("PointerList.Set", err)
		}
		expect0 = ref.Value{Kind: ref.KList, LK: ref.LPtr, N: 2, Elems: []ref.Value{ref.Null(), srcVal}}
	case opSetStruct:
		cl, err := capnp.NewCompositeList(dseg, capnp.ObjectSize{DataSize: capnp.Size(c.DstDW * 8), PointerCount: uint16(c.DstPC)}, 2)
		if err != nil {
			return fail("NewCompositeList", err)
		}
		if err := droot.SetPtr(0, cl.ToPtr()); err != nil {
			return fail("SetPtr", err)
		}
		if c.Prefill {
			if err := prefill(cl.Struct(1), c.DstDW, c.DstPC); err != nil {
				return fail("prefill", err)
			}
		}
		if err := cl.SetStruct(1, sp.Struct()); err != nil {
			return fail("List.SetStruct", err)
		}
		expect0 = ref.Value{Kind: ref.KList, LK: ref.LComposite, N: 2, DW: c.DstDW, PC: c.DstPC,
			Elems: []ref.Value{zeroStruct(c.DstDW, c.DstPC), resize(srcVal, c.DstDW, c.DstPC)}}
	case opCopyFrom:
		d, err := capnp.NewStruct(dseg, capnp.ObjectSize{DataSize: capnp.Size(c.DstDW * 8), PointerCount: uint16(c.DstPC)})
		if err != nil {
			return fail("NewStruct", err)
		}
		if err := droot.SetPtr(0, d.ToPtr()); err != nil {
			return fail("SetPtr", err)
		}
		if c.Prefill {
			if err := prefill(d, c.DstDW, c.DstPC); err != nil {
				return fail("prefill", err)
			}
		}
		if err := d.CopyFrom(sp.Struct()); err != nil {
			return fail("Struct.CopyFrom", err)
		}
		expect0 = resize(srcVal, c.DstDW, c.DstPC)
	}
	res.Class("op:%d", c.Op)
	res.Class("member:%d", c.Member)

	// ---- same-message second stage ------------------------------------------------
	var expect1 ref.Value
	stage := c.Stage
	if c.Op == opSetRoot {
		stage = stageNone
	}
	if stage == stagePrimMember {
		pl, err := capnp.NewPointerList(dseg, 2)
		if err != nil {
			return fail("NewPointerList", err)
		}
		if err := droot.SetPtr(1, pl.ToPtr()); err != nil {
			return fail("SetPtr", err)
		}
		var listVal, memberVal ref.Value
		switch c.PrimSel % 3 {
		case 0:
			l, err := capnp.NewUInt64List(dseg, 3)
			if err != nil {
				return fail("NewUInt64List", err)
			}
			for i := 0; i < 3; i++ {
				l.Set(i, 0x1111111111111111*uint64(i+1))
			}
			if err := pl.Set(0, l.ToPtr()); err != nil {
				return fail("PointerList.Set", err)
			}
			if err := pl.Set(1, l.List.Struct(1).ToPtr()); err != nil {
				return fail("PointerList.Set(member of an 8-byte list, same message)", err)
			}
			l.Set(1, 0xdddddddddddddddd) // a later change of the list must not show through the copy
			prim := make([]byte, 24)
			for i, v := range []uint64{0x1111111111111111, 0xdddddddddddddddd, 0x3333333333333333} {
				for b := 0; b < 8; b++ {
					prim[i*8+b] = byte(v >> (8 * uint(b)))
				}
			}
			listVal = ref.Value{Kind: ref.KList, LK: ref.LB8, N: 3, Prim: prim}
			memberVal = ref.StructV([]byte{0x22, 0x22, 0x22, 0x22, 0x22, 0x22, 0x22, 0x22})
		case 2:
			l, err := capnp.NewUInt32List(dseg, 4)
			if err != nil {
				return fail("NewUInt32List", err)
			}
			for i := 0; i < 4; i++ {
				l.Set(i, 0x11111111*uint32(i+1))
			}
			if err := pl.Set(0, l.ToPtr()); err != nil {
				return fail("PointerList.Set", err)
			}
			if err := pl.Set(1, l.List.Struct(2).ToPtr()); err != nil {
				return fail("PointerList.Set(member of a 4-byte list, same message)", err)
			}
			l.Set(2, 0xdddddddd)
			prim := make([]byte, 16)
			for i, v := range []uint32{0x11111111, 0x22222222, 0xdddddddd, 0x44444444} {
				for b := 0; b < 4; b++ {
					prim[i*4+b] = byte(v >> (8 * uint(b)))
				}
			}
			listVal = ref.Value{Kind: ref.KList, LK: ref.LB4, N: 4, Prim: prim}
			memberVal = ref.StructV([]byte{0x33, 0x33, 0x33, 0x33, 0, 0, 0, 0})
		default:
			l, err := capnp.NewTextList(dseg, 2)
			if err != nil {
				return fail("NewTextList", err)
			}
			l.Set(0, "first")
			l.Set(1, "second")
			if err := pl.Set(0, l.ToPtr()); err != nil {
				return fail("PointerList.Set", err)
			}
			if err := pl.Set(1, l.List.Struct(1).ToPtr()); err != nil {
				return fail("PointerList.Set(member of a pointer list, same message)", err)
			}
			l.Set(1, "changed afterwards")
			listVal = ref.Value{Kind: ref.KList, LK: ref.LPtr, N: 2, Elems: []ref.Value{ref.TextV("first"), ref.TextV("changed afterwards")}}
			memberVal = ref.StructV(nil, ref.TextV("second"))
		}
		expect1 = ref.Value{Kind: ref.KList, LK: ref.LPtr, N: 2, Elems: []ref.Value{listVal, memberVal}}
		res.Class("stage:%d/%d", stage, c.PrimSel%3)
	} else if stage != stageNone {
		p0, err := droot.Ptr(0)
		if err != nil {
			return res, pbt.Fail("read-back-error", "%v", err)
		}
		var from capnp.Struct
		var fromVal ref.Value
		switch {
		case expect0.Kind == ref.KStruct:
			from, fromVal = p0.Struct(), expect0
		case expect0.Kind == ref.KList && expect0.LK == ref.LComposite && expect0.N > 0:
			from, fromVal = p0.List().Struct(expect0.N-1), expect0.Elems[expect0.N-1]
		default:
			stage = stageNone
		}
		if stage == stageMemberSetPtr && !(expect0.Kind == ref.KList && expect0.LK == ref.LComposite) {
			stage = stageCopyFrom
		}
		switch stage {
		case stageCopyFrom:
			d, err := capnp.NewStruct(dseg, capnp.ObjectSize{DataSize: capnp.Size(c.StageDW * 8), PointerCount: uint16(c.StagePC)})
			if err != nil {
				return fail("NewStruct", err)
			}
			if err := droot.SetPtr(1, d.ToPtr()); err != nil {
				return fail("SetPtr", err)
			}
			if err := d.CopyFrom(from); err != nil {
				return fail("Struct.CopyFrom(same message)", err)
			}
			expect1 = resize(fromVal, c.StageDW, c.StagePC)
		case stageSetStruct:
			cl, err := capnp.NewCompositeList(dseg, capnp.ObjectSize{DataSize: capnp.Size(c.StageDW * 8), PointerCount: uint16(c.StagePC)}, 1)
			if err != nil {
				return fail("NewCompositeList", err)
			}
			if err := droot.SetPtr(1, cl.ToPtr()); err != nil {
				return fail("SetPtr", err)
			}
			if err := cl.SetStruct(0, from); err != nil {
				return fail("List.SetStruct(same message)", err)
			}
			expect1 = ref.Value{Kind: ref.KList, LK: ref.LComposite, N: 1, DW: c.StageDW, PC: c.StagePC, Elems: []ref.Value{resize(fromVal, c.StageDW, c.StagePC)}}
		case stageMemberSetPtr:
			if err := droot.SetPtr(1, from.ToPtr()); err != nil {
				return fail("SetPtr(list member, same message)", err)
			}
			expect1 = fromVal
		}
		res.Class("stage:%d", stage)
	}

	// ---- the source must not have been written to; then it is scribbled over ----
	for i := range segs {
		if !bytes.Equal(segs[i], srcBefore[i]) {
			return res, pbt.Fail("source-modified", "copying wrote into segment %d of the source message", i)
		}
		for j := range segs[i] {
			segs[i][j] = 0xEE
		}
	}

	// ---- verify the destination with the independent decoder --------------------
	plain, err := dst.Marshal()
	if err != nil {
		return res, pbt.Fail("marshal-error", "%v", err)
	}
	dsegs, _, err := ref.Unframe(plain)
	if err != nil {
		return res, pbt.Fail("unframe-error", "%v", err)
	}
	d := &ref.Decoder{Segs: dsegs, Strict: true}
	got, err := d.Root()
	if err != nil {
		return res, pbt.Fail("dst-not-decodable", "independent strict decoder rejects the destination: %v", err)
	}
	if err := ref.CheckDisjoint(d.Extents); err != nil {
		return res, pbt.Fail("copy-shares-storage", "objects reachable from the destination root overlap (a copy aliases its source or a sibling): %v", err)
	}
	var got0, got1 ref.Value
	if c.Op == opSetRoot {
		got0 = got
	} else {
		if got.Kind != ref.KStruct || len(got.Ptrs) != 2 {
			return res, pbt.Fail("dst-root-shape", "destination root is %v", clip(got))
		}
		got0, got1 = got.Ptrs[0], got.Ptrs[1]
	}
	if !ref.Identical(stripCaps(got0), stripCaps(expect0)) {
		return res, pbt.Fail(fmt.Sprintf("value-differs/op%d/member%d", c.Op, c.Member), "copy does not equal the source (per version rules)\nwant=%v\ngot =%v", clip(expect0), clip(got0))
	}
	if stage != stageNone && !ref.Identical(stripCaps(got1), stripCaps(expect1)) {
		return res, pbt.Fail(fmt.Sprintf("value-differs/same-message-stage%d", stage), "same-message copy does not equal its source\nwant=%v\ngot =%v", clip(expect1), clip(got1))
	}
	// sizes differ / segments / caps
	ncaps := countCaps(expect0)
	res.Nontrivial = len(dsegs) >= 2 || ncaps > 0 || ((c.Op == opSetStruct || c.Op == opCopyFrom) && (c.DstDW != len(srcVal.Data)/8 || c.DstPC != len(srcVal.Ptrs)))
	res.Class("dst-segs>=2:%v", len(dsegs) >= 2)
	res.Class("caps:%v", ncaps > 0)

	// ---- capabilities re-homed ---------------------------------------------------
	if len(dst.CapTable) != ncaps {
		return res, pbt.Fail("cap-table-size", "destination cap table has %d entries for %d copied capability pointers", len(dst.CapTable), ncaps)
	}
	seenDst := map[uint32]bool{}
	var capErr error
	pairCaps(expect0, got0, func(si, di uint32) {
		if capErr != nil {
			return
		}
		if seenDst[di] {
			capErr = pbt.Fail("cap-entry-shared", "two copied capability pointers index the same new table entry %d", di)
			return
		}
		seenDst[di] = true
		if int(di) >= len(dst.CapTable) {
			capErr = pbt.Fail("cap-index-out-of-table", "copied capability pointer has index %d, table has %d entries", di, len(dst.CapTable))
			return
		}
		var want *capnp.Client
		if int(si) < len(srcMsg.CapTable) {
			want = srcMsg.CapTable[si]
		}
		gotc := dst.CapTable[di]
		if (want == nil) != (gotc == nil) {
			capErr = pbt.Fail("cap-nilness", "source client nil=%v, destination client nil=%v", want == nil, gotc == nil)
			return
		}
		if want != nil && !gotc.IsSame(want) {
			capErr = pbt.Fail("cap-identity", "destination entry %d is not the source's client (source index %d)", di, si)
		}
	})
	if capErr != nil {
		return res, capErr
	}
	// own reference: drop our base refs, reset the source; copied identities stay alive
	copied := map[int]bool{}
	pairCaps(expect0, got0, func(si, di uint32) {
		if int(si) < len(c.CapIDs) && c.CapIDs[si] >= 0 {
			copied[c.CapIDs[si]] = true
		}
	})
	for _, b := range base {
		b.Release()
	}
	srcMsg.Reset(capnp.SingleSegment(nil))
	for id, h := range hooks {
		want := 1
		if copied[id] {
			want = 0
		}
		if h.Count() != want {
			return res, pbt.Fail("cap-refcount/after-source-reset", "capability %d: Shutdown ran %d times after the source message was reset, want %d (copied=%v)", id, h.Count(), want, copied[id])
		}
	}
	dst.Reset(capnp.SingleSegment(nil))
	for id, h := range hooks {
		if h.Count() != 1 {
			return res, pbt.Fail("cap-refcount/after-both-reset", "capability %d: Shutdown ran %d times after both messages were reset, want exactly 1", id, h.Count())
		}
	}
	return res, nil
}

func clip(v ref.Value) string {
	s := v.String()
	if len(s) > 1200 {
		s = s[:1200] + "…"
	}
	return s
}

var _ = pbt.Register(pbt.Spec[Case]{
	Property: "C16", Name: "deep-copy",
	Rule:     "source: value tree (all kinds, caps) in a drawn encoding (1-4 segments, far/double-far), taken as a pointer, as a member of a struct list, or as a member of a 1/2/4/8-byte primitive list; destination: fresh message in 5 arena kinds (small/exact capacities so the copy itself exhausts segments), via SetRoot, Struct.SetPtr, PointerList.Set, List.SetStruct and Struct.CopyFrom into smaller/equal/larger struct sizes; SetStruct/CopyFrom destinations are zeroed or pre-filled with non-default data and pointers; optional second stage copying inside the destination message (CopyFrom, SetStruct, struct-list-member SetPtr, or a member of an 8-byte / 4-byte / pointer list assigned next to its list and the list changed afterwards). Oracle: Marshal of the destination decoded by the independent strict decoder equals the source value with only the top-level struct truncated/zero-extended; all reachable objects pairwise disjoint (no aliasing between copy, source-in-same-message and siblings); the source message's bytes are untouched by the copy and then overwritten with 0xEE before the destination is checked; copied capability pointers index one new table entry each, IsSame as the source client, holding their own reference (Shutdown counts after resetting source then destination). Non-trivial: destination has >=2 segments, sizes differ, or capabilities present.",
	Quick:    12000, Thorough: 400000,
	Gen: func(t *rapid.T) Case {
		c := Case{
			Src:     gen.ValueTree(t, gen.TreeOpts{MaxDepth: rapid.IntRange(0, 3).Draw(t, "depth"), Caps: true, MaxCap: 4, RootStruct: rapid.IntRange(0, 2).Draw(t, "rs") != 0}),
			Plan:    gen.Plan(t, 4),
			Op:      rapid.IntRange(0, nOps-1).Draw(t, "op"),
			Arena:   build.GenArena(t),
			DstDW:   rapid.IntRange(0, 4).Draw(t, "ddw"),
			DstPC:   rapid.IntRange(0, 4).Draw(t, "dpc"),
			Stage:   rapid.IntRange(0, nStages-1).Draw(t, "stage"),
			StageDW: rapid.IntRange(0, 4).Draw(t, "sdw"),
			StagePC: rapid.IntRange(0, 4).Draw(t, "spc"),
			Idx:     rapid.IntRange(0, 20).Draw(t, "idx"),
			CapIDs:  rapid.SliceOfN(rapid.IntRange(-1, 2), 0, 5).Draw(t, "capids"),
			Prefill: rapid.Bool().Draw(t, "prefill"),
			PrimSel: rapid.IntRange(0, 2).Draw(t, "primsel"),
		}
		switch rapid.IntRange(0, 5).Draw(t, "member") {
		case 0:
			c.Member = 1
		case 1:
			c.Member = 2
			c.PrimLK = rapid.IntRange(2, 5).Draw(t, "plk")
			c.Prim = rapid.SliceOfN(rapid.Byte(), 1, 24).Draw(t, "prim")
		}
		return c
	},
	Run: run,
})
