package c20

import "unsafe"

func unsafePointer(p *uint32) unsafe.Pointer { return unsafe.Pointer(p) }
