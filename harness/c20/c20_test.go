package c20

import (
	"bytes"
	"fmt"
	"io"
	"testing"

	capnp "capnproto.org/go/capnp/v3"
	"capnproto.org/go/capnp/v3/encoding/text"
	air "capnproto.org/go/capnp/v3/internal/aircraftlib"
	"capnproto.org/go/capnp/v3/pogs"
	"capnproto.org/go/capnp/v3/verifharness/hx"
	"capnproto.org/go/capnp/v3/verifharness/mirror"
	"capnproto.org/go/capnp/v3/verifharness/pbt"
	"capnproto.org/go/capnp/v3/verifharness/ref"
	"pgregory.net/rapid"
)

func TestProp(t *testing.T)   { pbt.RunProps(t) }
func TestReplay(t *testing.T) { pbt.RunReplay(t) }

// Case: the message is stored as bytes so that NaNs and arbitrary strings replay exactly.
type Case struct {
	Msg     hx.Bytes `json:"msg"`     // framed message whose root is an aircraftlib.Z
	History int      `json:"history"` // number of prior Encode calls on the same Encoder
	HistMsg hx.Bytes `json:"history_msg"`
	// FailedBefore: the last prior call on the Encoder is an Encode that fails half-way (the value is read under a
	// traversal budget of this many bytes); 0 = none
	FailedBefore uint64 `json:"failed_before,omitempty"`
}

func zMessage(t *rapid.T, depth int) []byte {
	z := mirror.GenZ(&mirror.Rapid{T: t}, depth)
	msg, seg, _ := capnp.NewMessage(capnp.SingleSegment(nil))
	root, err := air.NewRootZ(seg)
	if err != nil {
		panic(err)
	}
	if err := pogs.Insert(air.Z_TypeID, root.Struct, z); err != nil {
		panic(fmt.Sprintf("harness: cannot build message: %v", err))
	}
	b, err := msg.Marshal()
	if err != nil {
		panic(err)
	}
	return b
}

func needsEscaping(v *mirror.Z) bool {
	found := false
	chk := func(b []byte) {
		for _, c := range b {
			if c < 0x20 || c >= 0x7f || c == '"' || c == '\\' {
				found = true
			}
		}
	}
	var pb func(p *mirror.PlaneBase)
	pb = func(p *mirror.PlaneBase) {
		if p != nil {
			chk([]byte(p.Name))
		}
	}
	var rec func(z *mirror.Z)
	rec = func(z *mirror.Z) {
		if z == nil {
			return
		}
		chk([]byte(z.Text))
		chk(z.Blob)
		for _, d := range z.Datavec {
			chk(d)
		}
		for _, s := range z.Textvec {
			chk([]byte(s))
		}
		pb(z.Planebase)
		if z.Zdata != nil {
			chk(z.Zdata.Data)
		}
		for _, d := range z.Zdatavec {
			chk(d.Data)
		}
		rec(z.Zz)
		for _, c := range z.Zvec {
			rec(c)
		}
		for _, r := range z.Zvecvec {
			for _, c := range r {
				rec(c)
			}
		}
	}
	rec(v)
	return found
}

func readZ(b []byte) (air.Z, error) {
	m, err := capnp.Unmarshal(append([]byte(nil), b...))
	if err != nil {
		return air.Z{}, err
	}
	m.TraverseLimit = 1 << 40
	return air.ReadRootZ(m)
}

func checkText(out []byte, want mirror.XV, what string) error {
	tv, err := ref.ParseText(out)
	if err != nil {
		return pbt.Fail("ill-formed/"+errKey(err), "%s is not a well-formed text value: %v\ntext=%s", what, err, clip(out))
	}
	if err := mirror.Match(tv, want, "$"); err != nil {
		return pbt.Fail("unfaithful/"+what, "%s: %v\ntext=%s", what, err, clip(out))
	}
	return nil
}

func errKey(err error) string {
	s := err.Error()
	for i := 0; i < len(s); i++ {
		if s[i] >= '0' && s[i] <= '9' || s[i] == '"' {
			s = s[:i]
			break
		}
	}
	if len(s) > 60 {
		s = s[:60]
	}
	return s
}

func clip(b []byte) string {
	if len(b) > 1500 {
		return string(b[:1500]) + "…"
	}
	return string(b)
}

func run(c Case) (pbt.Result, error) {
	var res pbt.Result
	z, err := readZ(c.Msg)
	if err != nil {
		return res, pbt.Fail("harness/read", "%v", err)
	}
	val, err := mirror.FromGenerated(z)
	if err != nil {
		return res, pbt.Fail("harness/accessors", "%v", err)
	}
	want := mirror.ZTree(val)
	esc := needsEscaping(val)
	res.Class("which:%v", val.Which)
	res.Class("needs-escaping:%v", esc)
	res.Class("history:%s", histBucket(c.History))
	res.Nontrivial = esc || c.History >= 1000

	// fresh encoder
	fresh, err := text.Marshal(air.Z_TypeID, z.Struct)
	if err != nil {
		return res, pbt.Fail("marshal-error", "%v", err)
	}
	if err := checkText([]byte(fresh), want, "text.Marshal"); err != nil {
		return res, err
	}
	// generated String()
	if s := z.String(); s != fresh {
		return res, pbt.Fail("string-differs-from-marshal", "String()=%s\nMarshal=%s", clip([]byte(s)), clip([]byte(fresh)))
	}
	// second rendering
	again, err := text.Marshal(air.Z_TypeID, z.Struct)
	if err != nil || again != fresh {
		return res, pbt.Fail("not-repeatable", "second rendering differs (err=%v)", err)
	}
	// long-used encoder
	var buf bytes.Buffer
	enc := text.NewEncoder(&buf)
	if c.History > 0 {
		hz, err := readZ(c.HistMsg)
		if err != nil {
			return res, pbt.Fail("harness/read", "%v", err)
		}
		for i := 0; i < c.History; i++ {
			buf.Reset()
			if err := enc.Encode(air.Z_TypeID, hz.Struct); err != nil {
				return res, pbt.Fail("history-dependent/error", "Encode #%d of the history value failed: %v", i+1, err)
			}
		}
	}
	if c.FailedBefore > 0 {
		// an Encode that gives up after part of its output (the reader's budget runs out): an error for that call, and
		// nothing of it may surface in the next one
		if m, err := capnp.Unmarshal(append([]byte(nil), histMsg...)); err == nil {
			m.TraverseLimit = c.FailedBefore
			if hz, err := air.ReadRootZ(m); err == nil {
				buf.Reset()
				if err := enc.Encode(air.Z_TypeID, hz.Struct); err != nil {
					res.Class("failed-encode-before")
				}
			}
		}
	}
	buf.Reset()
	if err := enc.Encode(air.Z_TypeID, z.Struct); err != nil {
		return res, pbt.Fail("history-dependent/error", "Encode after %d prior calls failed: %v", c.History, err)
	}
	if buf.String() != fresh {
		return res, pbt.Fail("history-dependent/output", "after %d prior Encode calls the same value renders as %s\nfresh encoder: %s", c.History, clip(buf.Bytes()), clip([]byte(fresh)))
	}
	// typed list String() methods of list.go on the active member
	if err := listStrings(z, val); err != nil {
		return res, err
	}
	return res, nil
}

func histBucket(h int) string {
	switch {
	case h == 0:
		return "0"
	case h < 100:
		return "1-99"
	case h < 10000:
		return "100-9999"
	default:
		return ">=10000"
	}
}

func listStrings(z air.Z, v *mirror.Z) error {
	want := mirror.ZTree(v)
	if len(want.Fields) != 1 || want.Fields[0].Kind != 'l' {
		return nil
	}
	var s string
	switch z.Which() {
	case air.Z_Which_textvec:
		l, _ := z.Textvec()
		s = l.String()
	case air.Z_Which_datavec:
		l, _ := z.Datavec()
		s = l.String()
	case air.Z_Which_boolvec:
		l, _ := z.Boolvec()
		s = l.String()
	case air.Z_Which_f64vec:
		l, _ := z.F64vec()
		s = l.String()
	case air.Z_Which_f32vec:
		l, _ := z.F32vec()
		s = l.String()
	case air.Z_Which_i64vec:
		l, _ := z.I64vec()
		s = l.String()
	case air.Z_Which_i8vec:
		l, _ := z.I8vec()
		s = l.String()
	case air.Z_Which_u16vec:
		l, _ := z.U16vec()
		s = l.String()
	case air.Z_Which_u8vec:
		l, _ := z.U8vec()
		s = l.String()
	case air.Z_Which_zvec:
		l, _ := z.Zvec()
		s = l.String()
	case air.Z_Which_zdatevec:
		l, _ := z.Zdatevec()
		s = l.String()
	case air.Z_Which_aircraftvec:
		l, _ := z.Aircraftvec()
		s = l.String()
	default:
		return nil
	}
	return checkText([]byte(s), want.Fields[0], "List.String")
}

var _ = pbt.Register(pbt.Spec[Case]{
	Property: "C20", Name: "z-text",
	Rule:     "aircraftlib.Z values covering every union member (all integer widths with extremes, floats incl. NaN/+-Inf/-0/denormals, enums in and out of range, nested Z/lists/lists of lists, groups, PlaneBase/Aircraft/Regression) with Text/Data drawn from all byte values (emphasis on quotes, backslash, NUL, control bytes, 0x7f-0xff), built into a message; prior Encode calls on the same Encoder in {0,1,10,1000 - in 1 case of 4 followed by an Encode that fails half-way because its reader's traversal budget (8-160 bytes) runs out -, occasionally 15000 (one fixed regression case per run; a shared 64 MiB budget is exhausted after ~11k)}. Oracle: a strict parser of the text grammar consumes the whole output (string literals contain only printable ASCII and known escapes); every shown value is recovered exactly and equals the value returned by the generated accessors (floats bit-exact, NaN=NaN, spelling of inf/nan not constrained); String() = Marshal; rendering twice, on a fresh and on a long-used encoder gives identical text; typed List.String() of list.go parses to the same elements. Non-trivial: a Text/Data value needs escaping or history >= 1000.",
	Quick:    4000, Thorough: 40000,
	Gen: func(t *rapid.T) Case {
		c := Case{Msg: zMessage(t, 2)}
		c.History = rapid.SampledFrom(histChoices).Draw(t, "h")
		if c.History > 0 {
			c.HistMsg = histMsg
		}
		if rapid.IntRange(0, 3).Draw(t, "failed") == 0 {
			c.FailedBefore = uint64(rapid.SampledFrom([]int{8, 16, 40, 64, 96, 160}).Draw(t, "failbudget"))
		}
		return c
	},
	Run: run,
	Seeds: []Case{{Msg: histMsg, History: 15000, HistMsg: histMsg}},
})

// histChoices: mostly short histories; one entry in the middle of 120 is long enough to exhaust
// a 64 MiB traversal budget shared across Encode calls (observed at ~11k encodes of histMsg).
var histChoices = func() []int {
	out := make([]int, 120)
	for i := range out {
		out[i] = []int{0, 0, 1, 10}[i%4]
	}
	for _, i := range []int{13, 29, 47, 71, 97, 109} {
		out[i] = 1000
	}
	out[61] = 15000
	return out
}()

// a fixed history value with nested structs and lists (plenty of schema traversal per Encode)
var histMsg = func() hx.Bytes {
	z := &mirror.Z{Which: air.Z_Which_regression, Regression: &mirror.Regression{
		Base:   &mirror.PlaneBase{Name: "hist", Homes: []air.Airport{1, 2, 3}, Rating: 1},
		Beta:   []float64{1, 2},
		Planes: []mirror.Aircraft{{Which: air.Aircraft_Which_b737, B737: &mirror.B737{Base: &mirror.PlaneBase{Name: "p"}}}},
	}}
	msg, seg, _ := capnp.NewMessage(capnp.SingleSegment(nil))
	root, _ := air.NewRootZ(seg)
	if err := pogs.Insert(air.Z_TypeID, root.Struct, z); err != nil {
		panic(err)
	}
	b, _ := msg.Marshal()
	return b
}()

// ---------------------------------------------------------------------------
// default-valued fields: the text must show what the generated getters return

type defCase struct {
	SetText  bool     `json:"set_text"`
	Text     hx.Bytes `json:"text"`
	SetData  bool     `json:"set_data"`
	Data     hx.Bytes `json:"data"`
	SetFloat bool     `json:"set_float"`
	FloatB   uint32   `json:"float_bits"`
	SetInt   bool     `json:"set_int"`
	Int      int32    `json:"int"`
	SetUint  bool     `json:"set_uint"`
	Uint     uint32   `json:"uint"`
}

func runDefaults(c defCase) (pbt.Result, error) {
	var res pbt.Result
	_, seg, _ := capnp.NewMessage(capnp.SingleSegment(nil))
	d, err := air.NewRootDefaults(seg)
	if err != nil {
		return res, pbt.Fail("harness/new", "%v", err)
	}
	if c.SetText {
		if err := d.SetText(string(c.Text)); err != nil {
			return res, pbt.Fail("harness/set", "%v", err)
		}
	}
	if c.SetData {
		b := []byte(c.Data)
		if b == nil {
			b = []byte{}
		}
		if err := d.SetData(b); err != nil {
			return res, pbt.Fail("harness/set", "%v", err)
		}
	}
	if c.SetFloat {
		d.SetFloat(mathFloat32frombits(c.FloatB))
	}
	if c.SetInt {
		d.SetInt(c.Int)
	}
	if c.SetUint {
		d.SetUint(c.Uint)
	}
	tb, err := d.TextBytes()
	if err != nil {
		return res, pbt.Fail("harness/get", "%v", err)
	}
	db, err := d.Data()
	if err != nil {
		return res, pbt.Fail("harness/get", "%v", err)
	}
	want := mirror.XV{Kind: 's', Names: []string{"text", "data", "float", "int", "uint"}, Fields: []mirror.XV{
		{Kind: 'q', Str: tb}, {Kind: 'q', Str: db}, {Kind: 'f', F: float64(d.Float()), F32: true}, {Kind: 'i', I: int64(d.Int())}, {Kind: 'u', U: uint64(d.Uint())},
	}}
	out, err := text.Marshal(air.Defaults_TypeID, d.Struct)
	if err != nil {
		return res, pbt.Fail("marshal-error", "%v", err)
	}
	unset := 0
	for _, b := range []bool{c.SetText, c.SetData, c.SetFloat, c.SetInt, c.SetUint} {
		if !b {
			unset++
		}
	}
	res.Class("unset-fields:%d", unset)
	res.Nontrivial = unset > 0 && unset < 5
	if err := checkText([]byte(out), want, "text.Marshal(Defaults)"); err != nil {
		return res, err
	}
	if s := d.String(); s != out {
		return res, pbt.Fail("string-differs-from-marshal", "String()=%s Marshal=%s", s, out)
	}
	return res, nil
}

func mathFloat32frombits(b uint32) float32 {
	return *(*float32)(unsafePointer(&b))
}

var _ = pbt.Register(pbt.Spec[defCase]{
	Property: "C20", Name: "defaults",
	Rule:     "aircraftlib.Defaults (text=\"foo\", data=\"bar\", float=3.14, int=-123, uint=42) with each field independently set to a drawn value or left unset; oracle: the text parses and shows exactly the values the generated getters return (defaults for unset fields, XOR-decoded values for set ones). Non-trivial: some but not all fields unset.",
	Quick:    3000, Thorough: 30000,
	Gen: func(t *rapid.T) defCase {
		return defCase{
			SetText: rapid.Bool().Draw(t, "st"), Text: mirror.Bytes(&mirror.Rapid{T: t}, "text", 10),
			SetData: rapid.Bool().Draw(t, "sd"), Data: mirror.Bytes(&mirror.Rapid{T: t}, "data", 10),
			SetFloat: rapid.Bool().Draw(t, "sf"), FloatB: rapid.Uint32().Draw(t, "fb"),
			SetInt: rapid.Bool().Draw(t, "si"), Int: rapid.Int32().Draw(t, "i"),
			SetUint: rapid.Bool().Draw(t, "su"), Uint: rapid.Uint32().Draw(t, "u"),
		}
	},
	Run: runDefaults,
})

var _ = io.EOF
