package c13

import (
	"bytes"
	"testing"

	"capnproto.org/go/capnp/v3/internal/packed"
	"capnproto.org/go/capnp/v3/verifharness/pbt"
	"capnproto.org/go/capnp/v3/verifharness/ref"
)

var fuzzChunkings = []chunking{
	{BufSize: 4096},
	{Chunks: []int{1}, ReadSizes: []int{1}, BufSize: 16},
	{Chunks: []int{7, 9}, ReadSizes: []int{3, 17}, BufSize: 17, EOFWithData: true},
	{Chunks: []int{8}, ReadSizes: []int{8}, BufSize: 16},
	{Chunks: []int{10, 1, 64}, ReadSizes: []int{24, 7}, BufSize: 32},
	{Chunks: []int{2}, ReadSizes: []int{4096}, BufSize: 16, EOFWithData: true},
}

// FuzzPacked: coverage-guided search over packed byte strings with the oracle of the "arbitrary" and "roundtrip"
// sub-checks inside the target.
func FuzzPacked(f *testing.F) {
	for _, s := range [][]byte{
		{}, {0}, {0, 0}, {0, 255}, {0xff}, {0xff, 1, 2, 3, 4, 5, 6, 7, 8}, {0xff, 1, 2, 3, 4, 5, 6, 7, 8, 0}, {0xff, 1, 2, 3, 4, 5, 6, 7, 8, 1},
		{0xff, 1, 2, 3, 4, 5, 6, 7, 8, 255}, {0x01, 9}, {0x80, 9}, {0x81, 1, 2}, {0x81, 1}, {0, 0, 0xff},
		ref.Pack(bytes.Repeat([]byte{1, 2, 3, 4, 5, 6, 7, 8}, 300), nil),
		ref.Pack(make([]byte, 8*600), nil),
		ref.Pack(append(bytes.Repeat([]byte{0, 0, 7, 0, 0, 0, 0, 0}, 5), bytes.Repeat([]byte{9}, 64)...), nil),
	} {
		f.Add(s, uint8(len(s)))
	}
	f.Fuzz(func(t *testing.T, y []byte, sel uint8) {
		if len(y) > 1<<16 {
			return
		}
		var res pbt.Result
		if err := checkArbitrary(y, fuzzChunkings[int(sel)%len(fuzzChunkings)], &res); err != nil {
			v, _ := err.(*pbt.Violation)
			if v != nil {
				t.Fatalf("VIOLATION-CANDIDATE C13/fuzz sig=%s\n%s", v.Sig, v.Msg)
			}
			t.Fatalf("VIOLATION-CANDIDATE C13/fuzz sig=error\n%v", err)
		}
		// the same bytes as a payload: pack, then unpack with both decoders and the reference
		x := y[:len(y)/8*8]
		p := packed.Pack(nil, x)
		if u, err := packed.Unpack(nil, p); err != nil || !bytes.Equal(u, x) {
			t.Fatalf("VIOLATION-CANDIDATE C13/fuzz sig=roundtrip/unpack-mismatch\nUnpack(Pack(x)) != x (err %v) for x=%x", err, x)
		}
		if r, err := ref.Unpack(p); err != nil || !bytes.Equal(r, x) {
			t.Fatalf("VIOLATION-CANDIDATE C13/fuzz sig=roundtrip/not-spec\nthe reference unpacker does not recover x from Pack(x) (err %v) for x=%x", err, x)
		}
		if s, err := readAll(p, fuzzChunkings[int(sel)%len(fuzzChunkings)]); err == nil || !bytes.Equal(s, x) {
			t.Fatalf("VIOLATION-CANDIDATE C13/fuzz sig=roundtrip/reader-mismatch\nReader(Pack(x)) != x (err %v) for x=%x", err, x)
		}
	})
}
