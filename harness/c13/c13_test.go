package c13

import (
	"bufio"
	"bytes"
	"compress/zlib"
	"errors"
	"fmt"
	"io"
	"testing"

	capnp "capnproto.org/go/capnp/v3"
	"capnproto.org/go/capnp/v3/internal/packed"
	"capnproto.org/go/capnp/v3/schemas"
	"capnproto.org/go/capnp/v3/verifharness/hx"
	"capnproto.org/go/capnp/v3/verifharness/pbt"
	"capnproto.org/go/capnp/v3/verifharness/ref"
	"pgregory.net/rapid"
)

func TestProp(t *testing.T)   { pbt.RunProps(t) }
func TestReplay(t *testing.T) { pbt.RunReplay(t) }

// ---------------------------------------------------------------------------
// generators

var boundaryRuns = []int{0, 1, 2, 3, 253, 254, 255, 256, 257, 509, 510, 511, 512}

func genRunLen(t *rapid.T, label string) int {
	if rapid.IntRange(0, 3).Draw(t, label+"_b") == 0 {
		return rapid.SampledFrom(boundaryRuns).Draw(t, label)
	}
	return rapid.IntRange(0, 12).Draw(t, label)
}

// genWord draws one word of the requested kind.
func genWord(t *rapid.T, kind int) [8]byte {
	var w [8]byte
	switch kind {
	case 0: // zero
	case 1: // dense: no zero byte
		for i := range w {
			w[i] = byte(rapid.IntRange(1, 255).Draw(t, "db"))
		}
	case 2: // exactly one zero byte (still "literal-friendly" for the packer: zeros <= 1)
		for i := range w {
			w[i] = byte(rapid.IntRange(1, 255).Draw(t, "db"))
		}
		w[rapid.IntRange(0, 7).Draw(t, "z1")] = 0
	case 3: // two zero bytes (ends a literal run in this packer)
		for i := range w {
			w[i] = byte(rapid.IntRange(1, 255).Draw(t, "db"))
		}
		a := rapid.IntRange(0, 7).Draw(t, "z1")
		b := (a + 1 + rapid.IntRange(0, 6).Draw(t, "z2")) % 8
		w[a], w[b] = 0, 0
	default: // sparse random
		m := byte(rapid.IntRange(0, 255).Draw(t, "mask"))
		for i := range w {
			if m&(1<<uint(i)) != 0 {
				w[i] = byte(rapid.IntRange(0, 255).Draw(t, "sb"))
			}
		}
	}
	return w
}

func genPayload(t *rapid.T) []byte {
	nruns := rapid.IntRange(0, 6).Draw(t, "nruns")
	var out []byte
	for r := 0; r < nruns; r++ {
		kind := rapid.IntRange(0, 4).Draw(t, "kind")
		n := genRunLen(t, "runlen")
		// one pattern word per run, varied cheaply, keeps draws small for long runs
		w := genWord(t, kind)
		vary := rapid.Bool().Draw(t, "vary")
		for i := 0; i < n; i++ {
			ww := w
			if vary && kind != 0 {
				for j := range ww {
					if ww[j] != 0 {
						ww[j] = byte((int(ww[j])+i*7+j)%255 + 1)
					}
				}
			}
			out = append(out, ww[:]...)
		}
	}
	return out
}

type chunking struct {
	Chunks      []int `json:"chunks"`
	EOFWithData bool  `json:"eof_with_data"`
	ReadSizes   []int `json:"read_sizes"`
	BufSize     int   `json:"bufio_size"`
}

func genChunking(t *rapid.T) chunking {
	var c chunking
	n := rapid.IntRange(0, 4).Draw(t, "nchunks")
	for i := 0; i < n; i++ {
		c.Chunks = append(c.Chunks, rapid.SampledFrom([]int{1, 2, 3, 7, 8, 9, 10, 15, 16, 17, 64, 4096}).Draw(t, "chunk"))
	}
	c.EOFWithData = rapid.Bool().Draw(t, "eofwd")
	m := rapid.IntRange(1, 3).Draw(t, "nreads")
	for i := 0; i < m; i++ {
		c.ReadSizes = append(c.ReadSizes, rapid.SampledFrom([]int{1, 2, 3, 7, 8, 9, 15, 16, 17, 24, 64, 512, 4096}).Draw(t, "readsz"))
	}
	c.BufSize = rapid.SampledFrom([]int{16, 17, 32, 4096}).Draw(t, "bufsz")
	return c
}

// readAll drains a packed.Reader with the chunking's Read sizes.
func readAll(in []byte, c chunking) ([]byte, error) {
	cr := &hx.ChunkReader{Data: append([]byte(nil), in...), Chunks: c.Chunks, EOFWithData: c.EOFWithData}
	r := packed.NewReader(bufio.NewReaderSize(cr, c.BufSize))
	var out []byte
	i := 0
	for steps := 0; ; steps++ {
		if steps > 10_000_000 {
			return out, errors.New("harness: reader made no progress")
		}
		sz := 8
		if len(c.ReadSizes) > 0 {
			sz = c.ReadSizes[i%len(c.ReadSizes)]
			i++
		}
		buf := make([]byte, sz)
		n, err := r.Read(buf)
		out = append(out, buf[:n]...)
		if err != nil {
			return out, err
		}
	}
}

// readWords drains a packed.Reader with ReadWord.
func readWords(in []byte, c chunking) ([]byte, error) {
	cr := &hx.ChunkReader{Data: append([]byte(nil), in...), Chunks: c.Chunks, EOFWithData: c.EOFWithData}
	r := packed.NewReader(bufio.NewReaderSize(cr, c.BufSize))
	var out []byte
	for {
		var w [8]byte
		if err := r.ReadWord(w[:]); err != nil {
			return out, err
		}
		out = append(out, w[:]...)
	}
}

func longRuns(x []byte) (zero, lit int) {
	cz, cl := 0, 0
	for i := 0; i+8 <= len(x); i += 8 {
		z := 0
		for _, b := range x[i : i+8] {
			if b == 0 {
				z++
			}
		}
		if z == 8 {
			cz++
		} else {
			cz = 0
		}
		if z <= 1 {
			cl++
		} else {
			cl = 0
		}
		if cz > zero {
			zero = cz
		}
		if cl > lit {
			lit = cl
		}
	}
	return
}

// ---------------------------------------------------------------------------
// sub-check 1: round trip of the repository's own packer

type rtCase struct {
	Payload hx.Bytes `json:"payload"`
	Chunk   chunking `json:"chunking"`
	Dst     hx.Bytes `json:"dst_prefix"` // Pack/Unpack append to dst: prefix must be preserved
}

func runRoundtrip(c rtCase) (pbt.Result, error) {
	var res pbt.Result
	x := []byte(c.Payload)
	z, l := longRuns(x)
	res.Nontrivial = z >= 255 || l >= 255
	res.Class("zero-run>=255:%v", z >= 255)
	res.Class("literal-run>=255:%v", l >= 255)
	res.Class("words:%s", bucket(len(x)/8))

	pre := []byte(c.Dst)
	p := packed.Pack(append([]byte(nil), pre...), x)
	if !bytes.HasPrefix(p, pre) {
		return res, pbt.Fail("roundtrip/pack-clobbers-dst", "Pack changed the dst prefix")
	}
	p = p[len(pre):]
	// spec bound on the encoder side: at most 2 extra bytes per word (tag + count)... loose sanity only
	u, err := packed.Unpack(append([]byte(nil), pre...), p)
	if err != nil {
		return res, pbt.Fail("roundtrip/unpack-error", "Unpack(Pack(x)) error: %v", err)
	}
	if !bytes.HasPrefix(u, pre) || !bytes.Equal(u[len(pre):], x) {
		return res, pbt.Fail("roundtrip/unpack-mismatch", "Unpack(Pack(x)) != x\nx=%x\npacked=%x\ngot=%x", x, p, u)
	}
	// a reused destination buffer: spare capacity full of old bytes, of every size relation to the output
	for _, spare := range []int{8, len(x) / 2, len(x), len(x) + 64} {
		buf := bytes.Repeat([]byte{0xa5}, len(pre)+spare)
		copy(buf, pre)
		u2, err := packed.Unpack(buf[:len(pre)], p)
		if err != nil || !bytes.HasPrefix(u2, pre) || !bytes.Equal(u2[len(pre):], x) {
			return res, pbt.Fail("roundtrip/unpack-into-dirty-buffer", "Unpack(dst, Pack(x)) with %d bytes of non-zero spare capacity in dst: err=%v\nx=%x\npacked=%x\ngot=%x", spare, err, x, p, u2[minInt(len(pre), len(u2)):])
		}
		buf = bytes.Repeat([]byte{0xa5}, len(pre)+spare)
		copy(buf, pre)
		p2 := packed.Pack(buf[:len(pre)], x)
		if !bytes.HasPrefix(p2, pre) || !bytes.Equal(p2[len(pre):], p) {
			return res, pbt.Fail("roundtrip/pack-into-dirty-buffer", "Pack(dst, x) with %d bytes of non-zero spare capacity in dst differs from Pack(nil, x)\nx=%x", spare, x)
		}
	}
	// independent decoder reads our output
	ru, err := ref.Unpack(p)
	if err != nil {
		return res, pbt.Fail("roundtrip/not-spec-decodable", "ref cannot decode Pack(x): %v\nx=%x\npacked=%x", err, x, p)
	}
	if !bytes.Equal(ru, x) {
		return res, pbt.Fail("roundtrip/spec-decodes-differently", "ref.Unpack(Pack(x)) != x\nx=%x\npacked=%x\nref=%x", x, p, ru)
	}
	// streaming, any chunking and read sizes
	s, err := readAll(p, c.Chunk)
	if err != io.EOF {
		return res, pbt.Fail("roundtrip/reader-error", "Reader over Pack(x): err=%v want io.EOF", err)
	}
	if !bytes.Equal(s, x) {
		return res, pbt.Fail("roundtrip/reader-mismatch", "Reader over Pack(x) != x\nx=%x\npacked=%x\ngot=%x\nchunking=%+v", x, p, s, c.Chunk)
	}
	w, err := readWords(p, c.Chunk)
	if err != io.EOF {
		return res, pbt.Fail("roundtrip/readword-error", "ReadWord over Pack(x): err=%v want io.EOF", err)
	}
	if !bytes.Equal(w, x) {
		return res, pbt.Fail("roundtrip/readword-mismatch", "ReadWord over Pack(x) != x\nx=%x\ngot=%x", x, w)
	}
	return res, nil
}

var _ = pbt.Register(pbt.Spec[rtCase]{
	Property: "C13", Name: "roundtrip",
	Rule:     "payload = 0-6 runs of zero/dense/1-zero/2-zero/sparse words, run lengths geometric or from {0,1,2,3,253..257,509..512}; reader chunking and Read sizes drawn; oracle: Unpack(Pack(x))=x, also when appending to a dst prefix and into reused buffers whose spare capacity holds old non-zero bytes (four sizes), Reader/ReadWord(Pack(x))=x then io.EOF, independent ref.Unpack(Pack(x))=x. Non-trivial: a zero run or a literal-eligible run of >=255 words; distinct by hash of the case.",
	Quick:    6000, Thorough: 60000,
	Gen: func(t *rapid.T) rtCase {
		c := rtCase{Payload: genPayload(t), Chunk: genChunking(t)}
		if rapid.IntRange(0, 3).Draw(t, "dstpre") == 0 {
			c.Dst = rapid.SliceOfN(rapid.Byte(), 1, 9).Draw(t, "dst")
		}
		return c
	},
	Run: runRoundtrip,
})

func minInt(a, b int) int {
	if a < b {
		return a
	}
	return b
}

func bucket(n int) string {
	switch {
	case n == 0:
		return "0"
	case n < 8:
		return "1-7"
	case n < 255:
		return "8-254"
	case n < 512:
		return "255-511"
	default:
		return ">=512"
	}
}

// ---------------------------------------------------------------------------
// sub-check 2: output of other (spec-conformant) packers must be readable

type foreignCase struct {
	Payload hx.Bytes `json:"payload"`
	Choices []int    `json:"choices"` // run-length choices, each taken modulo (max+1)
	Chunk   chunking `json:"chunking"`
}

func runForeign(c foreignCase) (pbt.Result, error) {
	var res pbt.Result
	x := []byte(c.Payload)
	i := 0
	short := false
	p := ref.Pack(x, func(kind byte, max int) int {
		v := max
		if kind == 0xff {
			v = 0
		}
		if i < len(c.Choices) {
			v = c.Choices[i] % (max + 1)
			i++
		}
		if v < max {
			short = true
		}
		return v
	})
	z, l := longRuns(x)
	res.Nontrivial = short && len(x) >= 16
	res.Class("nonmaximal-runs:%v", short)
	res.Class("zero-run>=255:%v", z >= 255)
	res.Class("literal-run>=255:%v", l >= 255)
	u, err := packed.Unpack(nil, p)
	if err != nil {
		return res, pbt.Fail("foreign/unpack-error", "Unpack of spec-valid packing: %v\nx=%x\npacked=%x", err, x, p)
	}
	if !bytes.Equal(u, x) {
		return res, pbt.Fail("foreign/unpack-mismatch", "Unpack of spec-valid packing != x\nx=%x\npacked=%x\ngot=%x", x, p, u)
	}
	s, err := readAll(p, c.Chunk)
	if err != io.EOF || !bytes.Equal(s, x) {
		return res, pbt.Fail("foreign/reader-mismatch", "Reader of spec-valid packing: err=%v\nx=%x\npacked=%x\ngot=%x", err, x, p, s)
	}
	w, err := readWords(p, c.Chunk)
	if err != io.EOF || !bytes.Equal(w, x) {
		return res, pbt.Fail("foreign/readword-mismatch", "ReadWord of spec-valid packing: err=%v\nx=%x\npacked=%x\ngot=%x", err, x, p, w)
	}
	return res, nil
}

var _ = pbt.Register(pbt.Spec[foreignCase]{
	Property: "C13", Name: "foreign",
	Rule:     "same payloads packed by ref.Pack with drawn (non-maximal) zero-run and literal-run lengths, i.e. what another conformant encoder may emit; oracle: Unpack/Reader/ReadWord return the payload. Non-trivial: at least one run shorter than the maximum and >=2 words.",
	Quick:    4000, Thorough: 40000,
	Gen: func(t *rapid.T) foreignCase {
		return foreignCase{
			Payload: genPayload(t),
			Choices: rapid.SliceOfN(rapid.IntRange(0, 300), 0, 12).Draw(t, "choices"),
			Chunk:   genChunking(t),
		}
	},
	Run: runForeign,
})

// ---------------------------------------------------------------------------
// sub-check 3: arbitrary / truncated / mutated packed strings

type arbCase struct {
	Packed hx.Bytes `json:"packed"`
	Chunk  chunking `json:"chunking"`
}

func genPackedGrammar(t *rapid.T) []byte {
	var out []byte
	n := rapid.IntRange(0, 6).Draw(t, "ntags")
	for i := 0; i < n; i++ {
		var tag byte
		switch rapid.IntRange(0, 3).Draw(t, "tagkind") {
		case 0:
			tag = 0
		case 1:
			tag = 0xff
		default:
			tag = byte(rapid.IntRange(1, 254).Draw(t, "tag"))
		}
		out = append(out, tag)
		for b := 0; b < 8; b++ {
			if tag&(1<<uint(b)) != 0 {
				// a conformant encoder never emits 0 here, a hostile one may
				if rapid.IntRange(0, 9).Draw(t, "zb") == 0 {
					out = append(out, 0)
				} else {
					out = append(out, byte(rapid.IntRange(1, 255).Draw(t, "nb")))
				}
			}
		}
		switch tag {
		case 0:
			out = append(out, byte(rapid.SampledFrom([]int{0, 1, 2, 3, 200, 254, 255}).Draw(t, "zn")))
		case 0xff:
			k := rapid.SampledFrom([]int{0, 1, 2, 3, 5}).Draw(t, "ln")
			out = append(out, byte(k))
			for j := 0; j < 8*k; j++ {
				out = append(out, byte(rapid.IntRange(0, 255).Draw(t, "lb")))
			}
		}
	}
	return out
}

func genArb(t *rapid.T) arbCase {
	var y []byte
	switch rapid.IntRange(0, 3).Draw(t, "src") {
	case 0:
		y = rapid.SliceOfN(rapid.Byte(), 0, 40).Draw(t, "raw")
	case 1:
		y = packed.Pack(nil, genPayload(t))
	default:
		y = genPackedGrammar(t)
	}
	// cut
	if len(y) > 0 && rapid.IntRange(0, 2).Draw(t, "cut") != 0 {
		y = y[:rapid.IntRange(0, len(y)).Draw(t, "cutpos")]
	}
	// mutate
	if len(y) > 0 && rapid.IntRange(0, 3).Draw(t, "mut") == 0 {
		y = append([]byte(nil), y...)
		y[rapid.IntRange(0, len(y)-1).Draw(t, "mutpos")] = byte(rapid.SampledFrom([]int{0, 0xff, 1, 0x80, 0x7f}).Draw(t, "mutval"))
	}
	return arbCase{Packed: y, Chunk: genChunking(t)}
}

func checkArbitrary(y []byte, ch chunking, res *pbt.Result) error {
	want, rerr := ref.Unpack(y)
	where := "complete"
	var te *ref.TruncError
	if errors.As(rerr, &te) {
		where = te.Where
	}
	res.Class("input:%s", where)
	res.Nontrivial = rerr != nil && len(y) >= 2

	u, uerr := packed.Unpack(nil, y)
	s, serr := readAll(y, ch)
	w, werr := readWords(y, ch)

	bound := 1024*len(y) + 8
	if len(u) > bound || len(s) > bound || len(w) > bound {
		return pbt.Fail("arbitrary/growth-bound", "output larger than spec allows: in=%d unpack=%d reader=%d readword=%d", len(y), len(u), len(s), len(w))
	}
	if rerr == nil {
		if uerr != nil {
			return pbt.Fail("arbitrary/unpack-rejects-complete", "Unpack rejects a complete packed string: %v\nin=%x", uerr, y)
		}
		if serr != io.EOF {
			return pbt.Fail("arbitrary/reader-rejects-complete", "Reader rejects a complete packed string: %v\nin=%x chunking=%+v", serr, y, ch)
		}
		if werr != io.EOF {
			return pbt.Fail("arbitrary/readword-rejects-complete", "ReadWord rejects a complete packed string: %v\nin=%x", werr, y)
		}
		if !bytes.Equal(u, want) {
			return pbt.Fail("arbitrary/unpack-differs-from-spec", "in=%x\nwant=%x\ngot=%x", y, want, u)
		}
		if !bytes.Equal(s, want) {
			return pbt.Fail("arbitrary/reader-differs-from-spec", "in=%x\nwant=%x\ngot=%x chunking=%+v", y, want, s, ch)
		}
		if !bytes.Equal(w, want) {
			return pbt.Fail("arbitrary/readword-differs-from-spec", "in=%x\nwant=%x\ngot=%x", y, want, w)
		}
		return nil
	}
	// truncated input: must be reported by all three
	if uerr == nil {
		return pbt.Fail("arbitrary/unpack-accepts-truncated/"+where, "Unpack returned nil error for input truncated at %s, output completed with %d invented bytes\nin=%x\nout=%x", where, len(u)-len(want), y, u)
	}
	if serr == io.EOF || serr == nil {
		return pbt.Fail("arbitrary/reader-accepts-truncated/"+where, "Reader reported clean %v for input truncated at %s\nin=%x\nout=%x chunking=%+v", serr, where, y, s, ch)
	}
	if werr == io.EOF || werr == nil {
		return pbt.Fail("arbitrary/readword-accepts-truncated/"+where, "ReadWord reported clean %v for input truncated at %s\nin=%x\nout=%x", werr, where, y, w)
	}
	return nil
}

func runArb(c arbCase) (pbt.Result, error) {
	var res pbt.Result
	err := checkArbitrary(c.Packed, c.Chunk, &res)
	return res, err
}

var _ = pbt.Register(pbt.Spec[arbCase]{
	Property: "C13", Name: "arbitrary",
	Rule:     "packed strings from raw bytes, from Pack(payload) and from a tag grammar (0x00/0xff/other tags, counts incl. 0/254/255), then cut at a drawn position and/or one byte mutated; oracle: accept(Unpack)=accept(Reader)=accept(ReadWord)=accept(ref.Unpack) (only truncation is unacceptable), equal outputs when accepted, output <= 1024*len(in). Non-trivial: input is truncated (ref says where) and >=2 bytes.",
	Quick:    12000, Thorough: 150000,
	Gen:      genArb,
	Run:      runArb,
	Seeds: []arbCase{
		{Packed: hx.Bytes{0xff, 1, 2, 3, 4, 5, 6, 7, 8, 2, 1, 1, 1, 1, 1, 1, 1, 1, 2, 2, 2, 2, 2, 2, 2, 2}, Chunk: chunking{ReadSizes: []int{8}, BufSize: 16}},
	},
})

// ---------------------------------------------------------------------------
// sub-check 4: every prefix of a packed string (exhaustive cut positions)

type prefixCase struct {
	Payload hx.Bytes `json:"payload"`
	Chunk   chunking `json:"chunking"`
}

func runPrefixes(c prefixCase) (pbt.Result, error) {
	var res pbt.Result
	p := packed.Pack(nil, c.Payload)
	res.Count("prefixes", int64(len(p)+1))
	for cut := 0; cut <= len(p); cut++ {
		var r pbt.Result
		if err := checkArbitrary(p[:cut], c.Chunk, &r); err != nil {
			return res, err
		}
		for _, cl := range r.Classes {
			res.Classes = appendUnique(res.Classes, cl)
		}
	}
	res.Nontrivial = len(p) >= 12
	return res, nil
}

func appendUnique(s []string, v string) []string {
	for _, x := range s {
		if x == v {
			return s
		}
	}
	return append(s, v)
}

var _ = pbt.Register(pbt.Spec[prefixCase]{
	Property: "C13", Name: "prefixes",
	Rule:     "Pack(payload) for short payloads (<= ~40 words), cut at EVERY prefix length; same oracle as 'arbitrary' at each cut. Non-trivial: packed form >= 12 bytes.",
	Quick:    1500, Thorough: 15000,
	Gen: func(t *rapid.T) prefixCase {
		nruns := rapid.IntRange(1, 4).Draw(t, "nruns")
		var x []byte
		for r := 0; r < nruns; r++ {
			kind := rapid.IntRange(0, 4).Draw(t, "kind")
			n := rapid.IntRange(1, 5).Draw(t, "n")
			for i := 0; i < n; i++ {
				w := genWord(t, kind)
				x = append(x, w[:]...)
			}
		}
		return prefixCase{Payload: x, Chunk: genChunking(t)}
	},
	Run: runPrefixes,
})

// ---------------------------------------------------------------------------
// sub-check 5: message level and registry users of the codec

type msgCase struct {
	Segs    []hx.Bytes `json:"segments"`
	Chunk   chunking   `json:"chunking"`
	CutAt   int        `json:"cut_at"` // -1: no cut; else cut the packed stream here
	ViaZlib bool       `json:"via_registry"`
}

func runMsg(c msgCase) (pbt.Result, error) {
	var res pbt.Result
	segs := make([][]byte, len(c.Segs))
	for i := range c.Segs {
		segs[i] = append([]byte(nil), c.Segs[i]...)
	}
	msg := &capnp.Message{Arena: capnp.MultiSegment(segs)}
	plain, err := msg.Marshal()
	if err != nil {
		return res, pbt.Fail("message/marshal-error", "%v", err)
	}
	pk, err := msg.MarshalPacked()
	if err != nil {
		return res, pbt.Fail("message/marshalpacked-error", "%v", err)
	}
	if ru, rerr := ref.Unpack(pk); rerr != nil || !bytes.Equal(ru, plain) {
		return res, pbt.Fail("message/marshalpacked-not-spec", "ref.Unpack(MarshalPacked) != Marshal: err=%v", rerr)
	}
	var ebuf bytes.Buffer
	if err := capnp.NewPackedEncoder(&ebuf).Encode(msg); err != nil {
		return res, pbt.Fail("message/packedencoder-error", "%v", err)
	}
	if ru, rerr := ref.Unpack(ebuf.Bytes()); rerr != nil || !bytes.Equal(ru, plain) {
		return res, pbt.Fail("message/packedencoder-not-spec", "ref.Unpack(PackedEncoder output) != Marshal: err=%v", rerr)
	}
	z, l := longRuns(plain)
	res.Class("zero-run>=255:%v", z >= 255)
	res.Class("literal-run>=255:%v", l >= 255)
	res.Class("cut:%v", c.CutAt >= 0)
	res.Class("registry:%v", c.ViaZlib)

	stream := pk
	cut := c.CutAt >= 0 && c.CutAt < len(pk)
	if cut {
		stream = pk[:c.CutAt]
	}
	_, rerr := ref.Unpack(stream)
	res.Nontrivial = len(segs) >= 2 || z >= 255 || l >= 255 || (cut && rerr != nil)

	if c.ViaZlib {
		var zb bytes.Buffer
		zw := zlib.NewWriter(&zb)
		zw.Write(stream)
		zw.Close()
		var reg schemas.Registry
		if err := reg.Register(&schemas.Schema{Bytes: zb.Bytes(), Compressed: true, Nodes: []uint64{42}}); err != nil {
			return res, pbt.Fail("registry/register-error", "%v", err)
		}
		got, err := reg.Find(42)
		if rerr != nil {
			if err == nil {
				return res, pbt.Fail("registry/accepts-truncated/"+whereOf(rerr), "Registry.Find returned %d bytes and nil error for a packed blob truncated at %s", len(got), whereOf(rerr))
			}
			return res, nil
		}
		want, _ := ref.Unpack(stream)
		if err != nil {
			return res, pbt.Fail("registry/find-error", "%v", err)
		}
		if !bytes.Equal(got, want) {
			return res, pbt.Fail("registry/find-mismatch", "Registry.Find bytes differ from registered blob: want %d bytes got %d", len(want), len(got))
		}
		return res, nil
	}

	// UnmarshalPacked
	m2, err := capnp.UnmarshalPacked(stream)
	if cut {
		// a cut packed stream either fails to unpack, or unpacks to a short message that Unmarshal refuses,
		// or (cut exactly after complete words that still make a valid, shorter framing) is simply another message.
		if rerr != nil && err == nil {
			return res, pbt.Fail("message/unmarshalpacked-accepts-truncated/"+whereOf(rerr), "UnmarshalPacked accepted a packed stream truncated at %s", whereOf(rerr))
		}
	} else {
		if err != nil {
			if len(stream) == 0 {
				return res, nil
			}
			return res, pbt.Fail("message/unmarshalpacked-error", "%v", err)
		}
		if err := sameSegs(m2, segs); err != nil {
			return res, pbt.Fail("message/unmarshalpacked-mismatch", "%v", err)
		}
	}
	// packed Decoder over a chunked stream
	cr := &hx.ChunkReader{Data: append([]byte(nil), stream...), Chunks: c.Chunk.Chunks, EOFWithData: c.Chunk.EOFWithData}
	d := capnp.NewPackedDecoder(cr)
	m3, err := d.Decode()
	if !cut {
		if err != nil {
			return res, pbt.Fail("message/packeddecoder-error", "%v", err)
		}
		if err := sameSegs(m3, segs); err != nil {
			return res, pbt.Fail("message/packeddecoder-mismatch", "%v", err)
		}
		if _, err := d.Decode(); err != io.EOF {
			return res, pbt.Fail("message/packeddecoder-no-eof", "second Decode: %v, want io.EOF", err)
		}
	} else if rerr != nil {
		// Truncated packed stream.  The Decoder reads only the words it needs, so a
		// message whose last word precedes the missing byte (cut before a run count)
		// may still decode; then it must be the right message and the NEXT Decode
		// must report the truncation.  A clean io.EOF is never acceptable.
		if err == nil {
			if e := sameSegs(m3, segs); e != nil {
				return res, pbt.Fail("message/packeddecoder-accepts-truncated/"+whereOf(rerr), "packed Decoder decoded a wrong message from a stream truncated at %s: %v", whereOf(rerr), e)
			}
			_, err = d.Decode()
		}
		if err == nil || err == io.EOF {
			if len(stream) > 0 {
				return res, pbt.Fail("message/packeddecoder-clean-eof-on-truncated/"+whereOf(rerr), "packed Decoder reported %v for a non-empty stream truncated at %s", err, whereOf(rerr))
			}
		}
	}
	return res, nil
}

func whereOf(err error) string {
	var te *ref.TruncError
	if errors.As(err, &te) {
		return te.Where
	}
	return "?"
}

func sameSegs(m *capnp.Message, segs [][]byte) error {
	if m == nil {
		return fmt.Errorf("nil message")
	}
	if int(m.NumSegments()) != len(segs) {
		return fmt.Errorf("segment count %d want %d", m.NumSegments(), len(segs))
	}
	for i := range segs {
		s, err := m.Segment(capnp.SegmentID(i))
		if err != nil {
			return err
		}
		if !bytes.Equal(s.Data(), segs[i]) {
			return fmt.Errorf("segment %d differs", i)
		}
	}
	return nil
}

var _ = pbt.Register(pbt.Spec[msgCase]{
	Property: "C13", Name: "users",
	Rule:     "1-4 segments of run-structured words through MarshalPacked / PackedEncoder (must be ref-decodable to Marshal()), UnmarshalPacked, NewPackedDecoder over chunked readers, and schemas.Registry (zlib+packed.Reader+ReadAll), optionally with the packed stream cut; oracle: same segments back; a truncated stream is never accepted or reported as clean EOF. Non-trivial: >=2 segments, a >=255 run, or a cut that truncates.",
	Quick:    3000, Thorough: 30000,
	Gen: func(t *rapid.T) msgCase {
		n := rapid.IntRange(1, 4).Draw(t, "nsegs")
		c := msgCase{CutAt: -1}
		for i := 0; i < n; i++ {
			c.Segs = append(c.Segs, genPayload(t))
		}
		c.Chunk = genChunking(t)
		if rapid.IntRange(0, 2).Draw(t, "docut") == 0 {
			c.CutAt = rapid.IntRange(0, 200).Draw(t, "cutat")
		}
		c.ViaZlib = rapid.IntRange(0, 3).Draw(t, "zlib") == 0
		return c
	},
	Run: runMsg,
})
