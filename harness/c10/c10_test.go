package c10

import (
	"context"
	"errors"
	"fmt"
	"runtime"
	"strings"
	"sync"
	"sync/atomic"
	"testing"
	"time"

	capnp "capnproto.org/go/capnp/v3"
	"capnproto.org/go/capnp/v3/verifharness/capsim"
	"capnproto.org/go/capnp/v3/verifharness/pbt"
	"pgregory.net/rapid"
)

func TestProp(t *testing.T)   { pbt.RunProps(t) }
func TestReplay(t *testing.T) { pbt.RunReplay(t) }

const deadline = 30 * time.Second

// the yield hook of the library (verif build tag) tells the harness that an
// operation has reached its blocking point
var yieldTarget atomic.Value // chan struct{}

func armYield(ch chan struct{}) { yieldTarget.Store(ch) }

// perturb, when set, makes the yield hook inject Gosched calls (concurrent variants)
var perturb atomic.Value // *perturbation

type perturbation struct {
	script []int
	pos    int32
}

func setPerturb(script []int) {
	if len(script) == 0 {
		perturb.Store((*perturbation)(nil))
		return
	}
	perturb.Store(&perturbation{script: script})
}

func init() {
	armYield(nil)
	setPerturb(nil)
	// installed once: the hook variable itself is never written again (the library reads it without synchronisation)
	capnp.VerifYield = func(site string) {
		if ch, _ := yieldTarget.Load().(chan struct{}); ch != nil {
			select {
			case ch <- struct{}{}:
			default:
			}
		}
		if p, _ := perturb.Load().(*perturbation); p != nil {
			for i, k := 0, p.script[int(atomic.AddInt32(&p.pos, 1))%len(p.script)]; i < k; i++ {
				runtime.Gosched()
			}
		}
	}
}

type Op struct {
	K string `json:"k"`
	A int    `json:"a,omitempty"`
	B int    `json:"b,omitempty"`
	// NW (fulfill): no Resolve() waiter is started on a client of the promise (waiting touches the client, which
	// brings its hook up to date - some histories need clients that are left alone)
	NW bool `json:"nw,omitempty"`
}

type Case struct {
	Ops []Op `json:"ops"`
}

// ---- model ---------------------------------------------------------------------

type mhook struct {
	id        int
	promise   bool
	refs      int
	calls     int
	fulfilled bool
	target    *mhook // valid if fulfilled (nil = resolved to null)
	hook      *capsim.Hook
	cp        *capnp.ClientPromise
}

func final(h *mhook) *mhook {
	for h != nil && h.promise && h.fulfilled {
		h = h.target
	}
	return h
}

func (h *mhook) dead() bool { return h.refs == 0 || (h.promise && h.fulfilled) }

type mhandle struct {
	hook     *mhook // hook at creation (nil: the handle is a nil *Client)
	released bool
	c        *capnp.Client
}

type mweak struct {
	hook *mhook
	w    *capnp.WeakClient
}

type mcall struct {
	id   uint64
	hook *mhook
	open bool
	done chan struct{} // closed when SendCall/RecvCall returned
	err  error
	recv *capsim.NullReturner
}

type pending struct {
	what string
	done chan struct{}
	pv   *interface{}
}

type machine struct {
	log      *capsim.Log
	hooks    []*mhook
	handles  []*mhandle
	weaks    []*mweak
	promises []*mhook
	calls    []*mcall
	pend     []pending
	res      *pbt.Result
	overlap  bool
	transfer bool
}

func (m *machine) newHook(promise bool) *mhook {
	h := &mhook{id: len(m.hooks), promise: promise, refs: 1}
	h.hook = capsim.NewHook(h.id, m.log)
	m.hooks = append(m.hooks, h)
	return h
}

func pick[T any](s []T, i int) (T, bool) {
	var zero T
	if len(s) == 0 {
		return zero, false
	}
	if i < 0 {
		i = -i
	}
	return s[i%len(s)], true
}

// runOp runs f on its own goroutine; if blocking is false it must finish within the deadline.
func (m *machine) runOp(what string, blocking bool, f func()) error {
	done := make(chan struct{})
	var pv interface{}
	reached := make(chan struct{}, 1)
	if blocking {
		armYield(reached)
		defer armYield(nil)
	}
	go func() {
		defer close(done)
		defer func() { pv = recover() }()
		f()
	}()
	if blocking {
		m.pend = append(m.pend, pending{what, done, &pv})
		if strings.HasSuffix(what, "Call") {
			return nil // calls are synchronised on the hook's own start event
		}
		// wait until the operation has reached its blocking point (yield hook) or finished
		select {
		case <-reached:
		case <-done:
		case <-time.After(deadline):
			return pbt.Fail("hang/"+what+"-start", "%s neither blocked at its wait point nor returned", what)
		}
		return nil
	}
	select {
	case <-done:
		if pv != nil {
			return pbt.Fail("panic/"+what, "%s panicked: %v", what, pv)
		}
		return nil
	case <-time.After(deadline):
		return pbt.Fail("hang/"+what, "%s did not return although no call was in progress on the capability", what)
	}
}

func (m *machine) exec(op Op) error {
	switch op.K {
	case "new":
		h := m.newHook(false)
		m.handles = append(m.handles, &mhandle{hook: h, c: capnp.NewClient(h.hook)})
	case "newP":
		h := m.newHook(true)
		c, cp := capnp.NewPromisedClient(h.hook)
		h.cp = cp
		m.handles = append(m.handles, &mhandle{hook: h, c: c})
		m.promises = append(m.promises, h)
	case "addref":
		src, ok := pick(m.handles, op.A)
		if !ok || src.released {
			return nil
		}
		var c *capnp.Client
		if err := m.runOp("AddRef", false, func() { c = src.c.AddRef() }); err != nil {
			return err
		}
		f := final(src.hook)
		if f == nil {
			if c != nil {
				return pbt.Fail("addref-on-null", "AddRef of a client resolved to null returned a non-nil client")
			}
			m.handles = append(m.handles, &mhandle{hook: nil, c: nil})
			return nil
		}
		if c == nil {
			return pbt.Fail("addref-nil", "AddRef of a live client returned nil")
		}
		f.refs++
		m.handles = append(m.handles, &mhandle{hook: f, c: c})
	case "release":
		h, ok := pick(m.handles, op.A)
		if !ok {
			return nil
		}
		already := h.released
		f := final(h.hook)
		blocking := false
		if !already && f != nil {
			f.refs--
			blocking = f.refs == 0 && f.calls > 0
			if blocking {
				m.overlap = true
			}
		}
		h.released = true
		if already && h.c != nil {
			return nil // double Release of a non-nil client is documented to panic... (programmer error) - never generated
		}
		return m.runOp("Release", blocking, func() { h.c.Release() })
	case "weak":
		h, ok := pick(m.handles, op.A)
		if !ok || h.released {
			return nil
		}
		var w *capnp.WeakClient
		if err := m.runOp("WeakRef", false, func() { w = h.c.WeakRef() }); err != nil {
			return err
		}
		m.weaks = append(m.weaks, &mweak{hook: final(h.hook), w: w})
	case "weakadd":
		w, ok := pick(m.weaks, op.A)
		if !ok {
			return nil
		}
		var c *capnp.Client
		var okk bool
		if err := m.runOp("WeakClient.AddRef", false, func() { c, okk = w.w.AddRef() }); err != nil {
			return err
		}
		f := final(w.hook)
		switch {
		case f == nil:
			if c != nil || !okk {
				return pbt.Fail("weak-addref-null", "WeakClient.AddRef on a null capability returned (%v,%v)", c != nil, okk)
			}
			m.handles = append(m.handles, &mhandle{})
		case f.refs == 0:
			if okk || c != nil {
				return pbt.Fail("weak-revives-released-capability", "WeakClient.AddRef succeeded although every strong reference of hook %d had been released", f.id)
			}
		default:
			if !okk || c == nil {
				return pbt.Fail("weak-addref-failed", "WeakClient.AddRef failed although hook %d still has %d strong references", f.id, f.refs)
			}
			f.refs++
			m.handles = append(m.handles, &mhandle{hook: f, c: c})
		}
	case "send", "recv":
		h, ok := pick(m.handles, op.A)
		if !ok {
			return nil
		}
		hold := op.B%2 == 1
		call := &mcall{id: uint64(len(m.calls) + 1), done: make(chan struct{})}
		m.calls = append(m.calls, call)
		f := final(h.hook)
		if h.released || h.c == nil || f == nil {
			f = nil
		}
		call.hook = f
		if f != nil {
			f.calls++
			if hold {
				f.hook.Hold(call.id)
				call.open = true
			}
		}
		meth := capnp.Method{InterfaceID: call.id}
		run := func() {
			defer close(call.done)
			if op.K == "send" {
				ans, rel := h.c.SendCall(context.Background(), capnp.Send{Method: meth})
				_, call.err = ans.Struct()
				rel()
			} else {
				call.recv = &capsim.NullReturner{}
				h.c.RecvCall(context.Background(), capnp.Recv{Method: meth, ReleaseArgs: func() {}, Returner: call.recv})
			}
		}
		if err := m.runOp(op.K+"Call", f != nil && hold, run); err != nil {
			return err
		}
		if f != nil && hold {
			// the call is "in progress" once it is inside the hook: wait for that before the script goes on
			t0 := time.Now()
			for !m.entered(call.id) {
				select {
				case <-call.done:
					return pbt.Fail("held-call-returned-early", "call %d returned without entering hook %d", call.id, f.id)
				default:
				}
				if time.Since(t0) > deadline {
					return pbt.Fail("hang/call-delivery", "call %d never reached hook %d", call.id, f.id)
				}
				time.Sleep(50 * time.Microsecond)
			}
		}
		if f == nil || !hold {
			if f != nil {
				f.calls--
			}
			return m.checkCall(call, h)
		}
	case "finish":
		var open []*mcall
		for _, c := range m.calls {
			if c.open {
				open = append(open, c)
			}
		}
		c, ok := pick(open, op.A)
		if !ok {
			return nil
		}
		return m.finish(c)
	case "fulfill":
		p, ok := pick(m.promises, op.A)
		if !ok || p.fulfilled {
			return nil
		}
		var src *mhandle
		if op.B%5 != 0 {
			src, ok = pick(m.handles, op.B)
			if !ok || src.released {
				return nil
			}
			// no promise cycles (programmer error)
			for x := src.hook; x != nil; x = x.target {
				if x == p {
					return nil
				}
				if !(x.promise && x.fulfilled) {
					break
				}
			}
		}
		var c *capnp.Client
		var th *mhook
		if src != nil {
			c, th = src.c, src.hook
		}
		// a waiter: Resolve(ctx) on a live client of this promise, started before the Fulfill
		var waiter chan error
		wctx, wcancel := context.WithCancel(context.Background())
		defer wcancel()
		for _, hd := range m.handles {
			if op.NW {
				break
			}
			if hd.c != nil && !hd.released && final(hd.hook) == p {
				waiter = make(chan error, 1)
				go func(c *capnp.Client) { waiter <- c.Resolve(wctx) }(hd.c)
				for i := 0; i < 10; i++ {
					runtime.Gosched()
				}
				break
			}
		}
		refs := p.refs
		p.fulfilled, p.target, p.refs = true, th, 0
		if refs > 0 {
			if t := final(p); t != nil {
				t.refs += refs
				m.transfer = true
			}
		}
		blocking := refs > 0 && p.calls > 0
		if blocking {
			m.overlap = true
		}
		if err := m.runOp("Fulfill", blocking, func() { p.cp.Fulfill(c) }); err != nil || blocking || waiter == nil {
			return err
		}
		// the promise is resolved: the waiter returns - unless what it resolved to is a promise again, then it goes
		// on waiting and a cancelled context ends that
		still := final(p) != nil && final(p).promise
		if still {
			wcancel()
		}
		select {
		case werr := <-waiter:
			if !still && werr != nil {
				return pbt.Fail("resolve/waiter-error", "Resolve, waiting while the promise was fulfilled, returned %v", werr)
			}
		case <-time.After(deadline):
			return pbt.Fail("hang/Resolve-waiter", "a Resolve() waiting on the promised client did not return after Fulfill (resolved to another promise: %v)", still)
		}
		return nil
	case "state":
		h, ok := pick(m.handles, op.A)
		if !ok {
			return nil
		}
		f := final(h.hook)
		var valid bool
		if err := m.runOp("IsValid/State", false, func() {
			valid = h.c.IsValid()
			_ = h.c.State()
			_ = h.c.String()
		}); err != nil {
			return err
		}
		want := !h.released && h.c != nil && f != nil
		if valid != want {
			return pbt.Fail("isvalid", "IsValid()=%v, model says %v (released=%v)", valid, want, h.released)
		}
		// Resolve with a context that is already done: it reports, without waiting, whether the client is resolved
		quiet := true
		for _, p := range m.pend {
			select {
			case <-p.done:
			default:
				quiet = false // a Fulfill is waiting for calls: "resolved" is in flux
			}
		}
		if quiet {
			ctx, cancel := context.WithCancel(context.Background())
			cancel()
			var rerr error
			if err := m.runOp("Resolve", false, func() { rerr = h.c.Resolve(ctx) }); err != nil {
				return err
			}
			switch {
			case h.c != nil && h.released:
				// (a released client whose capability had resolved to null may report either: nothing is left to tell)
				if f != nil && (rerr == nil || rerr == context.Canceled) {
					return pbt.Fail("resolve/released", "Resolve on a released client returned %v", rerr)
				}
			case h.c == nil || f == nil || !f.promise:
				if rerr != nil {
					return pbt.Fail("resolve/resolved", "Resolve on a client whose capability is resolved returned %v", rerr)
				}
			default:
				if rerr != context.Canceled {
					return pbt.Fail("resolve/unresolved", "Resolve(cancelled context) on a client of an unfulfilled promise returned %v", rerr)
				}
			}
		}
	}
	return nil
}

func (m *machine) entered(call uint64) bool {
	for _, e := range m.log.Snapshot() {
		if (e.Kind == "send-start" || e.Kind == "recv-start") && e.Call == call {
			return true
		}
	}
	return false
}

func (m *machine) finish(c *mcall) error {
	c.open = false
	c.hook.hook.Open(c.id)
	select {
	case <-c.done:
	case <-time.After(deadline):
		return pbt.Fail("hang/call", "call %d did not return after the capability finished it", c.id)
	}
	c.hook.calls--
	return m.checkCall(c, nil)
}

// checkCall: a completed call was delivered to the expected hook exactly once, or failed with the documented error.
func (m *machine) checkCall(c *mcall, h *mhandle) error {
	n := 0
	var where []int
	for _, e := range m.log.Snapshot() {
		if (e.Kind == "send-start" || e.Kind == "recv-start") && e.Call == c.id {
			n++
			where = append(where, e.Hook)
		}
	}
	var err error
	if c.recv != nil {
		done, e, times := c.recv.Result()
		if !done || times != 1 {
			return pbt.Fail("recv-not-returned", "RecvCall %d: Returner.Return called %d times", c.id, times)
		}
		err = e
	} else {
		err = c.err
	}
	if c.hook == nil {
		if n != 0 {
			return pbt.Fail("call-on-dead-client-delivered", "call %d through a released/null client was delivered to hook %v", c.id, where)
		}
		if err == nil || strings.Contains(err.Error(), "capsim: call result") {
			return pbt.Fail("call-on-dead-client-no-error", "call %d through a released/null client did not yield an error answer (err=%v)", c.id, err)
		}
		return nil
	}
	if n != 1 || where[0] != c.hook.id {
		return pbt.Fail("call-misdelivered", "call %d delivered %d times to hooks %v, expected once to hook %d", c.id, n, where, c.hook.id)
	}
	if err == nil || !strings.Contains(err.Error(), fmt.Sprintf("hook %d call %d: capsim: call result", c.hook.id, c.id)) {
		return pbt.Fail("call-result", "call %d: result %v is not the answer of hook %d", c.id, err, c.hook.id)
	}
	return nil
}

// invariants after every step
func (m *machine) check(step string) error {
	for i := 0; i < 3; i++ {
		runtime.Gosched()
	}
	for _, h := range m.hooks {
		should := h.dead() && h.calls == 0
		n := h.hook.Shutdowns()
		if should && n == 0 {
			// shutdown runs on the goroutine of the last Release / Fulfill / call finish: wait for it
			t0 := time.Now()
			for n == 0 && time.Since(t0) < deadline {
				time.Sleep(200 * time.Microsecond)
				n = h.hook.Shutdowns()
			}
			if n == 0 {
				return pbt.Fail("not-shut-down", "after %s: hook %d has no references (or is a resolved promise) and no call in progress but was never shut down", step, h.id)
			}
		}
		if n > 1 {
			return pbt.Fail("shutdown-twice", "after %s: hook %d was shut down %d times", step, h.id, n)
		}
		if !should && n != 0 {
			if h.calls > 0 {
				return pbt.Fail("shutdown-during-call", "after %s: hook %d was shut down while %d call(s) are in progress", step, h.id, h.calls)
			}
			return pbt.Fail("shutdown-while-referenced", "after %s: hook %d was shut down while the model holds %d reference(s)", step, h.id, h.refs)
		}
	}
	for _, e := range m.log.Snapshot() {
		if e.Kind == "shutdown-during-call" {
			return pbt.Fail("shutdown-during-call", "hook %d: Shutdown ran while a call was inside the hook", e.Hook)
		}
	}
	return nil
}

func run(c Case) (pbt.Result, error) {
	var res pbt.Result
	m := &machine{log: &capsim.Log{}, res: &res}
	for i, op := range c.Ops {
		if err := m.exec(op); err != nil {
			return res, err
		}
		if err := m.check(fmt.Sprintf("step %d (%s)", i, op.K)); err != nil {
			return res, err
		}
	}
	// wind down: finish every call, release every handle
	for _, cl := range m.calls {
		if cl.open {
			if err := m.finish(cl); err != nil {
				return res, err
			}
		}
	}
	for i := range m.handles {
		if !m.handles[i].released {
			if err := m.exec(Op{K: "release", A: i}); err != nil {
				return res, err
			}
		}
	}
	for _, p := range m.pend {
		select {
		case <-p.done:
			if *p.pv != nil {
				return res, pbt.Fail("panic/"+p.what, "%s panicked: %v", p.what, *p.pv)
			}
		case <-time.After(deadline):
			return res, pbt.Fail("hang/"+p.what, "%s never returned although all calls have finished", p.what)
		}
	}
	if err := m.check("wind-down"); err != nil {
		return res, err
	}
	for _, h := range m.hooks {
		if n := h.hook.Shutdowns(); n != 1 {
			return res, pbt.Fail("final-shutdown-count", "hook %d was shut down %d times after every reference was released", h.id, n)
		}
	}
	res.Class("overlap:%v", m.overlap)
	res.Class("transfer:%v", m.transfer)
	res.Nontrivial = m.overlap || m.transfer
	return res, nil
}

var opKinds = []string{"new", "newP", "addref", "addref", "release", "release", "release", "weak", "weakadd", "weakadd", "send", "send", "recv", "finish", "finish", "fulfill", "fulfill", "state"}

func genOps(t *rapid.T, n int) []Op {
	if rapid.IntRange(0, 5).Draw(t, "skeleton") == 0 {
		// a chain of three promises fulfilled in a drawn order with clients that were handed out earlier and not touched
		// since (so that a Fulfill meets a client whose hook is several resolutions behind), then the capability's
		// handles released in a drawn order with calls and state checks in between
		ops := []Op{{K: "newP"}, {K: "newP"}, {K: "newP"}, {K: "new"}} // handles 0-2: promised clients; 3: the capability
		links := []Op{{K: "fulfill", A: 1, B: 2, NW: true}, {K: "fulfill", A: 2, B: 3, NW: true}, {K: "fulfill", A: 0, B: 1, NW: true}}
		for _, i := range rapid.Permutation([]int{0, 1, 2}).Draw(t, "sk-order") {
			ops = append(ops, links[i])
			if rapid.IntRange(0, 3).Draw(t, "sk-gap") == 0 {
				ops = append(ops, Op{K: rapid.SampledFrom([]string{"addref", "weak", "send", "finish"}).Draw(t, "sk-k"), A: rapid.IntRange(0, 7).Draw(t, "a"), B: rapid.IntRange(0, 7).Draw(t, "b")})
			}
		}
		for _, h := range rapid.Permutation([]int{0, 1, 2, 3}).Draw(t, "sk-rel") {
			ops = append(ops, Op{K: "release", A: h}, Op{K: "send", A: rapid.IntRange(0, 3).Draw(t, "sk-call")}, Op{K: "finish"}, Op{K: "state", A: rapid.IntRange(0, 3).Draw(t, "sk-state")})
		}
		return ops
	}
	ops := []Op{{K: rapid.SampledFrom([]string{"new", "newP"}).Draw(t, "first")}}
	for i := 0; i < n; i++ {
		ops = append(ops, Op{K: rapid.SampledFrom(opKinds).Draw(t, "k"), A: rapid.IntRange(0, 7).Draw(t, "a"), B: rapid.IntRange(0, 7).Draw(t, "b")})
		if ops[len(ops)-1].K == "fulfill" {
			ops[len(ops)-1].NW = rapid.Bool().Draw(t, "nw")
		}
	}
	return ops
}

var _ = pbt.Register(pbt.Spec[Case]{
	Property: "C10", Name: "sequential-model",
	Rule:  "op scripts (up to 40 ops) over a pool of clients: NewClient, NewPromisedClient, AddRef, Release, WeakRef, WeakClient.AddRef, SendCall/RecvCall (the instrumented hook holds a call open until a later 'finish' op), Fulfill(promise, client|nil) incl. chains of promises (1 script in 6 links three promises in a drawn order through clients that were not touched since they were handed out, then releases the four handles in a drawn order) (a Resolve() waiter on a live client of the promise is started first and must return once it is fulfilled), IsValid/State/Resolve(cancelled context), calls through released and null clients; ops predicted to block (last Release / Fulfill while a call is open) run on their own goroutine. Reference model: per hook refs/calls/resolution with reference transfer on Fulfill. Invariant after every step: a hook is shut down iff it has no reference (or is a resolved promise) and no open call - never twice, never during a call, never while referenced; each call is delivered exactly once to the hook the client resolves to or fails with an error answer on released/null clients; WeakClient.AddRef succeeds iff a strong reference remains; every op returns; after wind-down every hook was shut down exactly once. Non-trivial: a last Release/Fulfill overlapped an open call, or references transferred through a promise.",
	Quick: 6000, Thorough: 60000,
	Gen: func(t *rapid.T) Case { return Case{Ops: genOps(t, rapid.IntRange(1, 40).Draw(t, "n"))} },
	Run: run,
})

var _ = errors.New
var _ sync.Mutex

// ---------------------------------------------------------------------------
// concurrent variant: every goroutine owns the handles it releases

type gop struct {
	K string `json:"k"`
	A int    `json:"a,omitempty"`
	B int    `json:"b,omitempty"`
}

type concCase struct {
	Caps     int     `json:"caps"`     // real capabilities shared by all goroutines
	Promises int     `json:"promises"` // promised clients; promise i is fulfilled by goroutine i % G
	Progs    [][]gop `json:"programs"`
	Perturb  []int   `json:"perturb"` // yields injected at the library's wait points
}

type chandle struct {
	c       *capnp.Client
	lineage int // hook id of the real capability this handle certainly refers to, -1 if it came through a promise
	id      int
}

func runConcurrent(c concCase) (pbt.Result, error) {
	var res pbt.Result
	G := len(c.Progs)
	if G == 0 {
		return res, nil
	}
	log := &capsim.Log{}
	setPerturb(c.Perturb)
	defer setPerturb(nil)
	var hooks []*capsim.Hook
	var nextHandle int32
	newH := func(cl *capnp.Client, lineage int) *chandle {
		h := &chandle{c: cl, lineage: lineage, id: int(atomic.AddInt32(&nextHandle, 1))}
		log.Add(capsim.Event{Kind: "acquire", Hook: lineage, H: h.id})
		return h
	}
	// setup: every goroutine gets its own reference to every shared client
	owned := make([][]*chandle, G)
	var promises []*capnp.ClientPromise
	for i := 0; i < c.Caps; i++ {
		hk := capsim.NewHook(len(hooks), log)
		hooks = append(hooks, hk)
		base := capnp.NewClient(hk)
		for g := 0; g < G; g++ {
			owned[g] = append(owned[g], newH(base.AddRef(), hk.ID))
		}
		log.Add(capsim.Event{Kind: "acquire", Hook: hk.ID, H: -1})
		log.Add(capsim.Event{Kind: "release-start", Hook: hk.ID, H: -1})
		base.Release()
	}
	for i := 0; i < c.Promises; i++ {
		hk := capsim.NewHook(len(hooks), log)
		hooks = append(hooks, hk)
		base, cp := capnp.NewPromisedClient(hk)
		promises = append(promises, cp)
		for g := 0; g < G; g++ {
			owned[g] = append(owned[g], newH(base.AddRef(), -1))
		}
		base.Release()
	}
	fulfilled := make([]int32, len(promises))
	var callSeq uint64
	var wg sync.WaitGroup
	errs := make([]error, G)
	start := make(chan struct{})
	for g := 0; g < G; g++ {
		wg.Add(1)
		go func(g int) {
			defer wg.Done()
			defer func() {
				if p := recover(); p != nil {
					errs[g] = pbt.Fail("panic/concurrent", "goroutine %d panicked: %v", g, p)
				}
			}()
			mine := owned[g]
			var weaks []*capnp.WeakClient
			var weakLin []int
			<-start
			for _, op := range c.Progs[g] {
				live := mine
				if len(live) == 0 && op.K != "weakadd" {
					continue
				}
				switch op.K {
				case "addref":
					src := live[op.A%len(live)]
					if nc := src.c.AddRef(); nc != nil {
						mine = append(mine, newH(nc, src.lineage))
					}
				case "release":
					i := op.A % len(live)
					h := live[i]
					log.Add(capsim.Event{Kind: "release-start", Hook: h.lineage, H: h.id})
					h.c.Release()
					mine = append(mine[:i:i], mine[i+1:]...)
				case "weak":
					src := live[op.A%len(live)]
					if w := src.c.WeakRef(); w != nil {
						weaks = append(weaks, w)
						weakLin = append(weakLin, src.lineage)
					}
				case "weakadd":
					if len(weaks) == 0 {
						continue
					}
					i := op.A % len(weaks)
					if nc, ok := weaks[i].AddRef(); ok && nc != nil {
						mine = append(mine, newH(nc, weakLin[i]))
					}
				case "call":
					src := live[op.A%len(live)]
					id := atomic.AddUint64(&callSeq, 1)
					ans, rel := src.c.SendCall(context.Background(), capnp.Send{Method: capnp.Method{InterfaceID: id}})
					_, err := ans.Struct()
					rel()
					nullOK := src.lineage < 0 && err != nil && strings.Contains(err.Error(), "call on null client") // its promise may have resolved to null
					if !nullOK && (err == nil || !strings.Contains(err.Error(), "capsim: call result")) {
						errs[g] = pbt.Fail("concurrent/call-not-delivered", "goroutine %d: call %d through a live client it owns failed with %v", g, id, err)
						return
					}
					log.Add(capsim.Event{Kind: "call-done", Call: id, G: g})
				case "fulfill":
					if len(promises) == 0 {
						continue
					}
					p := (op.A%len(promises)/G)*G + g // a promise this goroutine is responsible for
					if p >= len(promises) || !atomic.CompareAndSwapInt32(&fulfilled[p], 0, 1) {
						continue
					}
					// resolve to one of the real capabilities this goroutine holds (never to a promise: no cycles)
					var target *chandle
					for _, h := range live {
						if h.lineage >= 0 {
							target = h
							break
						}
					}
					if target == nil || op.B%4 == 0 {
						promises[p].Fulfill(nil)
					} else {
						promises[p].Fulfill(target.c)
					}
				}
			}
			for _, h := range mine {
				log.Add(capsim.Event{Kind: "release-start", Hook: h.lineage, H: h.id})
				h.c.Release()
			}
		}(g)
	}
	close(start)
	done := make(chan struct{})
	go func() { wg.Wait(); close(done) }()
	select {
	case <-done:
	case <-time.After(2 * deadline):
		return res, pbt.Fail("hang/concurrent", "goroutines did not finish (deadlock?)")
	}
	for _, e := range errs {
		if e != nil {
			return res, e
		}
	}
	// promises nobody fulfilled: all their references are gone, their hooks must be shut down anyway
	events := log.Snapshot()
	live := map[int]int{}
	deliveries := map[uint64]int{}
	for _, e := range events {
		switch e.Kind {
		case "acquire":
			if e.Hook >= 0 {
				live[e.Hook]++
			}
		case "release-start":
			if e.Hook >= 0 {
				live[e.Hook]--
			}
		case "send-start":
			deliveries[e.Call]++
		case "shutdown-during-call":
			return res, pbt.Fail("concurrent/shutdown-during-call", "hook %d was shut down while a call was inside it", e.Hook)
		case "shutdown":
			if live[e.Hook] > 0 {
				return res, pbt.Fail("concurrent/shutdown-while-referenced", "hook %d was shut down while %d handles that refer to it had not begun to be released", e.Hook, live[e.Hook])
			}
		}
	}
	for id, n := range deliveries {
		if n != 1 {
			return res, pbt.Fail("concurrent/call-delivered-twice", "call %d was delivered %d times", id, n)
		}
	}
	for _, h := range hooks {
		if n := h.Shutdowns(); n != 1 {
			return res, pbt.Fail("concurrent/final-shutdown-count", "hook %d was shut down %d times after all goroutines released everything", h.ID, n)
		}
	}
	res.Class("goroutines:%d", G)
	res.Nontrivial = G >= 2 && c.Promises > 0
	return res, nil
}

var _ = pbt.Register(pbt.Spec[concCase]{
	Property: "C10", Name: "concurrent-owners",
	Rule:  "2-6 goroutines, each owning its own references to 1-2 shared capabilities and 0-3 promised clients, run drawn programs of AddRef / Release / WeakRef / WeakClient.AddRef / SendCall / Fulfill (each promise fulfilled by exactly one goroutine, to a real capability or nil) on the handles they own, so the program is well-formed under every interleaving; the library's wait points (verif yield hook) inject 0-3 Gosched calls drawn per case; built with the race detector. Invariants on the merged event log: no Shutdown while a handle that certainly refers to the hook has not begun to be released, none during a call, every call through an owned live handle delivered exactly once, all goroutines finish, every hook shut down exactly once at the end. Non-trivial: >=2 goroutines and >=1 promise.",
	Quick: 2500, Thorough: 25000,
	Gen: func(t *rapid.T) concCase {
		G := rapid.IntRange(2, 6).Draw(t, "G")
		c := concCase{Caps: rapid.IntRange(1, 2).Draw(t, "caps"), Promises: rapid.IntRange(0, 3).Draw(t, "promises")}
		kinds := []string{"addref", "release", "release", "weak", "weakadd", "call", "call", "fulfill"}
		for g := 0; g < G; g++ {
			var prog []gop
			for i, n := 0, rapid.IntRange(1, 12).Draw(t, "len"); i < n; i++ {
				prog = append(prog, gop{K: rapid.SampledFrom(kinds).Draw(t, "k"), A: rapid.IntRange(0, 7).Draw(t, "a"), B: rapid.IntRange(0, 7).Draw(t, "b")})
			}
			c.Progs = append(c.Progs, prog)
		}
		c.Perturb = rapid.SliceOfN(rapid.IntRange(0, 3), 0, 8).Draw(t, "perturb")
		return c
	},
	Run: runConcurrent,
})
