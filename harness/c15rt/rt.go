// Package c15rt is linked into the test of every generated schema package: it holds the layout oracle the generated
// accessors are compared with.  It knows nothing about the generator; it works on raw struct words through
// capnp.Struct's untyped accessors.
package c15rt

import (
	"fmt"
	"hash/fnv"
	"math/rand"
	"testing"

	capnp "capnproto.org/go/capnp/v3"
)

// Fail prints a machine-readable failure line.
func Fail(t *testing.T, sig, format string, args ...interface{}) {
	t.Helper()
	t.Errorf("C15FAIL sig=%s | %s", sig, fmt.Sprintf(format, args...))
}

// Counter of elementary comparisons (reported at the end).
var Checks int

type Layout struct {
	Name      string // Struct.field
	DataWords int
	Ptrs      int
	DiscOff   int // in 16-bit units; -1: the struct has no union
	DiscVal   int // -1: the field is not a union member
	DiscCount int
}

type DataSpec struct {
	Layout
	BitOff  int // absolute bit offset in the data section
	Bits    int // 0 (void), 1, 8, 16, 32, 64
	Default uint64
}

func rng(name string) *rand.Rand {
	h := fnv.New64a()
	h.Write([]byte(name))
	return rand.New(rand.NewSource(int64(h.Sum64())))
}

// NewStruct allocates a struct of the layout's size in a fresh message, with random data words.
func NewStruct(t *testing.T, l Layout, r *rand.Rand) capnp.Struct {
	_, seg, err := capnp.NewMessage(capnp.SingleSegment(nil))
	if err != nil {
		t.Fatal(err)
	}
	st, err := capnp.NewRootStruct(seg, capnp.ObjectSize{DataSize: capnp.Size(l.DataWords * 8), PointerCount: uint16(l.Ptrs)})
	if err != nil {
		t.Fatal(err)
	}
	for i := 0; i < l.DataWords; i++ {
		st.SetUint64(capnp.DataOffset(i*8), r.Uint64())
	}
	return st
}

func Words(st capnp.Struct, n int) []uint64 {
	out := make([]uint64, n)
	for i := range out {
		out[i] = st.Uint64(capnp.DataOffset(i * 8))
	}
	return out
}

func setDisc(st capnp.Struct, l Layout, v int) {
	st.SetUint16(capnp.DataOffset(l.DiscOff*2), uint16(v))
}

func getDisc(st capnp.Struct, l Layout) int {
	return int(st.Uint16(capnp.DataOffset(l.DiscOff * 2)))
}

func mask(bits int) uint64 {
	if bits >= 64 {
		return ^uint64(0)
	}
	return uint64(1)<<uint(bits) - 1
}

func otherDisc(l Layout, r *rand.Rand) int {
	if l.DiscCount > 1 {
		for {
			v := r.Intn(l.DiscCount)
			if v != l.DiscVal {
				return v
			}
		}
	}
	return (l.DiscVal + 1 + r.Intn(100)) & 0xffff
}

func ptrsNull(t *testing.T, st capnp.Struct, l Layout, except int, what string) {
	for i := 0; i < l.Ptrs; i++ {
		if i != except && st.HasPtr(uint16(i)) {
			Fail(t, "pointer-slot-touched", "%s: %s wrote pointer slot %d", l.Name, what, i)
		}
	}
}

// expectWords computes what the data section must look like after a setter ran.
func expectWords(before []uint64, s DataSpec, v uint64) []uint64 {
	out := append([]uint64(nil), before...)
	if s.Bits > 0 {
		w, sh := s.BitOff/64, uint(s.BitOff%64)
		m := mask(s.Bits)
		out[w] = out[w]&^(m<<sh) | ((v^s.Default)&m)<<sh
	}
	if s.DiscVal >= 0 {
		w, sh := (s.DiscOff*16)/64, uint((s.DiscOff*16)%64)
		out[w] = out[w]&^(uint64(0xffff)<<sh) | uint64(s.DiscVal)<<sh
	}
	return out
}

// CheckData checks the setter and getter of a data-section field.  set/get work on value bit patterns.
func CheckData(t *testing.T, s DataSpec, set func(capnp.Struct, uint64), get func(capnp.Struct) uint64, which func(capnp.Struct) int) {
	r := rng(s.Name)
	m := mask(s.Bits)
	values := []uint64{0, m, s.Default & m, ^s.Default & m, 1, m >> 1, (m >> 1) + 1}
	for i := 0; i < 12; i++ {
		values = append(values, r.Uint64()&m)
	}
	if s.Bits == 0 {
		values = values[:1]
	}
	for _, v := range values {
		// setter: writes exactly its bit range (value XOR default) and the discriminant
		st := NewStruct(t, s.Layout, r)
		if s.DiscVal >= 0 && r.Intn(2) == 0 {
			setDisc(st, s.Layout, otherDisc(s.Layout, r))
		}
		before := Words(st, s.DataWords)
		if set != nil {
			set(st, v)
			after := Words(st, s.DataWords)
			want := expectWords(before, s, v)
			Checks++
			for i := range want {
				if after[i] != want[i] {
					Fail(t, "setter-wrote-wrong-bits", "%s: Set(%#x) on data %#x gave word %d = %#x, want %#x (field: %d bits at bit %d, default %#x, discriminant value %d at 16-bit slot %d)", s.Name, v, before, i, after[i], want[i], s.Bits, s.BitOff, s.Default, s.DiscVal, s.DiscOff)
					break
				}
			}
			ptrsNull(t, st, s.Layout, -1, "the setter")
			if s.DiscVal >= 0 && which != nil {
				Checks++
				if w := which(st); w != s.DiscVal {
					Fail(t, "which-wrong", "%s: Which() = %d after the setter, want %d", s.Name, w, s.DiscVal)
				}
			}
		}
		// getter: reads exactly its bit range XOR default
		if get != nil && s.Bits > 0 {
			st := NewStruct(t, s.Layout, r)
			if s.DiscVal >= 0 {
				setDisc(st, s.Layout, s.DiscVal)
			}
			if v != values[0] && set != nil {
				// also a round trip through the setter
				set(st, v)
			}
			w := Words(st, s.DataWords)
			want := (w[s.BitOff/64]>>uint(s.BitOff%64))&m ^ (s.Default & m)
			got := get(st) & m
			Checks++
			if got != want {
				Fail(t, "getter-read-wrong-bits", "%s: Get on data %#x = %#x, want %#x (field: %d bits at bit %d, default %#x)", s.Name, w, got, want, s.Bits, s.BitOff, s.Default)
			}
			after := Words(st, s.DataWords)
			for i := range w {
				if after[i] != w[i] {
					Fail(t, "getter-mutates", "%s: the getter changed word %d", s.Name, i)
				}
			}
		}
	}
	// a zeroed struct reads as the default
	if get != nil && s.Bits > 0 {
		st := NewStruct(t, s.Layout, r)
		for i := 0; i < s.DataWords; i++ {
			st.SetUint64(capnp.DataOffset(i*8), 0)
		}
		if s.DiscVal >= 0 {
			setDisc(st, s.Layout, s.DiscVal)
		}
		if s.DiscVal < 0 || (s.BitOff/16 != s.DiscOff) {
			Checks++
			if got := get(st) & m; got != s.Default&m {
				Fail(t, "default-not-applied", "%s: the getter on a zeroed struct returns %#x, the schema's default is %#x", s.Name, got, s.Default&m)
			}
		}
	}
	// a getter under the wrong discriminant must refuse
	if get != nil && s.DiscVal >= 0 && s.Bits > 0 {
		st := NewStruct(t, s.Layout, r)
		setDisc(st, s.Layout, otherDisc(s.Layout, r))
		Checks++
		if !panics(func() { get(st) }) {
			Fail(t, "getter-ignores-discriminant", "%s: the getter returned although Which() is %d, not %d", s.Name, getDisc(st, s.Layout), s.DiscVal)
		}
	}
}

func panics(f func()) (p bool) {
	defer func() {
		if recover() != nil {
			p = true
		}
	}()
	f()
	return false
}

type PtrSpec struct {
	Layout
	Index int
}

// PtrOps: accessors of a pointer field, reduced to comparable values.
type PtrOps struct {
	Set        func(capnp.Struct) (string, error) // stores something, returns its description
	Get        func(capnp.Struct) (string, error) // description of what is stored
	Has        func(capnp.Struct) bool
	Default    string // description the getter must give on a null pointer ("" = none checked)
	HasDefault bool
	NullStore  bool // Set stores a null value: the slot ends up null, everything else is as for any store
	Lenient    bool // the getter is not generated with a discriminant check
}

func CheckPtr(t *testing.T, s PtrSpec, ops PtrOps, which func(capnp.Struct) int) {
	r := rng(s.Name)
	for round := 0; round < 4; round++ {
		st := NewStruct(t, s.Layout, r)
		if s.DiscVal >= 0 {
			setDisc(st, s.Layout, s.DiscVal)
		}
		if ops.Has != nil {
			Checks++
			if ops.Has(st) {
				Fail(t, "has-wrong", "%s: Has reports true on a struct whose pointers are all null", s.Name)
			}
		}
		if ops.Get != nil && ops.HasDefault {
			got, err := ops.Get(st)
			Checks++
			if err != nil || got != ops.Default {
				Fail(t, "default-not-applied", "%s: the getter on a null pointer returns %q (err %v), the schema's default is %q", s.Name, got, err, ops.Default)
			}
		}
		if s.DiscVal >= 0 && round%2 == 1 {
			setDisc(st, s.Layout, otherDisc(s.Layout, r))
		}
		before := Words(st, s.DataWords)
		if ops.Set == nil {
			continue
		}
		desc, err := ops.Set(st)
		if err != nil {
			Fail(t, "setter-error", "%s: the setter failed: %v", s.Name, err)
			continue
		}
		after := Words(st, s.DataWords)
		want := expectWords(before, DataSpec{Layout: s.Layout}, 0)
		Checks++
		for i := range want {
			if after[i] != want[i] {
				Fail(t, "setter-wrote-wrong-bits", "%s: the pointer setter changed data word %d from %#x to %#x, want %#x (discriminant value %d at 16-bit slot %d)", s.Name, i, before[i], after[i], want[i], s.DiscVal, s.DiscOff)
				break
			}
		}
		Checks++
		if ops.NullStore {
			if st.HasPtr(uint16(s.Index)) {
				Fail(t, "null-store-left-pointer", "%s: after storing a null value pointer slot %d is not null", s.Name, s.Index)
			}
		} else if !st.HasPtr(uint16(s.Index)) {
			Fail(t, "setter-wrong-slot", "%s: after the setter pointer slot %d is still null", s.Name, s.Index)
		}
		ptrsNull(t, st, s.Layout, s.Index, "the setter")
		if ops.Has != nil {
			Checks++
			if !ops.Has(st) {
				Fail(t, "has-wrong", "%s: Has reports false after the setter", s.Name)
			}
		}
		if s.DiscVal >= 0 && which != nil {
			Checks++
			if w := which(st); w != s.DiscVal {
				Fail(t, "which-wrong", "%s: Which() = %d after the setter, want %d", s.Name, w, s.DiscVal)
			}
		}
		if ops.Get != nil {
			got, err := ops.Get(st)
			Checks++
			if err != nil || got != desc {
				Fail(t, "getter-wrong", "%s: the getter returns %q (err %v) after the setter stored %q", s.Name, got, err, desc)
			}
		}
		if s.DiscVal >= 0 {
			setDisc(st, s.Layout, otherDisc(s.Layout, r))
			if ops.Has != nil {
				Checks++
				if ops.Has(st) {
					Fail(t, "has-ignores-discriminant", "%s: Has reports true although Which() is %d, not %d", s.Name, getDisc(st, s.Layout), s.DiscVal)
				}
			}
			if ops.Get != nil && !ops.Lenient {
				Checks++
				if !panics(func() { ops.Get(st) }) {
					Fail(t, "getter-ignores-discriminant", "%s: the getter returned although Which() is %d, not %d", s.Name, getDisc(st, s.Layout), s.DiscVal)
				}
			}
		}
	}
}

// CheckSize compares an allocated struct's size with the schema's.
func CheckSize(t *testing.T, what string, st capnp.Struct, dataWords, ptrs int) {
	Checks++
	sz := st.Size()
	if int(sz.DataSize) != dataWords*8 || int(sz.PointerCount) != ptrs {
		Fail(t, "object-size", "%s allocates %d data bytes and %d pointers; the schema says %d words and %d pointers", what, sz.DataSize, sz.PointerCount, dataWords, ptrs)
	}
}

// DescStruct describes a struct by its size and first data word (a marker written by the check).
func DescStruct(st capnp.Struct) string {
	if !st.IsValid() {
		return "null"
	}
	return fmt.Sprintf("struct data=%d ptrs=%d w0=%#x", st.Size().DataSize, st.Size().PointerCount, st.Uint64(0))
}

func DescList(l capnp.List) string {
	if !l.IsValid() {
		return "null"
	}
	return fmt.Sprintf("list len=%d", l.Len())
}
