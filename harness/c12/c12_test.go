package c12

import (
	"context"
	"errors"
	"fmt"
	"os"
	"runtime"
	"strings"
	"sync"
	"testing"
	"time"

	capnp "capnproto.org/go/capnp/v3"
	"capnproto.org/go/capnp/v3/server"
	"capnproto.org/go/capnp/v3/verifharness/capsim"
	"capnproto.org/go/capnp/v3/verifharness/pbt"
	"pgregory.net/rapid"
)

func TestProp(t *testing.T)   { pbt.RunProps(t) }
func TestReplay(t *testing.T) { pbt.RunReplay(t) }

var deadline = func() time.Duration {
	if os.Getenv("VERIF_FAST_DEADLINE") != "" {
		return 2 * time.Second
	}
	return 30 * time.Second
}()

type Op struct {
	K    string `json:"k"`
	A    int    `json:"a,omitempty"`
	Kind int    `json:"kind,omitempty"` // call behaviour: 0 return at once, 1 Ack then wait for gate, 2 wait for gate without Ack, 3 yield, Ack, wait, 4 a method the server does not implement, 5 the caller's PlaceArgs fails
	Err  bool   `json:"err,omitempty"`  // the implementation returns an error
	Y    int    `json:"y,omitempty"`    // yields before Ack (kind 3)
}

type Case struct {
	Max   int `json:"max_concurrent"`
	Queue int `json:"answer_queue"`
	// Direct: Shutdown is called on the *server.Server itself (as a ClientHook wrapper would) rather than through the
	// last Release of a capnp.Client - the only way Shutdown can meet Sends that are still waiting inside the server
	Direct bool `json:"direct_shutdown,omitempty"`
	Ops    []Op `json:"ops"`
}

type callState struct {
	group    int // calls of one burst are issued concurrently and share a group; order is only defined between groups
	id       int
	op       Op
	gate     chan struct{}
	cancel   context.CancelFunc
	ans      *capnp.Answer
	rel      capnp.ReleaseFunc
	sent     chan struct{} // closed when SendCall returned
	target   *capsim.Hook  // capability placed in the results
	opened   bool
	canceled bool
	pipes    []*pipeState
	pipeBusy chan struct{} // non-nil while a pipelined call on this answer is blocked (queue full)
}

type pipeState struct {
	held bool
	id   uint64
	call *callState
	done chan struct{}
	err  error
}

type machine struct {
	mu             sync.Mutex // guards the calls slice (appended by the script goroutine, read by implementations)
	c              Case
	log            *capsim.Log
	srv            *server.Server
	client         *capnp.Client
	calls          []*callState
	sd             shutdowner
	issueBusy      chan struct{} // non-nil while a SendCall is blocked inside the server
	shutdownDone   chan struct{}
	shutdownIssued bool
	nextPipe       uint64
	nextGroup      int
	burstBusy      []chan struct{}
	stats          struct{ queuedPipes, blockedIssues, overflowPipes, shutdownMeetsSend, refused int }
}

type shutdowner struct {
	log *capsim.Log
	mu  sync.Mutex
	n   int
}

func (s *shutdowner) Shutdown() {
	s.mu.Lock()
	s.n++
	s.mu.Unlock()
	s.log.Add(capsim.Event{Kind: "user-shutdown"})
}

const ifaceID, methodID = 0xabcdef, 1

func (m *machine) impl(ctx context.Context, call *server.Call) error {
	id := int(call.Args().Uint64(0))
	m.mu.Lock()
	cs := m.calls[id]
	m.mu.Unlock()
	m.log.Add(capsim.Event{Kind: "impl-start", Call: uint64(id)})
	switch cs.op.Kind {
	case 1, 3:
		for i := 0; i < cs.op.Y && cs.op.Kind == 3; i++ {
			runtime.Gosched()
		}
		m.log.Add(capsim.Event{Kind: "impl-ack", Call: uint64(id)})
		call.Ack()
	}
	if cs.op.Kind != 0 {
		select {
		case <-cs.gate:
		case <-ctx.Done():
			m.log.Add(capsim.Event{Kind: "impl-cancelled", Call: uint64(id)})
			m.log.Add(capsim.Event{Kind: "impl-return", Call: uint64(id)})
			return ctx.Err()
		}
	}
	if cs.op.Err {
		m.log.Add(capsim.Event{Kind: "impl-return", Call: uint64(id)})
		return fmt.Errorf("impl-error-%d", id)
	}
	res, err := call.AllocResults(capnp.ObjectSize{DataSize: 8, PointerCount: 1})
	if err != nil {
		return err
	}
	res.SetUint64(0, uint64(id)+1000)
	capID := res.Message().AddCap(capnp.NewClient(cs.target))
	if err := res.SetPtr(0, capnp.NewInterface(res.Segment(), capID).ToPtr()); err != nil {
		return err
	}
	m.log.Add(capsim.Event{Kind: "impl-return", Call: uint64(id)})
	return nil
}

func (m *machine) issue(op Op, burst bool) error {
	if (m.issueBusy != nil && !burst) || m.shutdownIssued {
		return nil
	}
	if !burst {
		m.nextGroup++
	}
	cs := &callState{id: len(m.calls), group: m.nextGroup, op: op, gate: make(chan struct{}), sent: make(chan struct{})}
	cs.target = capsim.NewHook(100+cs.id, m.log)
	m.mu.Lock()
	m.calls = append(m.calls, cs)
	m.mu.Unlock()
	ctx, cancel := context.WithCancel(context.Background())
	cs.cancel = cancel
	m.log.Add(capsim.Event{Kind: "issue", Call: uint64(cs.id)})
	go func() {
		defer close(cs.sent)
		meth := capnp.Method{InterfaceID: ifaceID, MethodID: methodID}
		if op.Kind == 4 {
			meth.MethodID = methodID + 7
		}
		cs.ans, cs.rel = m.client.SendCall(ctx, capnp.Send{
			Method:   meth,
			ArgsSize: capnp.ObjectSize{DataSize: 8},
			PlaceArgs: func(s capnp.Struct) error {
				if op.Kind == 5 {
					return fmt.Errorf("place-args-error-%d", cs.id)
				}
				s.SetUint64(0, uint64(cs.id))
				return nil
			},
		})
	}()
	if burst {
		m.burstBusy = append(m.burstBusy, cs.sent)
		m.stats.blockedIssues++
		return nil
	}
	// Does the model predict that this Send blocks?  It does if the previously started call has neither
	// acknowledged nor returned, or if MaxConcurrentCalls implementations are running.
	predictBlock := false
	running := 0
	for _, o := range m.calls[:cs.id] {
		if !m.returned(o.id) && m.started(o.id) {
			running++
			if !m.acked(o.id) {
				predictBlock = true
			}
		} else if m.started(o.id) {
			// returned, but its queued pipelined calls are still being delivered (one of them is held by the capability):
			// the server frees the slot only after that delivery
			for _, ps := range o.pipes {
				if ps.held {
					running++
					break
				}
			}
		}
	}
	if running >= m.c.Max {
		predictBlock = true
	}
	if op.Kind == 2 {
		predictBlock = true // an implementation that never acknowledges keeps its own Send waiting until it returns
	}
	if op.Kind >= 4 {
		predictBlock = false // refused before it is queued: it waits for nothing and nothing waits for it
		m.stats.refused++
	}
	if predictBlock {
		m.stats.blockedIssues++
		m.issueBusy = cs.sent
		return nil
	}
	select {
	case <-cs.sent:
	case <-time.After(deadline):
		return pbt.Fail("hang/send", "SendCall %d did not return although the previous call had acknowledged/returned and fewer than %d calls were running\n%s", cs.id, m.c.Max, pbt.Stacks("capnp/v3"))
	}
	return nil
}

func (m *machine) has(kind string, id int) bool {
	for _, e := range m.log.Snapshot() {
		if e.Kind == kind && e.Call == uint64(id) {
			return true
		}
	}
	return false
}
func (m *machine) started(id int) bool  { return m.has("impl-start", id) }
func (m *machine) acked(id int) bool    { return m.has("impl-ack", id) }
func (m *machine) returned(id int) bool { return m.has("impl-return", id) }

func (m *machine) poll() {
	var still []chan struct{}
	for _, ch := range m.burstBusy {
		select {
		case <-ch:
		default:
			still = append(still, ch)
		}
	}
	m.burstBusy = still
	if m.issueBusy != nil {
		select {
		case <-m.issueBusy:
			m.issueBusy = nil
		default:
		}
	}
	for _, cs := range m.calls {
		if cs.pipeBusy != nil {
			select {
			case <-cs.pipeBusy:
				cs.pipeBusy = nil
			default:
			}
		}
	}
}

func (m *machine) exec(op Op) error {
	m.poll()
	switch op.K {
	case "call":
		if len(m.burstBusy) > 0 {
			return nil
		}
		return m.issue(op, false)
	case "burst":
		// several goroutines call the server at the same time (order among them is undefined, the ack gating is not)
		if m.issueBusy != nil || len(m.burstBusy) > 0 || m.shutdownIssued {
			return nil
		}
		m.nextGroup++
		n := 2 + op.A%3
		for i := 0; i < n; i++ {
			o := Op{K: "call", Kind: []int{1, 0, 3, 1}[(op.A+i)%4], Y: op.Y, Err: false}
			if err := m.issue(o, true); err != nil {
				return err
			}
		}
		return m.settle()
	case "open":
		var cand []*callState
		for _, cs := range m.calls {
			if cs.op.Kind != 0 && !cs.opened {
				cand = append(cand, cs)
			}
		}
		if len(cand) == 0 {
			return nil
		}
		cs := cand[op.A%len(cand)]
		cs.opened = true
		close(cs.gate)
		return m.settle()
	case "cancel":
		var cand []*callState
		for _, cs := range m.calls {
			if !cs.canceled {
				cand = append(cand, cs)
			}
		}
		if len(cand) == 0 {
			return nil
		}
		cs := cand[op.A%len(cand)]
		cs.canceled = true
		cs.cancel()
		return m.settle()
	case "pipe":
		// pipelined call on the answer of a call whose Send has returned
		var cand []*callState
		for _, cs := range m.calls {
			select {
			case <-cs.sent:
				if cs.pipeBusy == nil {
					cand = append(cand, cs)
				}
			default:
			}
		}
		if len(cand) == 0 {
			return nil
		}
		cs := cand[op.A%len(cand)]
		m.nextPipe++
		ps := &pipeState{id: 1_000_000 + m.nextPipe, call: cs, done: make(chan struct{})}
		if op.Kind == 1 && !cs.op.Err {
			// the capability keeps this call "in delivery" until wind-down: whatever is queued behind it must wait
			ps.held = true
			cs.target.Hold(ps.id)
		}
		cs.pipes = append(cs.pipes, ps)
		m.log.Add(capsim.Event{Kind: "pipe-issue", Call: ps.id, Hook: cs.id})
		queued := 0
		for _, p := range cs.pipes[:len(cs.pipes)-1] {
			select {
			case <-p.done:
			default:
				queued++
			}
		}
		// "made in order" means: the next call is made after PipelineSend of the previous one returned.  PipelineSend
		// returns as soon as the call is queued (or delivered); only a full queue keeps it waiting.
		sendReturned := make(chan struct{})
		go func() {
			defer close(ps.done)
			a, rel := cs.ans.PipelineSend(context.Background(), []capnp.PipelineOp{{Field: 0}}, capnp.Send{Method: capnp.Method{InterfaceID: ps.id}})
			close(sendReturned)
			_, ps.err = a.Struct()
			rel()
		}()
		pending := !m.returned(cs.id) && m.started(cs.id)
		if pending {
			m.stats.queuedPipes++
		}
		if pending && queued >= m.c.Queue {
			// the queue is full: PipelineSend blocks until the answer returns; nothing else is pipelined on this answer meanwhile
			m.stats.overflowPipes++
			cs.pipeBusy = ps.done
			time.Sleep(300 * time.Microsecond)
			return nil
		}
		if ps.held {
			cs.pipeBusy = ps.done // the answer's queue cannot drain past a call the capability has not finished delivering
			select {
			case <-sendReturned:
			case <-time.After(2 * time.Millisecond):
			}
			return nil
		}
		select {
		case <-sendReturned:
		case <-time.After(deadline):
			if m.returned(cs.id) || !m.started(cs.id) || queued < m.c.Queue {
				// the answer may have been returning while we counted: a blocked PipelineSend is only legitimate with a full queue
				select {
				case <-sendReturned:
					return nil
				case <-time.After(deadline):
				}
				return pbt.Fail("hang/pipelined-send", "PipelineSend on answer %d did not return (queue %d of %d)\n%s", cs.id, queued, m.c.Queue, pbt.Stacks("capnp/v3"))
			}
		}
		return nil
	case "shutdown":
		if m.shutdownIssued {
			return nil
		}
		m.shutdownIssued = true
		m.shutdownDone = make(chan struct{})
		m.log.Add(capsim.Event{Kind: "shutdown-begin"})
		noSendBlocked := m.issueBusy == nil && len(m.burstBusy) == 0
		if m.c.Direct && noSendBlocked == false {
			m.stats.shutdownMeetsSend++
		}
		for _, cs := range m.calls {
			for _, ps := range cs.pipes {
				if ps.held {
					// a pipelined call parked inside the result capability keeps its answer's queue, hence the call's
					// slot, hence possibly a later Send, busy: what Release has to wait for is not determined here
					noSendBlocked = false
				}
			}
			select {
			case <-cs.sent:
			default:
				if !m.c.Direct {
					noSendBlocked = false
				}
			}
		}
		if m.c.Direct {
			// Server.Shutdown does not wait for Sends: the ones waiting for the previous call's Ack or for a free slot
			// are rejected ("no call starts afterwards"), the running ones are cancelled and waited for
			noSendBlocked = true
			for _, cs := range m.calls {
				for _, ps := range cs.pipes {
					if ps.held {
						noSendBlocked = false
					}
				}
			}
		}
		go func() {
			defer close(m.shutdownDone)
			if m.c.Direct {
				m.srv.Shutdown()
			} else {
				m.client.Release()
			}
		}()
		if noSendBlocked {
			// Shutdown cancels the running calls and waits for them: without any gate being opened, every
			// implementation that has started returns (its context is done), then the user's Shutdown runs.
			// (While a SendCall is still inside the server the last Release waits for it first - then this does not
			// apply yet and the wind-down covers it.)
			t0 := time.Now()
			for {
				stuck := -1
				m.mu.Lock()
				n := len(m.calls)
				m.mu.Unlock()
				for id := 0; id < n; id++ {
					if m.started(id) && !m.returned(id) {
						stuck = id
					}
				}
				if stuck < 0 {
					break
				}
				if time.Since(t0) > deadline {
					ev := ""
					for _, e := range m.log.Snapshot() {
						ev += fmt.Sprintf("%s(%d) ", e.Kind, e.Call)
					}
					return pbt.Fail("shutdown-does-not-cancel", "the last reference was released while call %d was running (no SendCall pending): the call's context was not cancelled within %v, Shutdown waits for it forever\nevents: %s\n%s", stuck, deadline, ev, pbt.Stacks("capnp/v3/server"))
				}
				time.Sleep(100 * time.Microsecond)
			}
			select {
			case <-m.shutdownDone:
			case <-time.After(deadline):
				return pbt.Fail("hang/shutdown", "every running call returned after the last Release, but Release/Shutdown did not return within %v\n%s", deadline, pbt.Stacks("capnp/v3"))
			}
		}
		return m.settle()
	}
	return nil
}

// settle gives goroutines woken by the last op a chance to run (the invariants are checked on the log at the end, not on timing).
func (m *machine) settle() error {
	for i := 0; i < 20; i++ {
		runtime.Gosched()
	}
	time.Sleep(200 * time.Microsecond)
	return nil
}

func run(c Case) (pbt.Result, error) {
	var res pbt.Result
	if c.Max < 1 {
		c.Max = 1
	}
	if c.Queue < 1 {
		c.Queue = 1
	}
	m := &machine{c: c, log: &capsim.Log{}}
	m.sd.log = m.log
	m.srv = server.New([]server.Method{{Method: capnp.Method{InterfaceID: ifaceID, MethodID: methodID}, Impl: m.impl}}, nil, &m.sd, &server.Policy{MaxConcurrentCalls: c.Max, AnswerQueueSize: c.Queue})
	m.client = capnp.NewClient(m.srv)
	for _, op := range c.Ops {
		if err := m.exec(op); err != nil {
			return res, err
		}
	}
	// wind down: open every gate, wait for every Send, answer and pipelined call, then shut down
	for _, cs := range m.calls {
		if cs.op.Kind != 0 && !cs.opened {
			cs.opened = true
			close(cs.gate)
		}
	}
	for _, cs := range m.calls {
		for _, ps := range cs.pipes {
			if ps.held {
				cs.target.Open(ps.id)
			}
		}
	}
	for _, cs := range m.calls {
		select {
		case <-cs.sent:
		case <-time.After(deadline):
			return res, pbt.Fail("hang/send", "SendCall %d never returned although every implementation was allowed to finish\n%s", cs.id, pbt.Stacks("capnp/v3"))
		}
	}
	type outcome struct {
		s   capnp.Struct
		err error
	}
	for _, cs := range m.calls {
		ch := make(chan outcome, 1)
		go func(cs *callState) { s, err := cs.ans.Struct(); ch <- outcome{s, err} }(cs)
		var o outcome
		select {
		case o = <-ch:
		case <-time.After(deadline):
			return res, pbt.Fail("hang/answer", "the answer of call %d never resolved\n%s", cs.id, pbt.Stacks("capnp/v3"))
		}
		started := m.started(cs.id)
		switch {
		case cs.op.Kind >= 4:
			want := "unimplemented"
			if cs.op.Kind == 5 {
				want = fmt.Sprintf("place-args-error-%d", cs.id)
			}
			if started || o.err == nil || !strings.Contains(o.err.Error(), want) {
				return res, pbt.Fail("refused-call", "call %d (kind %d: the server has no such method / the arguments could not be placed) started=%v, result err=%v; want an error containing %q and no delivery", cs.id, cs.op.Kind, started, o.err, want)
			}
		case !started:
			// never reached the implementation: only legitimate through cancellation or shutdown
			if o.err == nil || !(cs.canceled || m.shutdownIssued) {
				return res, pbt.Fail("call-not-started", "call %d never reached the implementation; result err=%v (cancelled=%v shutdown=%v)", cs.id, o.err, cs.canceled, m.shutdownIssued)
			}
		case cs.op.Err || o.err != nil:
			want := fmt.Sprintf("impl-error-%d", cs.id)
			if o.err == nil {
				return res, pbt.Fail("call-result", "call %d: implementation failed but the answer succeeded", cs.id)
			}
			if !strings.Contains(o.err.Error(), want) && !strings.Contains(o.err.Error(), "context canceled") {
				return res, pbt.Fail("call-result", "call %d resolved with a foreign error: %v", cs.id, o.err)
			}
			if strings.Contains(o.err.Error(), "context canceled") && !(cs.canceled || m.shutdownIssued) {
				return res, pbt.Fail("call-result", "call %d reports cancellation but was never cancelled", cs.id)
			}
		default:
			if o.s.Uint64(0) != uint64(cs.id)+1000 {
				return res, pbt.Fail("call-result", "call %d resolved with the results of another call (%d)", cs.id, o.s.Uint64(0))
			}
		}
		// pipelined calls on this answer
		for _, ps := range cs.pipes {
			select {
			case <-ps.done:
			case <-time.After(deadline):
				return res, pbt.Fail("hang/pipelined", "pipelined call %d on answer %d never completed\n%s", ps.id, cs.id, pbt.Stacks("capnp/v3"))
			}
		}
	}
	if !m.shutdownIssued {
		if err := m.exec(Op{K: "shutdown"}); err != nil {
			return res, err
		}
	}
	select {
	case <-m.shutdownDone:
	case <-time.After(deadline):
		return res, pbt.Fail("hang/shutdown", "Shutdown (last Release) never returned\n%s", pbt.Stacks("capnp/v3"))
	}
	// a call after shutdown must not start
	post := len(m.calls)
	m.mu.Lock()
	m.calls = append(m.calls, &callState{id: post, gate: make(chan struct{}), target: capsim.NewHook(999, m.log)})
	m.mu.Unlock()
	pa, prel := m.srv.Send(context.Background(), capnp.Send{
		Method: capnp.Method{InterfaceID: ifaceID, MethodID: methodID}, ArgsSize: capnp.ObjectSize{DataSize: 8},
		PlaceArgs: func(s capnp.Struct) error { s.SetUint64(0, uint64(post)); return nil },
	})
	if _, err := pa.Struct(); err == nil {
		return res, pbt.Fail("call-after-shutdown", "a call made after Shutdown returned succeeded")
	}
	prel()
	for _, cs := range m.calls[:post] {
		if cs.rel != nil {
			cs.rel()
		}
	}
	if err := m.checkLog(post); err != nil {
		return res, err
	}
	res.Class("max:%d", c.Max)
	res.Class("queue:%d", c.Queue)
	res.Count("blocked_issues", int64(m.stats.blockedIssues))
	res.Count("queued_pipelined", int64(m.stats.queuedPipes))
	res.Count("overflow_pipelined", int64(m.stats.overflowPipes))
	res.Count("refused_calls", int64(m.stats.refused))
	res.Count("direct_shutdown_with_send_waiting", int64(m.stats.shutdownMeetsSend))
	if c.Direct {
		res.Class("direct-shutdown")
	}
	res.Nontrivial = m.stats.blockedIssues > 0 || m.stats.queuedPipes > 0
	return res, nil
}

// checkLog verifies the invariants of the property on the totally ordered event log.
func (m *machine) checkLog(post int) error {
	ev := m.log.Snapshot()
	running := map[uint64]bool{}
	startedOrder := []uint64{}
	ackOrRet := map[uint64]bool{}
	returns := map[uint64]int{}
	starts := map[uint64]int{}
	var lastStarted uint64
	haveLast := false
	shutdownBegun, userShutdown := false, 0
	cancelSeen := map[uint64]bool{}
	for _, e := range ev {
		switch e.Kind {
		case "impl-start":
			if int(e.Call) == post {
				return pbt.Fail("start-after-shutdown", "an implementation started after Shutdown had returned")
			}
			if userShutdown > 0 {
				return pbt.Fail("start-after-shutdown", "call %d started after the user's Shutdown ran", e.Call)
			}
			starts[e.Call]++
			if starts[e.Call] > 1 {
				return pbt.Fail("started-twice", "call %d was started %d times", e.Call, starts[e.Call])
			}
			if haveLast && !ackOrRet[lastStarted] {
				return pbt.Fail("started-before-previous-ack", "call %d was started although call %d had neither acknowledged delivery nor returned", e.Call, lastStarted)
			}
			lastStarted, haveLast = e.Call, true
			running[e.Call] = true
			if len(running) > m.c.Max {
				return pbt.Fail("too-many-concurrent-calls", "%d implementations running with MaxConcurrentCalls=%d", len(running), m.c.Max)
			}
			startedOrder = append(startedOrder, e.Call)
		case "impl-ack":
			ackOrRet[e.Call] = true
		case "impl-cancelled":
			cancelSeen[e.Call] = true
		case "impl-return":
			ackOrRet[e.Call] = true
			returns[e.Call]++
			delete(running, e.Call)
		case "shutdown-begin":
			shutdownBegun = true
		case "user-shutdown":
			userShutdown++
			if len(running) > 0 {
				return pbt.Fail("user-shutdown-before-calls-returned", "the user's Shutdown ran while %d implementations were still running", len(running))
			}
			if !shutdownBegun {
				return pbt.Fail("user-shutdown-unrequested", "the user's Shutdown ran before the last reference was released")
			}
		}
	}
	if userShutdown != 1 {
		return pbt.Fail("user-shutdown-count", "the user's Shutdown ran %d times", userShutdown)
	}
	// calls are observed in the order they were made (calls are issued one after another from one goroutine;
	// a call whose Send was blocked is still issued before any later one because nothing is issued meanwhile)
	for i := 1; i < len(startedOrder); i++ {
		a, b := m.calls[startedOrder[i-1]], m.calls[startedOrder[i]]
		if b.group < a.group || (b.group == a.group && m.groupSize(a.group) == 1 && b.id < a.id) {
			return pbt.Fail("started-out-of-order", "implementation observed call %d (issue group %d) before call %d (issue group %d)", a.id, a.group, b.id, b.group)
		}
	}
	// pipelined calls: delivered in issue order at the capability of the (successful) answer, after its return; or failed
	for _, cs := range m.calls[:post] {
		var issued, delivered []uint64
		retSeq, deliveredBeforeReturn := -1, false
		for _, e := range ev {
			switch {
			case e.Kind == "impl-return" && int(e.Call) == cs.id:
				retSeq = e.Seq
			case e.Kind == "pipe-issue" && e.Hook == cs.id:
				issued = append(issued, e.Call)
			case (e.Kind == "recv-start" || e.Kind == "send-start") && e.Hook == cs.target.ID:
				delivered = append(delivered, e.Call)
				if retSeq < 0 {
					deliveredBeforeReturn = true
				}
			}
		}
		if deliveredBeforeReturn {
			return pbt.Fail("pipelined-before-return", "a pipelined call reached the capability in the results of call %d before that call returned", cs.id)
		}
		seen := map[uint64]int{}
		for _, d := range delivered {
			seen[d]++
			if seen[d] > 1 {
				return pbt.Fail("pipelined-delivered-twice", "pipelined call %d on answer %d was delivered %d times", d, cs.id, seen[d])
			}
		}
		// order: delivered must be a subsequence of issued
		j := 0
		for _, d := range delivered {
			for j < len(issued) && issued[j] != d {
				j++
			}
			if j == len(issued) {
				return pbt.Fail("pipelined-out-of-order", "pipelined calls on answer %d were made in order %v but delivered in order %v", cs.id, issued, delivered)
			}
			j++
		}
		ok := m.started(cs.id) && !cs.op.Err && !cancelSeen[uint64(cs.id)]
		for _, ps := range cs.pipes {
			es := fmt.Sprint(ps.err)
			if ok {
				if seen[ps.id] != 1 || !strings.Contains(es, fmt.Sprintf("hook %d call %d:", cs.target.ID, ps.id)) {
					return pbt.Fail("pipelined-lost", "pipelined call %d on the successful answer %d: delivered %d times, result %q", ps.id, cs.id, seen[ps.id], es)
				}
			} else if seen[ps.id] != 0 && cs.op.Err {
				return pbt.Fail("pipelined-on-failed-answer-delivered", "pipelined call %d was delivered although answer %d failed", ps.id, cs.id)
			} else if seen[ps.id] == 0 && (ps.err == nil || strings.Contains(es, "capsim:")) {
				return pbt.Fail("pipelined-lost", "pipelined call %d on answer %d was delivered nowhere but did not fail", ps.id, cs.id)
			}
		}
	}
	return nil
}

func (m *machine) groupSize(g int) int {
	n := 0
	for _, c := range m.calls {
		if c.group == g {
			n++
		}
	}
	return n
}

func genCase(t *rapid.T) Case {
	c := Case{Max: rapid.IntRange(1, 4).Draw(t, "max"), Queue: rapid.IntRange(1, 8).Draw(t, "queue")}
	c.Direct = rapid.IntRange(0, 2).Draw(t, "direct") == 0
	kinds := []string{"call", "call", "call", "burst", "open", "open", "pipe", "pipe", "pipe", "cancel", "shutdown"}
	for i, n := 0, rapid.IntRange(1, 25).Draw(t, "n"); i < n; i++ {
		op := Op{K: rapid.SampledFrom(kinds).Draw(t, "k"), A: rapid.IntRange(0, 7).Draw(t, "a")}
		if op.K == "pipe" && rapid.IntRange(0, 3).Draw(t, "pipehold") == 0 {
			op.Kind = 1
		}
		if op.K == "burst" {
			op.Y = rapid.IntRange(0, 5).Draw(t, "y")
		}
		if op.K == "call" {
			op.Kind = rapid.SampledFrom([]int{0, 0, 1, 1, 1, 1, 2, 2, 3, 3, 4, 5}).Draw(t, "kind")
			op.Err = rapid.IntRange(0, 4).Draw(t, "err") == 0
			op.Y = rapid.IntRange(0, 5).Draw(t, "y")
		}
		if op.K == "shutdown" && !c.Direct && rapid.IntRange(0, 2).Draw(t, "really") != 0 {
			op.K = "open"
		}
		c.Ops = append(c.Ops, op)
	}
	return c
}

var _ = pbt.Register(pbt.Spec[Case]{
	Property: "C12", Name: "server-script",
	Rule:  "scripts of up to 25 ops against a server.Server (MaxConcurrentCalls 1-4, AnswerQueueSize 1-8) with one instrumented method: calls issued one after another from one goroutine (the next is issued once the previous Send returned; a Send the model predicts to block - previous call neither acked nor returned, or Max running - is awaited in the background and nothing is issued meanwhile), behaviours {return at once, Ack then wait, wait without Ack, yield k times then Ack then wait} x {results with a counted capability, error}, calls the server refuses before queueing them (unknown method, failing PlaceArgs: error answer at once, no delivery, nobody kept waiting), gate openings, context cancellations, pipelined calls on returned and not-yet-returned answers up to and beyond the queue size, Shutdown via the last Release or (1 in 3 cases) called on the Server itself while Sends are still waiting for an Ack or a slot, a call after shutdown. Invariants on the event log: implementations start in issue order; none starts before the previous one acknowledged or returned; running <= Max at every event; each answer resolves once with its own results/error; pipelined calls reach the capability of a successful answer exactly once, after its return and in the order they were made (incl. calls that found the queue full), or fail with its error; Shutdown cancels and waits for running calls, the user's Shutdown runs exactly once after the last return, no implementation starts afterwards; every Send/answer/Release returns. Non-trivial: a Send was blocked by the server or a pipelined call was queued.",
	Quick: 2500, Thorough: 25000,
	Gen: genCase,
	Run: run,
})

var _ = errors.New
