package c12

import (
	"context"
	"fmt"
	"strings"
	"time"

	capnp "capnproto.org/go/capnp/v3"
	"capnproto.org/go/capnp/v3/verifharness/pbt"
	"capnproto.org/go/capnp/v3/verifharness/rpcsim"
	"pgregory.net/rapid"
)

// Chains of pipelined calls on locally implemented capabilities (server.Server objects that return further objects):
// calls pipelined on answers that have not returned, calls pipelined on *those* calls' answers, capabilities that are
// busy with a call they have not acknowledged while an answer's queue is being replayed, later calls on the same
// pipeline arriving during the replay.

type ChainOp struct {
	K string `json:"k"` // call pipe getcap open
	A int    `json:"a,omitempty"`
	B int    `json:"b,omitempty"` // flags selector / field
}

type ChainCase struct {
	Ops []ChainOp `json:"ops"`
}

type chainCall struct {
	idx    int
	serial uint64
	flags  uint64
	key    string // the reference the call was made on
	parent *chainCall
	field  int
	client int // index of the client used (direct calls)
	ans    *capnp.Answer
	rel    capnp.ReleaseFunc
	sent   chan struct{}
	opened bool
}

type chainClient struct {
	c      *capnp.Client
	key    string
	parent *chainCall // nil: the root object
	field  int
}

var chainFlags = []uint64{
	0, 0,
	rpcsim.FlagHold,
	rpcsim.FlagHold | rpcsim.FlagLateAck,
	rpcsim.CapNewObject << rpcsim.FlagCapShift,
	rpcsim.CapNewObject<<rpcsim.FlagCapShift | rpcsim.FlagHold,
	rpcsim.CapNewObject<<rpcsim.FlagCapShift | rpcsim.FlagHold,
	rpcsim.CapNewObject<<rpcsim.FlagCapShift | rpcsim.FlagSecond,
	rpcsim.CapNewObject<<rpcsim.FlagCapShift | rpcsim.FlagSecond | rpcsim.FlagHold,
	rpcsim.CapNewObject<<rpcsim.FlagCapShift | rpcsim.FlagTwice | rpcsim.FlagHold,
	rpcsim.FlagErr,
	rpcsim.FlagErr | rpcsim.FlagHold,
}

func runChains(c ChainCase) (pbt.Result, error) {
	var res pbt.Result
	world := rpcsim.NewWorld()
	_, root := world.NewObject()
	clients := []*chainClient{{c: root, key: "root"}}
	var calls []*chainCall
	bySerial := map[uint64]*chainCall{}
	serial := uint64(0)
	pendingSend := func() *chainCall {
		for _, cc := range calls {
			select {
			case <-cc.sent:
			default:
				return cc
			}
		}
		return nil
	}
	issue := func(cc *chainCall, do func(ctx context.Context, s capnp.Send) (*capnp.Answer, capnp.ReleaseFunc)) {
		serial++
		cc.serial, cc.idx, cc.sent = serial, len(calls), make(chan struct{})
		calls = append(calls, cc)
		bySerial[cc.serial] = cc
		send := capnp.Send{Method: capnp.Method{InterfaceID: rpcsim.Iface, MethodID: rpcsim.Method}, ArgsSize: capnp.ObjectSize{DataSize: 16, PointerCount: 1},
			PlaceArgs: func(st capnp.Struct) error { st.SetUint64(0, cc.serial); st.SetUint64(8, cc.flags); return nil }}
		go func() {
			defer close(cc.sent)
			cc.ans, cc.rel = do(context.Background(), send)
		}()
		// "made in order": the next call is made after this Send returned.  A Send that the server keeps waiting (its
		// target has not acknowledged the previous call, or an answer's queue is being replayed) is left pending; until
		// it returns only gates are opened.
		select {
		case <-cc.sent:
		case <-time.After(3 * time.Millisecond):
			res.Count("sends_kept_waiting", 1)
		}
	}
	for _, op := range c.Ops {
		if pendingSend() != nil && op.K != "open" {
			continue
		}
		switch op.K {
		case "call":
			cl := clients[op.A%len(clients)]
			cc := &chainCall{flags: chainFlags[op.B%len(chainFlags)], key: cl.key, client: op.A % len(clients)}
			if cl.parent != nil {
				cc.parent, cc.field = cl.parent, cl.field
			}
			issue(cc, func(ctx context.Context, s capnp.Send) (*capnp.Answer, capnp.ReleaseFunc) {
				return cl.c.SendCall(ctx, s)
			})
		case "pipe":
			if len(calls) == 0 {
				continue
			}
			p := calls[op.A%len(calls)]
			field := (op.B / 16) % 2
			cc := &chainCall{flags: chainFlags[op.B%len(chainFlags)], key: fmt.Sprintf("Q%d/%d", p.idx, field), parent: p, field: field}
			if p.ans == nil {
				continue
			}
			issue(cc, func(ctx context.Context, s capnp.Send) (*capnp.Answer, capnp.ReleaseFunc) {
				return p.ans.PipelineSend(ctx, []capnp.PipelineOp{{Field: uint16(field)}}, s)
			})
			res.Count("pipelined", 1)
			if p.parent != nil {
				res.Count("second_level_pipelined", 1)
			}
		case "getcap":
			if len(calls) == 0 {
				continue
			}
			p := calls[op.A%len(calls)]
			field := op.B % 2
			select {
			case <-p.ans.Done():
			default:
				continue
			}
			st, err := p.ans.Struct()
			if err != nil {
				continue
			}
			ptr, err := st.Ptr(uint16(field))
			if err != nil || !ptr.Interface().IsValid() {
				continue
			}
			clients = append(clients, &chainClient{c: ptr.Interface().Client().AddRef(), key: fmt.Sprintf("Q%d/%d", p.idx, field), parent: p, field: field})
		case "open":
			var cand []*chainCall
			for _, cc := range calls {
				if cc.flags&rpcsim.FlagHold != 0 && !cc.opened {
					cand = append(cand, cc)
				}
			}
			if len(cand) == 0 {
				continue
			}
			cc := cand[op.A%len(cand)]
			cc.opened = true
			world.Open(cc.serial)
			time.Sleep(200 * time.Microsecond)
		}
	}
	// wind down: every gate opens, every Send returns, every answer resolves
	world.OpenUpTo(1 << 62)
	for _, cc := range calls {
		select {
		case <-cc.sent:
		case <-time.After(deadline):
			return res, pbt.Fail("hang/send", "the Send of call %d (reference %s) never returned although every gate is open\n%s", cc.serial, cc.key, pbt.Stacks("capnp/v3"))
		}
		select {
		case <-cc.ans.Done():
		case <-time.After(deadline):
			return res, pbt.Fail("hang/answer", "call %d (reference %s) never resolved although every gate is open\n%s", cc.serial, cc.key, pbt.Stacks("capnp/v3"))
		}
	}
	// ---- oracle
	objNew := map[uint64]int{}
	delivered := map[uint64]int{}
	perObj := map[int][]uint64{}
	ndeliv := map[uint64]int{}
	for _, ev := range world.Log.Snapshot() {
		switch ev.Kind {
		case "object-new":
			objNew[ev.Call] = ev.Hook
		case "deliver":
			delivered[ev.Call] = ev.Hook
			ndeliv[ev.Call]++
			perObj[ev.Hook] = append(perObj[ev.Hook], ev.Call)
		}
	}
	// where must a call arrive?  -1: nowhere (it must fail)
	var target func(cc *chainCall) int
	target = func(cc *chainCall) int {
		p := cc.parent
		if p == nil {
			return 0
		}
		if target(p) < 0 || p.flags&rpcsim.FlagErr != 0 || (p.flags>>rpcsim.FlagCapShift)&3 != rpcsim.CapNewObject {
			return -1
		}
		key := p.serial
		if cc.field == 1 {
			switch {
			case p.flags&rpcsim.FlagSecond != 0:
				key |= rpcsim.SecondMark
			case p.flags&rpcsim.FlagTwice != 0:
			default:
				return -1
			}
		}
		o, ok := objNew[key]
		if !ok {
			return -1
		}
		return o
	}
	describe := func(cc *chainCall) string {
		if cc.parent == nil {
			return fmt.Sprintf("call %d on the root object", cc.serial)
		}
		return fmt.Sprintf("call %d on pointer %d of the results of call %d", cc.serial, cc.field, cc.parent.serial)
	}
	for _, cc := range calls {
		want := target(cc)
		got, ok := delivered[cc.serial]
		st, err := cc.ans.Struct()
		switch {
		case ndeliv[cc.serial] > 1:
			return res, pbt.Fail("delivery/duplicate", "%s was delivered %d times", describe(cc), ndeliv[cc.serial])
		case want < 0 && ok:
			return res, pbt.Fail("delivery/unexpected", "%s has no capability to reach (its answer holds none there, or failed) but was delivered to object %d", describe(cc), got)
		case want < 0 && err == nil:
			return res, pbt.Fail("result/wrong", "%s has no capability to reach but succeeded", describe(cc))
		case want >= 0 && !ok:
			return res, pbt.Fail("delivery/missing", "%s must reach object %d but was never delivered (result error: %v)", describe(cc), want, err)
		case want >= 0 && got != want:
			return res, pbt.Fail("delivery/wrong-object", "%s must reach object %d but was delivered to object %d", describe(cc), want, got)
		case want >= 0 && cc.flags&rpcsim.FlagErr != 0 && (err == nil || !strings.Contains(err.Error(), fmt.Sprintf("object-error-%d", cc.serial))):
			return res, pbt.Fail("result/wrong", "%s fails inside the object, but the caller sees %v", describe(cc), err)
		case want >= 0 && cc.flags&rpcsim.FlagErr == 0 && err != nil:
			return res, pbt.Fail("result/wrong", "%s succeeded inside object %d, but the caller sees the error %v", describe(cc), want, err)
		case want >= 0 && cc.flags&rpcsim.FlagErr == 0 && st.Uint64(0) != cc.serial:
			return res, pbt.Fail("result/wrong", "%s resolved with the results of call %d", describe(cc), st.Uint64(0))
		}
	}
	// calls made on one reference arrive in the order they were made
	for obj, sers := range perObj {
		last := map[string]*chainCall{}
		for _, s := range sers {
			cc := bySerial[s]
			if cc == nil {
				continue
			}
			if p := last[cc.key]; p != nil && p.idx > cc.idx {
				return res, pbt.Fail("order/pipelined-calls", "object %d received call %d before call %d, but call %d was made first on the same reference (%s); deliveries: %v", obj, p.serial, cc.serial, cc.serial, cc.key, sers)
			}
			last[cc.key] = cc
		}
	}
	for _, cc := range calls {
		cc.rel()
	}
	for _, cl := range clients {
		cl.c.Release()
	}
	res.Class("calls:%s", map[bool]string{true: ">=6", false: "<6"}[len(calls) >= 6])
	res.Nontrivial = res.Counts["second_level_pipelined"] > 0 || res.Counts["sends_kept_waiting"] > 0
	return res, nil
}

var chainSkeletons = map[string][]ChainOp{
	// base (held) <- A (returns an object at once), B (its target does not acknowledge), C pipelined on A; the base
	// returns, the replay of its queue is stuck at B; D arrives on the same reference as C and must not overtake it
	"nested-overtake": {{K: "call", B: 5}, {K: "pipe", A: 0, B: 4}, {K: "pipe", A: 0, B: 3}, {K: "pipe", A: 1, B: 0}, {K: "open", A: 0}, {K: "pipe", A: 1, B: 0}, {K: "open", A: 0}},
	// second-level pipelining behind a held base call
	"second-level": {{K: "call", B: 5}, {K: "pipe", A: 0, B: 5}, {K: "pipe", A: 1, B: 0}, {K: "pipe", A: 1, B: 0}, {K: "open", A: 0}, {K: "pipe", A: 1, B: 0}, {K: "open", A: 0}},
	// the answer's queue is replayed while its target is busy with an un-acknowledged call, and another call arrives on the pipeline
	"busy-target-during-replay": {{K: "call", B: 4}, {K: "getcap", A: 0, B: 0}, {K: "call", B: 9}, {K: "pipe", A: 1, B: 0}, {K: "call", A: 1, B: 3}, {K: "pipe", A: 1, B: 0}, {K: "open", A: 0}, {K: "pipe", A: 1, B: 0}, {K: "open", A: 0}},
}

var _ = pbt.Register(pbt.Spec[ChainCase]{
	Property: "C12", Name: "pipeline-chains",
	Rule:  "scripts of 3-20 ops over server.Server objects that return further objects: calls on the root object or on capabilities taken from results, calls pipelined on any earlier call's answer (first- and second-level, pointer 0 or 1), behaviours {return at once, wait at a gate after acknowledging, wait at a gate WITHOUT acknowledging (the object stays busy), fail} x {no capability, a fresh object, two different fresh objects, the same object twice}, gate openings; three skeletons (second-level pipelining behind a held call; an answer's queue replayed while its target is busy, with a further pipelined call arriving; a call pipelined on a queued call's answer while the replay of the base's queue is stuck behind it) are interleaved with drawn ops in half of the cases. Calls are made one after another from one goroutine; a Send the server keeps waiting is left pending and only gates are opened until it returns. Oracle: every call reaches exactly the object its reference denotes (or fails if the answer holds no capability there), exactly once; it resolves with its own results / its own error; calls made on one reference (root, or pointer f of call k's results - through the answer's pipeline or a client taken from the results) arrive in the order they were made; every Send and answer completes once all gates are open. Non-trivial: a second-level pipelined call or a Send that was kept waiting.",
	Quick: 1500, Thorough: 20000,
	Gen: func(t *rapid.T) ChainCase {
		var c ChainCase
		rnd := func() ChainOp {
			return ChainOp{K: rapid.SampledFrom([]string{"call", "call", "pipe", "pipe", "pipe", "getcap", "open", "open"}).Draw(t, "k"), A: rapid.IntRange(0, 11).Draw(t, "a"), B: rapid.IntRange(0, 31).Draw(t, "b")}
		}
		if sk := rapid.SampledFrom([]string{"", "", "", "second-level", "busy-target-during-replay", "nested-overtake"}).Draw(t, "skeleton"); sk != "" {
			for _, s := range chainSkeletons[sk] {
				if rapid.IntRange(0, 3).Draw(t, "fill") == 0 {
					c.Ops = append(c.Ops, rnd())
				}
				c.Ops = append(c.Ops, s)
			}
		}
		for i, n := 0, rapid.IntRange(3, 20).Draw(t, "n"); i < n; i++ {
			c.Ops = append(c.Ops, rnd())
		}
		return c
	},
	Run: runChains,
})
