// Package walk drives the public read API of capnp in lock step with the
// independent decoder of package ref.
package walk

import (
	"bytes"
	"encoding/binary"
	"fmt"
	"strings"

	capnp "capnproto.org/go/capnp/v3"
	"capnproto.org/go/capnp/v3/verifharness/pbt"
	"capnproto.org/go/capnp/v3/verifharness/ref"
)

// Walker compares what the API hands out with what the bytes denote.
type Walker struct {
	D        *ref.Decoder
	Valid    bool // the message is spec-valid: API must succeed and agree everywhere
	MaxSteps int  // dereference budget (default 20000)
	MaxDepth int  // stop descending below this depth (default 100)

	InSegs     func(b []byte) bool // optional: address check for slices handed out by Text/Data accessors
	TotalElems int                 // sum of |Len()| over all lists reached
	Steps      int
	OK         int            // successful non-null dereferences
	Errs       map[string]int // API error strings (normalised)
	Kinds      map[string]int
	DeepestOK  int
	Truncated  bool
}

func (w *Walker) init() {
	if w.MaxSteps == 0 {
		w.MaxSteps = 20000
	}
	if w.MaxDepth == 0 {
		w.MaxDepth = 100
	}
	if w.Errs == nil {
		w.Errs = map[string]int{}
		w.Kinds = map[string]int{}
	}
}

// NormErr strips variable parts of an error message.
func NormErr(err error) string {
	s := err.Error()
	// drop numbers
	var b strings.Builder
	for _, r := range s {
		if r >= '0' && r <= '9' {
			continue
		}
		b.WriteRune(r)
	}
	return b.String()
}

func isBounds(err error) bool {
	de, ok := err.(*ref.DecodeError)
	if !ok {
		return false
	}
	return strings.Contains(de.Reason, "out of bounds") || strings.Contains(de.Reason, "out of range") || strings.Contains(de.Reason, "overrun")
}

// default values handed to the ...Default accessors: a struct {0xD0D0D0D0D0D0D0D0; 1 pointer} and a 3-element UInt16 list
var defStruct, defList = func() ([]byte, []byte) {
	m1, s1, _ := capnp.NewMessage(capnp.SingleSegment(nil))
	r1, _ := capnp.NewRootStruct(s1, capnp.ObjectSize{DataSize: 8, PointerCount: 1})
	r1.SetUint64(0, 0xD0D0D0D0D0D0D0D0)
	b1, _ := m1.Marshal()
	m2, s2, _ := capnp.NewMessage(capnp.SingleSegment(nil))
	l2, _ := capnp.NewUInt16List(s2, 3)
	l2.Set(1, 0xD1D1)
	m2.SetRoot(l2.ToPtr())
	b2, _ := m2.Marshal()
	return b1, b2
}()

// defaults checks the ...Default accessors on a successfully read pointer: a default stands in for a null pointer (and
// for a pointer of another kind) only; a pointer that is present - a zero-sized struct, an empty list - is the value.
func (w *Walker) defaults(p capnp.Ptr, kind ref.Kind, lk ref.ListKind, count int, path string) error {
	isDefStruct := func(s capnp.Struct) bool {
		return s.IsValid() && s.Message() != p.Message() && s.Size() == (capnp.ObjectSize{DataSize: 8, PointerCount: 1}) && s.Uint64(0) == 0xD0D0D0D0D0D0D0D0
	}
	isDefList := func(l capnp.List) bool {
		return l.IsValid() && l.Message() != p.Message() && l.Len() == 3 && capnp.UInt16List{List: l}.At(1) == 0xD1D1
	}
	// the untyped form: any valid pointer is kept, a null pointer becomes the default
	if q, err := p.Default(defStruct); err != nil {
		return pbt.Fail("default/ptr-error", "%s: Ptr.Default failed: %v", path, err)
	} else if kind == ref.KNull {
		if !isDefStruct(q.Struct()) {
			return pbt.Fail("default/ptr-missing", "%s: Ptr.Default on a null pointer did not return the default", path)
		}
	} else if q.Message() != p.Message() || !capnp.SamePtr(q, p) || q.IsValid() != p.IsValid() {
		return pbt.Fail("default/ptr-replaces-present-value", "%s: Ptr.Default replaced a pointer of kind %v that is present", path, kind)
	}
	s, err := p.StructDefault(defStruct)
	if err != nil {
		return pbt.Fail("default/struct-error", "%s: StructDefault failed: %v", path, err)
	}
	if kind == ref.KStruct {
		if !s.IsValid() || s.Message() != p.Message() || !capnp.SamePtr(s.ToPtr(), p) || s.Size() != p.Struct().Size() {
			return pbt.Fail("default/struct-replaces-present-value", "%s: the pointer holds a struct of size %v, but StructDefault returned something else (size %v, same message: %v): a default applies to a null pointer only", path, p.Struct().Size(), s.Size(), s.Message() == p.Message())
		}
	} else if !isDefStruct(s) {
		return pbt.Fail("default/struct-missing", "%s: pointer of kind %v: StructDefault did not return the default", path, kind)
	}
	l, err := p.ListDefault(defList)
	if err != nil {
		return pbt.Fail("default/list-error", "%s: ListDefault failed: %v", path, err)
	}
	if kind == ref.KList {
		if !l.IsValid() || l.Message() != p.Message() || !capnp.SamePtr(l.ToPtr(), p) || l.Len() != p.List().Len() {
			return pbt.Fail("default/list-replaces-present-value", "%s: the pointer holds a list of %d elements, but ListDefault returned something else (%d elements)", path, p.List().Len(), l.Len())
		}
	} else if !isDefList(l) {
		return pbt.Fail("default/list-missing", "%s: pointer of kind %v: ListDefault did not return the default", path, kind)
	}
	def := []byte("dflt\x00x")
	d, tx, tb := p.DataDefault(def), p.TextDefault("dflt"), p.TextBytesDefault("dflt")
	if kind == ref.KList && lk == ref.LB1 {
		raw := p.Data()
		if !bytes.Equal(d, raw) || len(d) != count {
			return pbt.Fail("default/data-replaces-present-value", "%s: byte list of %d elements: DataDefault returned %d bytes %x", path, count, len(d), clip(d))
		}
		if count > 0 && raw[count-1] == 0 {
			if tx != string(raw[:count-1]) || !bytes.Equal(tb, raw[:count-1]) {
				return pbt.Fail("default/text-replaces-present-value", "%s: NUL-terminated byte list %q: TextDefault returned %q, TextBytesDefault %q", path, clip(raw), tx, clip(tb))
			}
		} else if tx != "dflt" || string(tb) != "dflt" {
			return pbt.Fail("default/text-missing", "%s: byte list without terminator: TextDefault returned %q", path, tx)
		}
	} else if !bytes.Equal(d, def) || tx != "dflt" || string(tb) != "dflt" {
		return pbt.Fail("default/bytes-missing", "%s: pointer of kind %v (list kind %d): DataDefault/TextDefault did not return the defaults (%x, %q, %q)", path, kind, lk, clip(d), tx, clip(tb))
	}
	w.Kinds["defaults-checked"]++
	return nil
}

// Root walks the whole message from its root pointer.
func (w *Walker) Root(msg *capnp.Message) error {
	w.init()
	p, err := msg.Root()
	if w.D == nil {
		w.apiWalk(p, err, 0)
		return nil
	}
	return w.Ptr(p, err, 0, 0, 0, "root")
}

// Ptr checks the outcome (p, perr) of dereferencing the pointer word at (seg, word).
func (w *Walker) Ptr(p capnp.Ptr, perr error, seg, word, depth int, path string) error {
	w.init()
	w.Steps++
	if w.Steps > w.MaxSteps {
		w.Truncated = true
		return nil
	}
	if depth > w.MaxDepth {
		w.Truncated = true
		return nil
	}
	t, rerr := w.D.Resolve(seg, word)
	if perr != nil {
		w.Errs[NormErr(perr)]++
		if w.Valid {
			return pbt.Fail("api-rejects-valid/"+lastPart(NormErr(perr)), "%s: API error %v on a spec-valid message (ref: %+v, %v)", path, perr, t, rerr)
		}
		return nil
	}
	if !p.IsValid() {
		// API says null.
		if rerr == nil && t.Kind != ref.KNull && w.Valid {
			return pbt.Fail("api-null-for-nonnull", "%s: API returned null, spec says %v", path, t.Kind)
		}
		return w.defaults(p, ref.KNull, 0, 0, path)
	}
	// API succeeded with a non-null pointer.
	if rerr != nil {
		if w.Valid || isBounds(rerr) {
			return pbt.Fail("api-accepts-invalid-pointer/"+reasonKey(rerr), "%s: API dereferenced pointer at seg %d word %d but spec decoding fails: %v", path, seg, word, rerr)
		}
		return nil // malformed in a way that is not about bounds; the API may be lenient
	}
	if t.Kind == ref.KNull {
		return pbt.Fail("api-nonnull-for-null", "%s: API returned a non-null pointer for a null word", path)
	}
	w.OK++
	if depth > w.DeepestOK {
		w.DeepestOK = depth
	}
	if err := w.defaults(p, t.Kind, ref.ListKind(t.PtrWord>>32&7), int(t.PtrWord>>35), path); err != nil {
		return err
	}
	switch t.Kind {
	case ref.KCap:
		i := p.Interface()
		if !i.IsValid() {
			return pbt.Fail("kind-mismatch/cap", "%s: spec says capability, API says otherwise", path)
		}
		w.Kinds["cap"]++
		if uint32(i.Capability()) != t.Cap {
			return pbt.Fail("cap-index", "%s: capability index %d want %d", path, i.Capability(), t.Cap)
		}
		return nil
	case ref.KStruct:
		s := p.Struct()
		if !s.IsValid() {
			return pbt.Fail("kind-mismatch/struct", "%s: spec says struct, API says otherwise", path)
		}
		w.Kinds["struct"]++
		dw, pc := int(uint16(t.PtrWord>>32)), int(uint16(t.PtrWord>>48))
		if t.Word < 0 || t.Word+dw+pc > len(w.D.Segs[t.Seg])/8 {
			return pbt.Fail("api-accepts-out-of-bounds/struct", "%s: API accepted a struct whose extent [%d,%d) words is outside segment %d (%d words)", path, t.Word, t.Word+dw+pc, t.Seg, len(w.D.Segs[t.Seg])/8)
		}
		return w.structBody(s, t.Seg, t.Word, dw, pc, depth, path)
	case ref.KList:
		l := p.List()
		if !l.IsValid() {
			return pbt.Fail("kind-mismatch/list", "%s: spec says list, API says otherwise", path)
		}
		return w.list(p, l, t, depth, path)
	}
	return nil
}

func lastPart(s string) string {
	if i := strings.LastIndex(s, ": "); i >= 0 {
		s = s[i+2:]
	}
	if len(s) > 60 {
		s = s[:60]
	}
	return s
}

func reasonKey(err error) string {
	s := NormErr(err)
	s = strings.TrimPrefix(s, "ref.Decode: ")
	if i := strings.Index(s, "("); i > 0 {
		s = s[:i]
	}
	return strings.TrimSpace(s)
}

func (w *Walker) segData(seg, word, words int) []byte {
	return w.D.Segs[seg][word*8 : (word+words)*8]
}

func (w *Walker) structBody(s capnp.Struct, seg, word, dw, pc, depth int, path string) error {
	sz := s.Size()
	if int(sz.DataSize) != dw*8 || int(sz.PointerCount) != pc {
		return pbt.Fail("struct-size", "%s: Size()=%v, spec says %d data words %d pointers", path, sz, dw, pc)
	}
	data := w.segData(seg, word, dw)
	if err := checkData(s, data, path); err != nil {
		return err
	}
	// pointers in range, plus one past the end
	for i := 0; i <= pc; i++ {
		c, err := s.Ptr(uint16(i))
		if i == pc {
			if err != nil || c.IsValid() {
				return pbt.Fail("ptr-past-end", "%s: Ptr(%d) past the pointer section returned (%v,%v), want null", path, i, c.IsValid(), err)
			}
			if s.HasPtr(uint16(i)) {
				return pbt.Fail("hasptr-past-end", "%s: HasPtr(%d) past the end is true", path, i)
			}
			break
		}
		raw := binary.LittleEndian.Uint64(w.D.Segs[seg][(word+dw+i)*8:])
		if s.HasPtr(uint16(i)) != (raw != 0) {
			return pbt.Fail("hasptr", "%s: HasPtr(%d)=%v but pointer word is %#x", path, i, s.HasPtr(uint16(i)), raw)
		}
		if e := w.Ptr(c, err, seg, word+dw+i, depth+1, fmt.Sprintf("%s.p%d", path, i)); e != nil {
			return e
		}
	}
	return nil
}

// checkData compares every accessor width at every offset of the data
// section (bounded for big sections) and a few past-the-end reads.
func checkData(s capnp.Struct, data []byte, path string) error {
	n := len(data)
	get := func(off, width int) uint64 {
		if off+width > n {
			return 0 // missing fields read as default (zero)
		}
		switch width {
		case 1:
			return uint64(data[off])
		case 2:
			return uint64(binary.LittleEndian.Uint16(data[off:]))
		case 4:
			return uint64(binary.LittleEndian.Uint32(data[off:]))
		}
		return binary.LittleEndian.Uint64(data[off:])
	}
	limit := n
	if limit > 64 {
		limit = 64
	}
	offs := make([]int, 0, limit+8)
	for o := 0; o < limit; o++ {
		offs = append(offs, o)
	}
	if n > 64 {
		offs = append(offs, n-8, n-4, n-2, n-1)
	}
	offs = append(offs, n, n+1, n+7, n+8, 1<<19-8, 1<<19-1)
	for _, o := range offs {
		if got, want := uint64(s.Uint8(capnp.DataOffset(o))), get(o, 1); got != want {
			return pbt.Fail("data/uint8", "%s: Uint8(%d)=%#x want %#x (data section %d bytes)", path, o, got, want, n)
		}
		if got, want := uint64(s.Uint16(capnp.DataOffset(o))), get(o, 2); got != want {
			return pbt.Fail("data/uint16", "%s: Uint16(%d)=%#x want %#x (data section %d bytes)", path, o, got, want, n)
		}
		if got, want := uint64(s.Uint32(capnp.DataOffset(o))), get(o, 4); got != want {
			return pbt.Fail("data/uint32", "%s: Uint32(%d)=%#x want %#x (data section %d bytes)", path, o, got, want, n)
		}
		if got, want := s.Uint64(capnp.DataOffset(o)), get(o, 8); got != want {
			return pbt.Fail("data/uint64", "%s: Uint64(%d)=%#x want %#x (data section %d bytes)", path, o, got, want, n)
		}
	}
	for _, o := range offs {
		if o > 1<<18 {
			continue
		}
		for b := 0; b < 8; b += 7 {
			bit := o*8 + b
			want := false
			if o < n {
				want = data[o]&(1<<uint(b)) != 0
			}
			if got := s.Bit(capnp.BitOffset(bit)); got != want {
				return pbt.Fail("data/bit", "%s: Bit(%d)=%v want %v", path, bit, got, want)
			}
		}
	}
	return nil
}

func sampleIdx(n int) []int {
	if n <= 40 {
		out := make([]int, n)
		for i := range out {
			out[i] = i
		}
		return out
	}
	return []int{0, 1, 7, 8, n / 2, n - 9, n - 8, n - 2, n - 1}
}

func (w *Walker) list(p capnp.Ptr, l capnp.List, t ref.Target, depth int, path string) error {
	lk := ref.ListKind(t.PtrWord >> 32 & 7)
	count := int(t.PtrWord >> 35)
	seg, word := t.Seg, t.Word
	segWords := len(w.D.Segs[seg]) / 8
	w.Kinds[fmt.Sprintf("list%d", lk)]++
	if n := l.Len(); n >= 0 {
		w.TotalElems += n
	} else {
		w.TotalElems -= n
	}
	// bounds are a matter of bytes: a segment supplied by the caller need not end on a word boundary, and a bit or
	// byte list that does not use the padding of its last word is inside the segment even when that padding is not
	segBytes := len(w.D.Segs[seg])
	oob := func(nbytes int) error {
		if word < 0 || nbytes < 0 || word*8+nbytes > segBytes {
			return pbt.Fail("api-accepts-out-of-bounds/list", "%s: API accepted a list (kind %d, count %d) whose extent, bytes [%d,%d), is outside segment %d (%d bytes)", path, lk, count, word*8, word*8+nbytes, seg, segBytes)
		}
		return nil
	}
	_ = segWords
	switch lk {
	case ref.LVoid:
		if l.Len() != count {
			return pbt.Fail("list-len", "%s: Len()=%d want %d", path, l.Len(), count)
		}
		for _, i := range sampleIdx(count) {
			if s := l.Struct(i); !s.IsValid() || s.Size().DataSize != 0 || s.Size().PointerCount != 0 {
				return pbt.Fail("void-elem", "%s: Struct(%d) of a void list is not an empty struct", path, i)
			}
		}
	case ref.LBit:
		if err := oob((count + 7) / 8); err != nil {
			return err
		}
		if l.Len() != count {
			return pbt.Fail("list-len", "%s: Len()=%d want %d", path, l.Len(), count)
		}
		bl := capnp.BitList{List: l}
		for _, i := range sampleIdx(count) {
			want := w.D.Segs[seg][word*8+i/8]&(1<<uint(i%8)) != 0
			if got := bl.At(i); got != want {
				return pbt.Fail("bitlist-elem", "%s: BitList.At(%d)=%v want %v", path, i, got, want)
			}
		}
	case ref.LB1, ref.LB2, ref.LB4, ref.LB8:
		sz := lk.ElemBytes()
		if err := oob(count * sz); err != nil {
			return err
		}
		if l.Len() != count {
			return pbt.Fail("list-len", "%s: Len()=%d want %d", path, l.Len(), count)
		}
		raw := w.D.Segs[seg][word*8 : word*8+count*sz]
		for _, i := range sampleIdx(count) {
			e := raw[i*sz : (i+1)*sz]
			var got, want uint64
			switch sz {
			case 1:
				got, want = uint64(capnp.UInt8List{List: l}.At(i)), uint64(e[0])
				if g2 := (capnp.Int8List{List: l}).At(i); uint8(g2) != e[0] {
					return pbt.Fail("primlist-elem", "%s: Int8List.At(%d) wrong", path, i)
				}
			case 2:
				got, want = uint64(capnp.UInt16List{List: l}.At(i)), uint64(binary.LittleEndian.Uint16(e))
			case 4:
				got, want = uint64(capnp.UInt32List{List: l}.At(i)), uint64(binary.LittleEndian.Uint32(e))
			case 8:
				got, want = capnp.UInt64List{List: l}.At(i), binary.LittleEndian.Uint64(e)
			}
			if got != want {
				return pbt.Fail("primlist-elem", "%s: %d-byte list At(%d)=%#x want %#x", path, sz, i, got, want)
			}
			// upgrade view: element as a struct with the value as sole field
			s := l.Struct(i)
			if !s.IsValid() || int(s.Size().DataSize) != sz || s.Size().PointerCount != 0 {
				return pbt.Fail("primlist-as-struct-size", "%s: Struct(%d) of a %d-byte list has size %v", path, i, sz, s.Size())
			}
			if err := checkData(s, e, fmt.Sprintf("%s[%d]", path, i)); err != nil {
				return err
			}
		}
		if sz == 1 {
			// Text / Data views
			d := p.Data()
			if w.InSegs != nil && !w.InSegs(d) {
				return pbt.Fail("slice-outside-segments/data", "%s: Data() returned a slice that does not lie inside a supplied segment", path)
			}
			if tb := p.TextBytes(); w.InSegs != nil && !w.InSegs(tb) {
				return pbt.Fail("slice-outside-segments/text", "%s: TextBytes() returned a slice that does not lie inside a supplied segment", path)
			}
			if !bytes.Equal(d, raw) {
				return pbt.Fail("data-bytes", "%s: Data() returned %d bytes %x want %x", path, len(d), clip(d), clip(raw))
			}
			if count > 0 && raw[count-1] == 0 {
				if got := p.TextBytes(); !bytes.Equal(got, raw[:count-1]) || (got == nil) {
					return pbt.Fail("text-bytes", "%s: TextBytes()=%q want %q", path, clip(got), clip(raw[:count-1]))
				}
				if got := p.Text(); got != string(raw[:count-1]) {
					return pbt.Fail("text", "%s: Text() wrong", path)
				}
			} else {
				if got := p.TextBytes(); got != nil {
					return pbt.Fail("text-unterminated", "%s: TextBytes() of a byte list without NUL terminator returned %q", path, clip(got))
				}
			}
		}
	case ref.LPtr:
		if err := oob(count * 8); err != nil {
			return err
		}
		if l.Len() != count {
			return pbt.Fail("list-len", "%s: Len()=%d want %d", path, l.Len(), count)
		}
		pl := capnp.PointerList{List: l}
		for _, i := range sampleIdx(count) {
			c, err := pl.At(i)
			if e := w.Ptr(c, err, seg, word+i, depth+1, fmt.Sprintf("%s[%d]", path, i)); e != nil {
				return e
			}
			if w.Steps > w.MaxSteps {
				break
			}
		}
	case ref.LComposite:
		if err := oob((count + 1) * 8); err != nil {
			return err
		}
		tag := binary.LittleEndian.Uint64(w.D.Segs[seg][word*8:])
		n := int(int32(uint32(tag)) >> 2)
		dw, pc := int(uint16(tag>>32)), int(uint16(tag>>48))
		if tag&3 != 0 {
			return pbt.Fail("api-accepts-bad-composite-tag", "%s: API accepted a composite list whose tag is not a struct pointer", path)
		}
		if n < 0 && !w.Valid {
			// Not a bounds question (no bytes are involved); what consumers do with a
			// negative length is C01's business.
			w.Kinds["negative-composite-count"]++
			return nil
		}
		if n < 0 {
			return pbt.Fail("api-accepts-negative-composite-count", "%s: API accepted a composite list whose tag has element count %d (Len()=%d)", path, n, l.Len())
		}
		if w.Valid && n*(dw+pc) != count {
			return pbt.Fail("composite-word-count", "%s: composite list with %d elements of %d words in a %d-word body", path, n, dw+pc, count)
		}
		if word+1+n*(dw+pc) > segWords {
			// (elements beyond the pointer's word count but inside the segment are malformed, not out of bounds)
			return pbt.Fail("api-accepts-out-of-bounds/composite-overrun", "%s: API accepted a composite list with %d elements of %d words starting at word %d of a %d-word segment", path, n, dw+pc, word+1, segWords)
		}
		if l.Len() != n {
			return pbt.Fail("list-len", "%s: Len()=%d want %d", path, l.Len(), n)
		}
		for _, i := range sampleIdx(n) {
			s := l.Struct(i)
			if !s.IsValid() {
				return pbt.Fail("composite-elem-invalid", "%s: Struct(%d) invalid", path, i)
			}
			base := word + 1 + i*(dw+pc)
			if e := w.structBody(s, seg, base, dw, pc, depth, fmt.Sprintf("%s[%d]", path, i)); e != nil {
				return e
			}
			// upgrade views: primitive wrappers read the first bytes of the data section,
			// PointerList reads the first pointer of the element
			ed := w.segData(seg, base, dw)
			if dw >= 1 {
				if got, want := (capnp.UInt8List{List: l}).At(i), ed[0]; got != want {
					return pbt.Fail("composite-as-uint8", "%s: UInt8List.At(%d)=%#x want %#x", path, i, got, want)
				}
				if got, want := (capnp.UInt16List{List: l}).At(i), binary.LittleEndian.Uint16(ed); got != want {
					return pbt.Fail("composite-as-uint16", "%s: UInt16List.At(%d)=%#x want %#x", path, i, got, want)
				}
				if got, want := (capnp.UInt32List{List: l}).At(i), binary.LittleEndian.Uint32(ed); got != want {
					return pbt.Fail("composite-as-uint32", "%s: UInt32List.At(%d)=%#x want %#x", path, i, got, want)
				}
				if got, want := (capnp.UInt64List{List: l}).At(i), binary.LittleEndian.Uint64(ed); got != want {
					return pbt.Fail("composite-as-uint64", "%s: UInt64List.At(%d)=%#x want %#x", path, i, got, want)
				}
			}
			if dw == 0 && pc >= 1 {
				// elements without a data section: a primitive view has nothing to read and yields the default
				if got := (capnp.UInt8List{List: l}).At(i); got != 0 {
					return pbt.Fail("composite-as-uint8", "%s: UInt8List.At(%d)=%#x on elements that have no data section, want 0", path, i, got)
				}
				if got := (capnp.UInt32List{List: l}).At(i); got != 0 {
					return pbt.Fail("composite-as-uint32", "%s: UInt32List.At(%d)=%#x on elements that have no data section, want 0", path, i, got)
				}
				if got := (capnp.UInt64List{List: l}).At(i); got != 0 {
					return pbt.Fail("composite-as-uint64", "%s: UInt64List.At(%d)=%#x on elements that have no data section (the element's first pointer word is %#x), want 0", path, i, got, binary.LittleEndian.Uint64(w.segData(seg, base, 1)))
				}
			}
			if pc == 0 && dw >= 1 {
				// elements without pointers: a pointer view yields null (or an error), never an object
				c, err := capnp.PointerList{List: l}.At(i)
				if err == nil && c.IsValid() {
					return pbt.Fail("composite-as-pointerlist/phantom-pointer", "%s: PointerList.At(%d) on elements that have no pointer section returned an object (element data %x)", path, i, clip(ed))
				}
				if tl := (capnp.TextList{List: l}); true {
					if sv, err := tl.At(i); err == nil && sv != "" {
						return pbt.Fail("composite-as-pointerlist/phantom-pointer", "%s: TextList.At(%d) on elements that have no pointer section returned %q", path, i, sv)
					}
				}
			}
			if pc >= 1 {
				c, err := capnp.PointerList{List: l}.At(i)
				if e := w.Ptr(c, err, seg, base+dw, depth+1, fmt.Sprintf("%s[%d]<as-pointer-list>", path, i)); e != nil {
					if v, ok := e.(*pbt.Violation); ok {
						v.Sig = "composite-as-pointerlist/" + v.Sig
					}
					return e
				}
			}
			if w.Steps > w.MaxSteps {
				break
			}
		}
	}
	return nil
}

func clip(b []byte) []byte {
	if len(b) > 64 {
		return b[:64]
	}
	return b
}

// apiWalk explores the message through the API alone (no reference decoder):
// used when the bytes are not available to the harness (e.g. arenas that fail).
func (w *Walker) apiWalk(p capnp.Ptr, perr error, depth int) {
	w.Steps++
	if w.Steps > w.MaxSteps || depth > w.MaxDepth {
		w.Truncated = true
		return
	}
	if perr != nil {
		w.Errs[NormErr(perr)]++
		return
	}
	if !p.IsValid() {
		return
	}
	w.OK++
	if s := p.Struct(); s.IsValid() {
		w.apiStruct(s, depth)
		return
	}
	if l := p.List(); l.IsValid() {
		n := l.Len()
		if n < 0 {
			w.TotalElems -= n
			return
		}
		w.TotalElems += n
		_ = p.Data()
		_ = p.TextBytes()
		_ = p.Text()
		for _, i := range sampleIdx(n) {
			_ = capnp.BitList{List: l}.At(i)
			_ = capnp.UInt8List{List: l}.At(i)
			_ = capnp.UInt16List{List: l}.At(i)
			_ = capnp.UInt32List{List: l}.At(i)
			_ = capnp.UInt64List{List: l}.At(i)
			c, err := capnp.PointerList{List: l}.At(i)
			if err == nil {
				w.apiWalk(c, nil, depth+1)
			}
			if s := l.Struct(i); s.IsValid() {
				w.apiStruct(s, depth)
			}
			if w.Steps > w.MaxSteps {
				return
			}
		}
		return
	}
	if i := p.Interface(); i.IsValid() {
		_ = i.Capability()
		_ = i.Client()
	}
}

func (w *Walker) apiStruct(s capnp.Struct, depth int) {
	sz := s.Size()
	for _, o := range []int{0, 1, 7, 8, int(sz.DataSize) - 1, int(sz.DataSize), 1<<19 - 1} {
		if o < 0 {
			continue
		}
		_ = s.Uint8(capnp.DataOffset(o))
		_ = s.Uint16(capnp.DataOffset(o))
		_ = s.Uint32(capnp.DataOffset(o))
		_ = s.Uint64(capnp.DataOffset(o))
		if o < 1<<18 {
			_ = s.Bit(capnp.BitOffset(o * 8))
		}
	}
	for i := 0; i <= int(sz.PointerCount) && i < 70000; i++ {
		_ = s.HasPtr(uint16(i))
		c, err := s.Ptr(uint16(i))
		w.apiWalk(c, err, depth+1)
		if w.Steps > w.MaxSteps {
			return
		}
	}
}
