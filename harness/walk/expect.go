package walk

import (
	"bytes"
	"encoding/binary"
	"fmt"

	capnp "capnproto.org/go/capnp/v3"
	"capnproto.org/go/capnp/v3/verifharness/pbt"
	"capnproto.org/go/capnp/v3/verifharness/ref"
)

// Expect checks that reading p through the public accessors yields exactly v.
func Expect(p capnp.Ptr, perr error, v ref.Value, path string) error {
	if perr != nil {
		return pbt.Fail("read-error", "%s: reading back failed: %v (want %v)", path, perr, short(v))
	}
	switch v.Kind {
	case ref.KNull:
		if p.IsValid() {
			return pbt.Fail("nonnull-for-null", "%s: read back a non-null pointer, wrote null", path)
		}
		return nil
	case ref.KCap:
		i := p.Interface()
		if !i.IsValid() {
			return pbt.Fail("kind/cap", "%s: wrote a capability pointer, read back something else (valid=%v)", path, p.IsValid())
		}
		if uint32(i.Capability()) != v.Cap {
			return pbt.Fail("cap-index", "%s: capability index %d, wrote %d", path, i.Capability(), v.Cap)
		}
		return nil
	case ref.KStruct:
		s := p.Struct()
		if !s.IsValid() {
			return pbt.Fail("kind/struct", "%s: wrote a struct, read back something else (valid=%v)", path, p.IsValid())
		}
		return expectStruct(s, v, path, true)
	case ref.KList:
		l := p.List()
		if !l.IsValid() {
			return pbt.Fail("kind/list", "%s: wrote a list, read back something else (valid=%v)", path, p.IsValid())
		}
		return expectList(p, l, v, path)
	}
	return nil
}

func short(v ref.Value) string {
	s := v.String()
	if len(s) > 300 {
		s = s[:300] + "…"
	}
	return s
}

func expectStruct(s capnp.Struct, v ref.Value, path string, exactSize bool) error {
	sz := s.Size()
	if exactSize && (int(sz.DataSize) != len(v.Data) || int(sz.PointerCount) != len(v.Ptrs)) {
		return pbt.Fail("struct-size", "%s: Size()=%v, wrote %d data bytes %d pointers", path, sz, len(v.Data), len(v.Ptrs))
	}
	if err := checkData(s, v.Data, path); err != nil {
		return err
	}
	for i, c := range v.Ptrs {
		cp, err := s.Ptr(uint16(i))
		if s.HasPtr(uint16(i)) != (c.Kind != ref.KNull) {
			return pbt.Fail("hasptr", "%s: HasPtr(%d)=%v but wrote %v", path, i, s.HasPtr(uint16(i)), short(c))
		}
		if e := Expect(cp, err, c, fmt.Sprintf("%s.p%d", path, i)); e != nil {
			return e
		}
	}
	return nil
}

func expectList(p capnp.Ptr, l capnp.List, v ref.Value, path string) error {
	if l.Len() != v.N {
		return pbt.Fail("list-len", "%s: Len()=%d wrote %d", path, l.Len(), v.N)
	}
	switch v.LK {
	case ref.LVoid:
		if v.N > 0 {
			if s := l.Struct(0); !s.IsValid() || s.Size().DataSize != 0 || s.Size().PointerCount != 0 {
				return pbt.Fail("void-elem", "%s: void list element is not an empty struct", path)
			}
		}
	case ref.LBit:
		bl := capnp.BitList{List: l}
		for i, want := range v.Bits {
			if bl.At(i) != want {
				return pbt.Fail("bitlist-elem", "%s: BitList.At(%d)=%v wrote %v", path, i, bl.At(i), want)
			}
		}
	case ref.LB1, ref.LB2, ref.LB4, ref.LB8:
		sz := v.LK.ElemBytes()
		for i := 0; i < v.N; i++ {
			e := v.Prim[i*sz : (i+1)*sz]
			var got, want uint64
			switch sz {
			case 1:
				got, want = uint64((capnp.UInt8List{List: l}).At(i)), uint64(e[0])
			case 2:
				got, want = uint64((capnp.UInt16List{List: l}).At(i)), uint64(binary.LittleEndian.Uint16(e))
			case 4:
				got, want = uint64((capnp.UInt32List{List: l}).At(i)), uint64(binary.LittleEndian.Uint32(e))
			case 8:
				got, want = (capnp.UInt64List{List: l}).At(i), binary.LittleEndian.Uint64(e)
			}
			if got != want {
				return pbt.Fail("primlist-elem", "%s: %d-byte list At(%d)=%#x wrote %#x", path, sz, i, got, want)
			}
		}
		if v.N > 0 {
			if s := l.Struct(0); int(s.Size().DataSize) != sz || s.Size().PointerCount != 0 {
				return pbt.Fail("primlist-kind", "%s: list element size %v, wrote a %d-byte primitive list", path, s.Size(), sz)
			}
		}
		if sz == 1 {
			if d := p.Data(); !bytes.Equal(d, v.Prim) {
				return pbt.Fail("data-bytes", "%s: Data()=%x wrote %x", path, clip(d), clip(v.Prim))
			}
			if txt, ok := v.IsText(); ok {
				if got := p.TextBytes(); !bytes.Equal(got, txt) {
					return pbt.Fail("text-bytes", "%s: TextBytes()=%q wrote %q", path, clip(got), clip(txt))
				}
			}
		}
	case ref.LPtr:
		pl := capnp.PointerList{List: l}
		for i, c := range v.Elems {
			cp, err := pl.At(i)
			if e := Expect(cp, err, c, fmt.Sprintf("%s[%d]", path, i)); e != nil {
				return e
			}
		}
	case ref.LComposite:
		for i, c := range v.Elems {
			s := l.Struct(i)
			if !s.IsValid() {
				return pbt.Fail("composite-elem-invalid", "%s: Struct(%d) invalid", path, i)
			}
			if e := expectStruct(s, c, fmt.Sprintf("%s[%d]", path, i), true); e != nil {
				return e
			}
		}
		if v.N == 0 {
			// element size of an empty composite list is not observable through Struct(i)
		}
	}
	return nil
}
