package capsim

import (
	"context"
	"errors"
	"fmt"
	"sync"

	capnp "capnproto.org/go/capnp/v3"
)

// Event is one entry of the global event log.
type Event struct {
	Seq  int
	Kind string // send-start send-end recv-start recv-end shutdown acquire release-start release-end ...
	Hook int
	Call uint64
	G    int // harness goroutine id (concurrent scripts)
	H    int // handle id
}

// Log is a totally ordered event log shared by all hooks of a case.
type Log struct {
	mu     sync.Mutex
	events []Event
}

func (l *Log) Add(e Event) int {
	l.mu.Lock()
	e.Seq = len(l.events)
	l.events = append(l.events, e)
	l.mu.Unlock()
	return e.Seq
}

func (l *Log) Snapshot() []Event {
	l.mu.Lock()
	defer l.mu.Unlock()
	return append([]Event(nil), l.events...)
}

// Hook is an instrumented ClientHook.  A call's id travels in
// Method.InterfaceID; calls whose id is registered with Hold block inside
// Send/Recv ("call in progress") until Open(id).
type Hook struct {
	ID  int
	Log *Log

	mu        sync.Mutex
	gates     map[uint64]chan struct{}
	shutdowns int
	inCalls   int
}

func NewHook(id int, log *Log) *Hook {
	return &Hook{ID: id, Log: log, gates: map[uint64]chan struct{}{}}
}

// Hold makes the call with this id block inside the hook until Open.
func (h *Hook) Hold(call uint64) {
	h.mu.Lock()
	h.gates[call] = make(chan struct{})
	h.mu.Unlock()
}

// Open releases a held call (no-op if unknown).
func (h *Hook) Open(call uint64) {
	h.mu.Lock()
	g := h.gates[call]
	delete(h.gates, call)
	h.mu.Unlock()
	if g != nil {
		close(g)
	}
}

func (h *Hook) gate(call uint64) chan struct{} {
	h.mu.Lock()
	defer h.mu.Unlock()
	return h.gates[call]
}

var ErrHook = errors.New("capsim: call result")

func (h *Hook) Send(ctx context.Context, s capnp.Send) (*capnp.Answer, capnp.ReleaseFunc) {
	call := s.Method.InterfaceID
	h.enter()
	h.Log.Add(Event{Kind: "send-start", Hook: h.ID, Call: call})
	if g := h.gate(call); g != nil {
		<-g
	}
	h.Log.Add(Event{Kind: "send-end", Hook: h.ID, Call: call})
	h.leave()
	return capnp.ErrorAnswer(s.Method, fmt.Errorf("hook %d call %d: %w", h.ID, call, ErrHook)), func() {}
}

func (h *Hook) Recv(ctx context.Context, r capnp.Recv) capnp.PipelineCaller {
	call := r.Method.InterfaceID
	h.enter()
	h.Log.Add(Event{Kind: "recv-start", Hook: h.ID, Call: call})
	if g := h.gate(call); g != nil {
		<-g
	}
	h.Log.Add(Event{Kind: "recv-end", Hook: h.ID, Call: call})
	h.leave()
	r.Reject(fmt.Errorf("hook %d call %d: %w", h.ID, call, ErrHook))
	return nil
}

func (h *Hook) enter() {
	h.mu.Lock()
	h.inCalls++
	h.mu.Unlock()
}

func (h *Hook) leave() {
	h.mu.Lock()
	h.inCalls--
	h.mu.Unlock()
}

func (h *Hook) Brand() capnp.Brand { return capnp.Brand{Value: h} }

func (h *Hook) Shutdown() {
	h.mu.Lock()
	h.shutdowns++
	in := h.inCalls
	h.mu.Unlock()
	kind := "shutdown"
	if in > 0 {
		kind = "shutdown-during-call"
	}
	h.Log.Add(Event{Kind: kind, Hook: h.ID})
}

// Shutdowns returns how many times Shutdown ran.
func (h *Hook) Shutdowns() int {
	h.mu.Lock()
	defer h.mu.Unlock()
	return h.shutdowns
}

// NullReturner is a Returner for RecvCall that records the outcome.
type NullReturner struct {
	mu   sync.Mutex
	Done bool
	Err  error
	N    int
}

func (r *NullReturner) AllocResults(sz capnp.ObjectSize) (capnp.Struct, error) {
	_, seg, err := capnp.NewMessage(capnp.SingleSegment(nil))
	if err != nil {
		return capnp.Struct{}, err
	}
	return capnp.NewRootStruct(seg, sz)
}

func (r *NullReturner) Return(e error) {
	r.mu.Lock()
	r.Done, r.Err = true, e
	r.N++
	r.mu.Unlock()
}

func (r *NullReturner) Result() (done bool, err error, n int) {
	r.mu.Lock()
	defer r.mu.Unlock()
	return r.Done, r.Err, r.N
}

// Caller is an instrumented PipelineCaller.
type Caller struct {
	ID  int
	Log *Log

	mu    sync.Mutex
	gates map[uint64]chan struct{}
}

func NewCaller(id int, log *Log) *Caller {
	return &Caller{ID: id, Log: log, gates: map[uint64]chan struct{}{}}
}

func (c *Caller) Hold(call uint64) {
	c.mu.Lock()
	c.gates[call] = make(chan struct{})
	c.mu.Unlock()
}

func (c *Caller) Open(call uint64) {
	c.mu.Lock()
	g := c.gates[call]
	delete(c.gates, call)
	c.mu.Unlock()
	if g != nil {
		close(g)
	}
}

func (c *Caller) gate(call uint64) chan struct{} {
	c.mu.Lock()
	defer c.mu.Unlock()
	return c.gates[call]
}

func xformKey(t []capnp.PipelineOp) uint64 {
	k := uint64(len(t))
	for _, op := range t {
		k = k*65537 + uint64(op.Field) + 1
	}
	return k
}

func (c *Caller) PipelineSend(ctx context.Context, transform []capnp.PipelineOp, s capnp.Send) (*capnp.Answer, capnp.ReleaseFunc) {
	call := s.Method.InterfaceID
	c.Log.Add(Event{Kind: "pipe-start", Hook: c.ID, Call: call, H: int(xformKey(transform))})
	if g := c.gate(call); g != nil {
		<-g
	}
	c.Log.Add(Event{Kind: "pipe-end", Hook: c.ID, Call: call})
	return capnp.ErrorAnswer(s.Method, fmt.Errorf("caller %d call %d: capsim: pipelined call result", c.ID, call)), func() {}
}

func (c *Caller) PipelineRecv(ctx context.Context, transform []capnp.PipelineOp, r capnp.Recv) capnp.PipelineCaller {
	call := r.Method.InterfaceID
	c.Log.Add(Event{Kind: "pipe-start", Hook: c.ID, Call: call, H: int(xformKey(transform))})
	if g := c.gate(call); g != nil {
		<-g
	}
	c.Log.Add(Event{Kind: "pipe-end", Hook: c.ID, Call: call})
	r.Reject(fmt.Errorf("caller %d call %d: capsim: pipelined call result", c.ID, call))
	return nil
}

// XformKey exposes the transform hash used in pipe-start events.
func XformKey(t []capnp.PipelineOp) int { return int(xformKey(t)) }
