// Package capsim holds instrumented capability hooks.
package capsim

import (
	"context"
	"errors"
	"sync/atomic"

	capnp "capnproto.org/go/capnp/v3"
)

// CountingHook is the simplest ClientHook: every call fails, Shutdown is counted.
type CountingHook struct {
	Name      string
	Shutdowns int32
}

var errCounting = errors.New("capsim: counting hook does not implement calls")

func (h *CountingHook) Send(ctx context.Context, s capnp.Send) (*capnp.Answer, capnp.ReleaseFunc) {
	return capnp.ErrorAnswer(s.Method, errCounting), func() {}
}

func (h *CountingHook) Recv(ctx context.Context, r capnp.Recv) capnp.PipelineCaller {
	r.Reject(errCounting)
	return nil
}

func (h *CountingHook) Brand() capnp.Brand { return capnp.Brand{Value: h} }

func (h *CountingHook) Shutdown() { atomic.AddInt32(&h.Shutdowns, 1) }

func (h *CountingHook) Count() int { return int(atomic.LoadInt32(&h.Shutdowns)) }
