package c11

import (
	"context"
	"errors"
	"fmt"
	"os"
	"runtime"
	"strings"
	"sync"
	"sync/atomic"
	"testing"
	"time"

	capnp "capnproto.org/go/capnp/v3"
	"capnproto.org/go/capnp/v3/verifharness/capsim"
	"capnproto.org/go/capnp/v3/verifharness/pbt"
	"pgregory.net/rapid"
)

func TestProp(t *testing.T)   { pbt.RunProps(t) }
func TestReplay(t *testing.T) { pbt.RunReplay(t) }

var deadline = func() time.Duration {
	if os.Getenv("VERIF_FAST_DEADLINE") != "" {
		return 2 * time.Second
	}
	return 30 * time.Second
}()

// pointer paths into a result: {0}=cap A, {1,0}=cap B, {257}=cap C, {2}=null, {1}=a struct (not a capability), {1,5}=missing field
var paths = [][]uint16{{0}, {1, 0}, {257}, {2}, {1}, {1, 5}}

const (
	tA = iota
	tB
	tC
	tNull
	tNotCap
	tMissing
)

func xform(pi int) []capnp.PipelineOp {
	var t []capnp.PipelineOp
	for _, f := range paths[pi] {
		t = append(t, capnp.PipelineOp{Field: f})
	}
	return t
}

type Op struct {
	K string `json:"k"`
	A int    `json:"a,omitempty"`
	B int    `json:"b,omitempty"`
	C int    `json:"c,omitempty"`
}

type Case struct {
	Ops []Op `json:"ops"`
}

// ---- model ------------------------------------------------------------------------

type mresult struct {
	msg   *capnp.Message
	hooks [3]*capsim.Hook
	root  capnp.Ptr
	reset bool
}

type mproxy struct {
	path   int
	c      *capnp.Client
	target *capsim.Hook // set at resolution for paths A/B/C
}

type mprom struct {
	id          int
	p           *capnp.Promise
	caller      *capsim.Caller
	state       int // 0 unresolved 1 resolved 2 joined
	next        *mprom
	res         *mresult
	rejected    bool
	open        int // held calls inside its caller
	proxies     map[int]*mproxy
	refs        int           // clientsRefs
	released    bool          // ReleaseClients already called on this promise
	gone        bool          // the proxies of this (root) promise were released
	pendingKids int           // promises whose Join onto this one is waiting for their own calls: Join keeps this promise locked meanwhile
	joinParent  *mprom        // set while this promise's Join is pending
	waitsFor    *mprom        // set while this promise's Join waits for that promise's pending Fulfill/Reject to complete
	pendingOp   chan struct{} // done channel of the pending Fulfill/Reject/Join
	pending     bool          // Fulfill/Reject/Join was issued while calls are held in the pipeline caller: it completes when they finish
}

func root(p *mprom) *mprom {
	for p.state == 2 {
		p = p.next
	}
	return p
}

// pendingChain reports whether an operation on p would wait for a pending Fulfill/Reject/Join somewhere on its chain.
func pendingChain(p *mprom) bool {
	for {
		if p.pending || p.pendingKids > 0 {
			return true
		}
		if p.state != 2 {
			return false
		}
		p = p.next
	}
}

type mclient struct {
	c       *capnp.Client
	prom    *mprom // promise it was created on (proxy) - nil for clients obtained after resolution
	path    int
	proxy   *mproxy
	res     *mresult // for clients obtained after resolution
	rejProm *mprom
}

type mcall struct {
	id        uint64
	held      bool
	open      bool
	caller    *capsim.Caller // expected pipeline caller (nil: expected at a capability or error)
	prom      *mprom
	path      int
	hook      *capsim.Hook // expected capability
	wantErr   string       // expected error substring when neither caller nor hook
	done      chan struct{}
	err       error
	recv      *capsim.NullReturner
	cancelled bool // made with a context that is already done: it may be refused with the context's error instead
}

type waiter struct {
	prom *mprom
	path int
	done chan struct{}
	s    capnp.Struct
	err  error
}

type pending struct {
	what string
	done chan struct{}
	pv   *interface{}
}

type machine struct {
	log                    *capsim.Log
	proms                  []*mprom
	clients                []*mclient
	calls                  []*mcall
	waiters                []*waiter
	results                []*mresult
	pend                   []pending
	probe                  bool // run the excluded history on purpose
	excluded               int
	late                   []*mcall // calls issued while a resolution was pending: they complete after it
	nhooks                 int
	pipelinedBeforeResolve bool
	repeatedClient         bool
	joins                  int
	cancelledCalls         int
	joinsOntoPending       int
	joinsOntoPendingJoin   int
	cancelledLate          int
}

var yieldTarget atomic.Value

func armYield(ch chan struct{}) { yieldTarget.Store(ch) }

// perturb, when set, makes the yield hook inject Gosched calls (concurrent variants)
var perturb atomic.Value // *perturbation

type perturbation struct {
	script []int
	pos    int32
}

func setPerturb(script []int) {
	if len(script) == 0 {
		perturb.Store((*perturbation)(nil))
		return
	}
	perturb.Store(&perturbation{script: script})
}

func init() {
	armYield(nil)
	setPerturb(nil)
	// installed once: the hook variable itself is never written again (the library reads it without synchronisation)
	capnp.VerifYield = func(site string) {
		if ch, _ := yieldTarget.Load().(chan struct{}); ch != nil {
			select {
			case ch <- struct{}{}:
			default:
			}
		}
		if p, _ := perturb.Load().(*perturbation); p != nil {
			for i, k := 0, p.script[int(atomic.AddInt32(&p.pos, 1))%len(p.script)]; i < k; i++ {
				runtime.Gosched()
			}
		}
	}
}

func pick[T any](s []T, i int) (T, bool) {
	var zero T
	if len(s) == 0 {
		return zero, false
	}
	if i < 0 {
		i = -i
	}
	return s[i%len(s)], true
}

func (m *machine) runOp(what string, blocking bool, f func()) error {
	done := make(chan struct{})
	var pv interface{}
	go func() {
		defer close(done)
		defer func() { pv = recover() }()
		f()
	}()
	if blocking {
		m.pend = append(m.pend, pending{what, done, &pv})
		// give the operation a chance to reach its blocking point (it waits for held calls; nothing the script does next depends on how far it got, except through states the model treats as "pending")
		for i := 0; i < 50; i++ {
			runtime.Gosched()
		}
		time.Sleep(200 * time.Microsecond)
		return nil
	}
	select {
	case <-done:
		if pv != nil {
			return pbt.Fail("panic/"+what, "%s panicked: %v", what, pv)
		}
		return nil
	case <-time.After(deadline):
		if err := m.pendingPanic(); err != nil {
			return err
		}
		return pbt.Fail("hang/"+what, "%s did not return (no pipelined call was in progress on the promise)\n%s", what, pbt.Stacks("capnp/v3."))
	}
}

func (m *machine) newResult() *mresult {
	msg, seg, _ := capnp.NewMessage(capnp.SingleSegment(nil))
	r := &mresult{msg: msg}
	for i := range r.hooks {
		r.hooks[i] = capsim.NewHook(1000+m.nhooks, m.log)
		m.nhooks++
		msg.AddCap(capnp.NewClient(r.hooks[i]))
	}
	root, _ := capnp.NewRootStruct(seg, capnp.ObjectSize{PointerCount: 258})
	inner, _ := capnp.NewStruct(seg, capnp.ObjectSize{DataSize: 8, PointerCount: 1})
	root.SetPtr(0, capnp.NewInterface(seg, 0).ToPtr())
	inner.SetPtr(0, capnp.NewInterface(seg, 1).ToPtr())
	root.SetPtr(1, inner.ToPtr())
	root.SetPtr(257, capnp.NewInterface(seg, 2).ToPtr())
	r.root = root.ToPtr()
	m.results = append(m.results, r)
	return r
}

// expectation for a call/transform on a resolved promise
func (m *machine) resolvedTarget(r *mprom, path int) (*capsim.Hook, string) {
	if r.rejected {
		return nil, fmt.Sprintf("rejected-%d", r.id)
	}
	switch path {
	case tA, tB, tC:
		return r.res.hooks[path], ""
	case tNotCap:
		return nil, "not a capability"
	default:
		return nil, "null client"
	}
}

func (m *machine) startCall(c *mcall, f func()) error {
	m.calls = append(m.calls, c)
	blocking := c.held
	go func() {
		defer close(c.done)
		f()
	}()
	if !blocking {
		select {
		case <-c.done:
		case <-time.After(deadline):
			return pbt.Fail("hang/call", "call %d did not complete", c.id)
		}
		return m.checkCall(c)
	}
	// wait until the call is inside its (expected) destination
	t0 := time.Now()
	for !m.entered(c.id) {
		select {
		case <-c.done:
			return pbt.Fail("held-call-returned-early", "call %d returned without entering its destination", c.id)
		default:
		}
		if time.Since(t0) > deadline {
			return pbt.Fail("hang/call-delivery", "call %d never reached its destination", c.id)
		}
		time.Sleep(50 * time.Microsecond)
	}
	return nil
}

// pendingPanic reports a panic inside an operation that ran on its own goroutine.
func (m *machine) pendingPanic() error {
	for _, p := range m.pend {
		select {
		case <-p.done:
			if *p.pv != nil {
				return pbt.Fail("panic/"+p.what, "%s panicked: %v", p.what, *p.pv)
			}
		default:
		}
	}
	return nil
}

// startLate starts a call that is expected to wait for a pending resolution; it is verified during wind-down.
func (m *machine) startLate(c *mcall, f func()) error {
	m.calls = append(m.calls, c)
	m.late = append(m.late, c)
	go func() {
		defer close(c.done)
		f()
	}()
	for i := 0; i < 20; i++ {
		runtime.Gosched()
	}
	return nil
}

func (m *machine) entered(id uint64) bool {
	for _, e := range m.log.Snapshot() {
		if e.Call == id && (e.Kind == "pipe-start" || e.Kind == "send-start" || e.Kind == "recv-start") {
			return true
		}
	}
	return false
}

func (m *machine) checkCall(c *mcall) error {
	var pipes, caps []capsim.Event
	for _, e := range m.log.Snapshot() {
		if e.Call != c.id {
			continue
		}
		switch e.Kind {
		case "pipe-start":
			pipes = append(pipes, e)
		case "send-start", "recv-start":
			caps = append(caps, e)
		}
	}
	err := c.err
	if c.recv != nil {
		done, e, n := c.recv.Result()
		if !done || n != 1 {
			return pbt.Fail("recv-not-returned", "pipelined RecvCall %d: Returner.Return called %d times", c.id, n)
		}
		err = e
	}
	es := fmt.Sprint(err)
	if c.cancelled && len(pipes) == 0 && len(caps) == 0 && err != nil && strings.Contains(es, "context canceled") {
		return nil // refused because its context was done: delivered nowhere, failed with that error
	}
	switch {
	case c.caller != nil:
		if len(pipes) != 1 || len(caps) != 0 || pipes[0].Hook != c.caller.ID {
			return pbt.Fail("pipelined-call-misdelivered", "call %d made before resolution: %d deliveries to pipeline callers %v, %d to capabilities; expected exactly one to caller %d", c.id, len(pipes), pipes, len(caps), c.caller.ID)
		}
		if pipes[0].H != capsim.XformKey(xform(c.path)) {
			return pbt.Fail("pipelined-call-wrong-transform", "call %d reached the pipeline caller with another transform than %v", c.id, paths[c.path])
		}
		if !strings.Contains(es, fmt.Sprintf("caller %d call %d:", c.caller.ID, c.id)) {
			return pbt.Fail("pipelined-call-result", "call %d: result %q is not the pipeline caller's answer", c.id, es)
		}
	case c.hook != nil:
		if len(pipes) != 0 || len(caps) != 1 || caps[0].Hook != c.hook.ID {
			return pbt.Fail("resolved-call-misdelivered", "call %d made after resolution (path %v): deliveries pipeline=%v capability=%v; expected exactly one to hook %d", c.id, paths[c.path], pipes, caps, c.hook.ID)
		}
		if !strings.Contains(es, fmt.Sprintf("hook %d call %d:", c.hook.ID, c.id)) {
			return pbt.Fail("resolved-call-result", "call %d: result %q is not the answer of hook %d", c.id, es, c.hook.ID)
		}
	default:
		if len(pipes) != 0 || len(caps) != 0 {
			return pbt.Fail("error-call-delivered", "call %d should fail (%s) but was delivered: pipeline=%v capability=%v", c.id, c.wantErr, pipes, caps)
		}
		if err == nil || !strings.Contains(es, c.wantErr) {
			return pbt.Fail("error-call-result", "call %d: want an error containing %q, got %v", c.id, c.wantErr, err)
		}
	}
	return nil
}

// checkLate: a call that had to wait for a pending resolution races with whatever the script did next, so its
// destination is not predicted; it must still have exactly one outcome, consistent with where it was delivered.
func (m *machine) checkLate(c *mcall) error {
	var pipes, caps []capsim.Event
	for _, e := range m.log.Snapshot() {
		if e.Call != c.id {
			continue
		}
		switch e.Kind {
		case "pipe-start":
			pipes = append(pipes, e)
		case "send-start", "recv-start":
			caps = append(caps, e)
		}
	}
	err := c.err
	if c.recv != nil {
		done, e, n := c.recv.Result()
		if !done || n != 1 {
			return pbt.Fail("recv-not-returned", "pipelined RecvCall %d: Returner.Return called %d times", c.id, n)
		}
		err = e
	}
	es := fmt.Sprint(err)
	switch {
	case len(pipes)+len(caps) > 1:
		return pbt.Fail("call-delivered-twice", "call %d was delivered %d times (pipeline %v, capability %v)", c.id, len(pipes)+len(caps), pipes, caps)
	case len(pipes) == 1:
		if !strings.Contains(es, fmt.Sprintf("caller %d call %d:", pipes[0].Hook, c.id)) {
			return pbt.Fail("pipelined-call-result", "call %d was delivered to caller %d but its result is %q", c.id, pipes[0].Hook, es)
		}
	case len(caps) == 1:
		if !strings.Contains(es, fmt.Sprintf("hook %d call %d:", caps[0].Hook, c.id)) {
			return pbt.Fail("resolved-call-result", "call %d was delivered to hook %d but its result is %q", c.id, caps[0].Hook, es)
		}
	default:
		if err == nil || strings.Contains(es, "capsim:") {
			return pbt.Fail("error-call-result", "call %d was delivered nowhere but did not fail (%v)", c.id, err)
		}
		if c.cancelled && strings.Contains(es, "context canceled") {
			return nil // given up while it waited
		}
		// delivered nowhere: only legitimate if the answer was rejected, or the transform does not lead to a capability
		if c.path <= tC && !strings.Contains(es, "rejected-") {
			return pbt.Fail("late-call-lost", "call %d (path %v leads to a capability in every fulfilled result) issued while a Fulfill/Reject/Join was pending was delivered nowhere and failed with %q", c.id, paths[c.path], es)
		}
	}
	return nil
}

// expectCall fills in where a call issued now on promise p (transform path) must go.
func (m *machine) expectCall(c *mcall, p *mprom, path int) {
	r := root(p)
	c.prom, c.path = r, path
	if r.state == 0 {
		c.caller = r.caller
		m.pipelinedBeforeResolve = true
		return
	}
	c.hook, c.wantErr = m.resolvedTarget(r, path)
}

func (m *machine) exec(op Op) error {
	ctx := context.Background()
	switch op.K {
	case "new":
		p := &mprom{id: len(m.proms), proxies: map[int]*mproxy{}, refs: 1}
		p.caller = capsim.NewCaller(p.id, m.log)
		p.p = capnp.NewPromise(capnp.Method{InterfaceID: 77}, p.caller)
		m.proms = append(m.proms, p)
	case "pipeSend", "pipeRecv":
		p, ok := pick(m.proms, op.A)
		if !ok {
			return nil
		}
		path := op.B % len(paths)
		c := &mcall{id: uint64(len(m.calls) + 1), done: make(chan struct{})}
		m.expectCall(c, p, path)
		late := pendingChain(p)
		c.held = !late && op.C%3 == 0 && (c.caller != nil || c.hook != nil)
		if c.held {
			c.open = true
			if c.caller != nil {
				c.caller.Hold(c.id)
				c.prom.open++
			} else {
				c.hook.Hold(c.id)
			}
		}
		meth := capnp.Method{InterfaceID: c.id}
		ans := p.p.Answer()
		start := m.startCall
		if late {
			start = m.startLate
		}
		if !late && !c.held && op.C%7 == 5 {
			// the caller gave up before making the call
			c.cancelled = true
			m.cancelledCalls++
			cctx, cancel := context.WithCancel(ctx)
			cancel()
			ctx = cctx
		}
		var giveUp context.CancelFunc
		if late && op.C%7 == 5 {
			// the caller gives up while the call waits for the pending Fulfill/Reject/Join
			c.cancelled = true
			m.cancelledLate++
			ctx, giveUp = context.WithCancel(ctx)
		}
		err := start(c, func() {
			if op.K == "pipeSend" {
				a, rel := ans.PipelineSend(ctx, xform(path), capnp.Send{Method: meth})
				_, c.err = a.Struct()
				rel()
			} else {
				c.recv = &capsim.NullReturner{}
				ans.PipelineRecv(ctx, xform(path), capnp.Recv{Method: meth, ReleaseArgs: func() {}, Returner: c.recv})
			}
		})
		if giveUp != nil {
			giveUp()
		}
		return err
	case "client":
		p, ok := pick(m.proms, op.A)
		if !ok {
			return nil
		}
		path := op.B % len(paths)
		r := root(p)
		if pendingChain(p) {
			return nil // Client() waits for the pending resolution / join
		}
		fut := p.p.Answer().Future()
		for _, f := range paths[path] {
			fut = fut.Field(f, nil)
		}
		var c *capnp.Client
		if err := m.runOp("Future.Client", false, func() { c = fut.Client() }); err != nil {
			return err
		}
		mc := &mclient{c: c, path: path}
		if r.state == 0 {
			if r.gone {
				return nil
			}
			px := r.proxies[path]
			if px == nil {
				px = &mproxy{path: path, c: c}
				r.proxies[path] = px
			} else {
				m.repeatedClient = true
				if px.c != c {
					return pbt.Fail("client-not-shared", "asking twice for the pipelined client at path %v returned two different clients", paths[path])
				}
			}
			mc.prom, mc.proxy = r, px
		} else if r.rejected {
			mc.rejProm = r
		} else {
			mc.res = r.res
		}
		m.clients = append(m.clients, mc)
	case "callClient":
		mc, ok := pick(m.clients, op.A)
		if !ok {
			return nil
		}
		c := &mcall{id: uint64(len(m.calls) + 1), done: make(chan struct{}), path: mc.path}
		switch {
		case mc.proxy != nil:
			r := root(mc.prom)
			if r.gone {
				return nil // the proxy was released by ReleaseClients: using it is a programmer error
			}
			m.expectCall(c, mc.prom, mc.path)
		case mc.rejProm != nil:
			c.wantErr = fmt.Sprintf("rejected-%d", mc.rejProm.id)
		default:
			if mc.res.reset {
				return nil
			}
			switch mc.path {
			case tA, tB, tC:
				c.hook = mc.res.hooks[mc.path]
			case tNotCap:
				c.wantErr = "not a capability"
			default:
				c.wantErr = "null client"
			}
		}
		late := mc.proxy != nil && pendingChain(mc.prom)
		c.held = !late && op.C%3 == 0 && (c.caller != nil || c.hook != nil)
		if c.held {
			c.open = true
			if c.caller != nil {
				c.caller.Hold(c.id)
				c.prom.open++
			} else {
				c.hook.Hold(c.id)
			}
		}
		meth := capnp.Method{InterfaceID: c.id}
		start := m.startCall
		if late {
			start = m.startLate
		}
		return start(c, func() {
			a, rel := mc.c.SendCall(ctx, capnp.Send{Method: meth})
			_, c.err = a.Struct()
			rel()
		})
	case "finish":
		var open []*mcall
		for _, c := range m.calls {
			if c.open {
				open = append(open, c)
			}
		}
		c, ok := pick(open, op.A)
		if !ok {
			return nil
		}
		if c.caller != nil && c.prom.pendingKids > 0 {
			return nil // a pending Join onto this promise keeps it locked until the joining promise's own calls have returned
		}
		return m.finish(c)
	case "fulfill", "reject":
		p, ok := pick(m.proms, op.A)
		if !ok || p.state != 0 || pendingChain(p) {
			return nil
		}
		blocking := p.open > 0
		p.pending = blocking
		m.resolveModel(p, op.K == "reject", nil)
		var err error
		if op.K == "reject" {
			err = m.runOp("Promise.Reject", blocking, func() { p.p.Reject(fmt.Errorf("rejected-%d", p.id)) })
		} else {
			res := p.res
			err = m.runOp("Promise.Fulfill", blocking, func() { p.p.Fulfill(res.root) })
		}
		if blocking && err == nil {
			p.pendingOp = m.pend[len(m.pend)-1].done
		}
		return err
	case "join":
		p, ok := pick(m.proms, op.A)
		if !ok || p.state != 0 || pendingChain(p) {
			return nil
		}
		q, ok := pick(m.proms, op.B)
		if !ok || root(q) == p || q == p {
			return nil
		}
		blocking := p.open > 0
		r := root(q)
		var waitFor *mprom
		if pendingChain(q) {
			// Join waits for the other promise to leave its pending state.  Modelled for the plain case: the chain's
			// root sits in a Fulfill/Reject that waits for its held calls, nothing else on the chain is pending, and
			// p itself has no held calls: p's Join returns once that resolution is through, with the same outcome.
			plain := r.pending && r.state == 1 && r.pendingKids == 0 && r.waitsFor == nil && p.open == 0 && p.pendingKids == 0
			for x := q; x != r; x = x.next {
				if x.pending || x.pendingKids > 0 {
					plain = false
				}
			}
			// Second modelled case: q's own Join (onto r, still unresolved) is waiting for q's held calls; p's Join
			// waits for that to finish and then joins the same root.
			pendingJoin := !plain && q.pending && q.state == 2 && q.joinParent == r && q.next == r && r.state == 0 && !r.pending && r.waitsFor == nil && q.waitsFor == nil && p.open == 0 && p.pendingKids == 0
			if pendingJoin {
				waitFor = q
				m.joinsOntoPendingJoin++
			}
			if !plain && !pendingJoin {
				return nil
			}
		}
		if pendingChain(q) && waitFor == nil {
			m.joins++
			m.joinsOntoPending++
			m.resolveModel(p, r.rejected, r)
			p.pending, p.waitsFor = true, r
			ans := q.p.Answer()
			err := m.runOp("Promise.Join", true, func() { p.p.Join(ans) })
			if err == nil {
				p.pendingOp = m.pend[len(m.pend)-1].done
			}
			return err
		}
		p.pending = blocking
		if blocking && r.state != 1 {
			p.joinParent = r
			r.pendingKids++
		}
		if waitFor != nil {
			p.pending, p.waitsFor, blocking = true, waitFor, true
		}
		m.joins++
		if r.state == 1 {
			// joining an already resolved answer resolves p with the same outcome
			m.resolveModel(p, r.rejected, r)
		} else {
			p.state, p.next = 2, r
			for path, px := range p.proxies {
				if r.proxies[path] == nil {
					r.proxies[path] = px
				} else {
					// both promises handed out a proxy for this path: both must follow the resolution
					r.proxies[path+100*(p.id+1)] = px
				}
			}
			p.proxies = map[int]*mproxy{}
			r.refs += p.refs
			p.refs = 0
			// calls held in p's caller keep running there; new calls go to r
		}
		ans := q.p.Answer()
		err := m.runOp("Promise.Join", blocking, func() { p.p.Join(ans) })
		if blocking && err == nil {
			p.pendingOp = m.pend[len(m.pend)-1].done
		}
		return err
	case "releaseClients":
		p, ok := pick(m.proms, op.A)
		if !ok {
			return nil
		}
		r := root(p)
		if r.state != 1 || pendingChain(p) {
			return nil // would wait for resolution
		}
		if !p.released {
			p.released = true
			r.refs--
			if r.refs == 0 {
				r.gone = true
			}
		}
		return m.runOp("Promise.ReleaseClients", r.open > 0, func() { p.p.ReleaseClients() })
	case "wait":
		p, ok := pick(m.proms, op.A)
		if !ok {
			return nil
		}
		path := op.B % len(paths)
		w := &waiter{prom: p, path: path, done: make(chan struct{})}
		fut := p.p.Answer().Future()
		for _, f := range paths[path][:len(paths[path])-1] {
			fut = fut.Field(f, nil)
		}
		m.waiters = append(m.waiters, w)
		go func() {
			defer close(w.done)
			w.s, w.err = fut.Struct()
		}()
	}
	return nil
}

// resolveModel moves p to the resolved state (like: the outcome of `like` if given).
func (m *machine) resolveModel(p *mprom, reject bool, like *mprom) {
	p.state = 1
	switch {
	case like != nil:
		p.rejected, p.res = like.rejected, like.res
		if like.rejected {
			p.id = like.id // error text carries the id of the originally rejected promise
		}
	case reject:
		p.rejected = true
	default:
		p.res = m.newResult()
	}
	for _, px := range p.proxies {
		if !p.rejected && px.path%100 <= tC {
			px.target = p.res.hooks[px.path%100]
		}
	}
}

// drainLate waits for the calls that were waiting for a pending Fulfill/Reject/Join which is now through: they run on
// their own goroutines, and the script must not go on (e.g. release the clients they use) before they have been made.
func (m *machine) drainLate() error {
	for _, c := range m.late {
		if c.prom == nil || pendingChain(c.prom) {
			continue
		}
		select {
		case <-c.done:
		case <-time.After(deadline):
			return pbt.Fail("hang/late-call", "call %d, issued while a resolution was pending, did not complete although that resolution is through\n%s", c.id, pbt.Stacks("capnp/v3."))
		}
	}
	return nil
}

func (m *machine) finish(c *mcall) error {
	c.open = false
	if c.caller != nil {
		c.caller.Open(c.id)
	} else {
		c.hook.Open(c.id)
	}
	select {
	case <-c.done:
	case <-time.After(deadline):
		return pbt.Fail("hang/call", "call %d did not return after its destination finished it\n%s", c.id, pbt.Stacks("capnp/v3."))
	}
	if c.caller != nil {
		c.prom.open--
		if c.prom.open == 0 {
			if c.prom.pendingOp != nil {
				// the resolution that was waiting for this call must now run to completion before the script goes on
				select {
				case <-c.prom.pendingOp:
				case <-time.After(deadline):
					return pbt.Fail("hang/pending-resolution", "the Fulfill/Reject/Join that was waiting for the pipelined calls of promise %d did not complete after they returned\n%s", c.prom.id, pbt.Stacks("capnp/v3."))
				}
				c.prom.pendingOp = nil
			}
			c.prom.pending = false
			if jp := c.prom.joinParent; jp != nil {
				jp.pendingKids--
				c.prom.joinParent = nil
			}
			// Joins that were waiting for this resolution complete with it
			for changed := true; changed; {
				changed = false
				for _, y := range m.proms {
					if y.waitsFor == nil || y.waitsFor.pending {
						continue
					}
					select {
					case <-y.pendingOp:
					case <-time.After(deadline):
						return pbt.Fail("hang/join-onto-pending", "promise %d was joined to promise %d while that one was waiting in its Fulfill/Reject; the resolution is through but the Join did not return\n%s", y.id, y.waitsFor.id, pbt.Stacks("capnp/v3."))
					}
					y.pending, y.pendingOp, y.waitsFor = false, nil, nil
					changed = true
				}
			}
		}
	}
	if err := m.drainLate(); err != nil {
		return err
	}
	return m.checkCall(c)
}

func run(c Case) (pbt.Result, error) {
	var res pbt.Result
	m := &machine{log: &capsim.Log{}}
	for _, op := range c.Ops {
		if err := m.exec(op); err != nil {
			if pe := m.pendingPanic(); pe != nil {
				return res, pe
			}
			return res, err
		}
		if pe := m.pendingPanic(); pe != nil {
			return res, pe
		}
	}
	// wind down: finish calls, reject what is unresolved, wait for pending ops and waiters
	for progress := true; progress; {
		progress = false
		for _, cl := range m.calls {
			if cl.open && !(cl.caller != nil && cl.prom.pendingKids > 0) {
				if err := m.finish(cl); err != nil {
					return res, err
				}
				progress = true
			}
		}
	}
	for i, p := range m.proms {
		if p.state == 0 {
			if err := m.exec(Op{K: "reject", A: i}); err != nil {
				return res, err
			}
		}
	}
	for _, p := range m.pend {
		select {
		case <-p.done:
		case <-time.After(deadline):
			return res, pbt.Fail("hang/"+p.what, "%s never returned although every pipelined call has finished", p.what)
		}
	}
	for _, c := range m.late {
		select {
		case <-c.done:
		case <-time.After(deadline):
			return res, pbt.Fail("hang/late-call", "call %d issued while a resolution was pending never completed", c.id)
		}
		if err := m.checkLate(c); err != nil {
			return res, err
		}
	}
	for _, w := range m.waiters {
		select {
		case <-w.done:
		case <-time.After(deadline):
			return res, pbt.Fail("hang/waiter", "Future.Struct() waiter was not released although the promise resolved")
		}
		r := root(w.prom)
		if r.rejected {
			if w.err == nil || !strings.Contains(w.err.Error(), "rejected-") {
				return res, pbt.Fail("waiter-result", "waiter on a rejected promise got err=%v", w.err)
			}
		} else if len(paths[w.path]) == 1 && (w.err != nil || !w.s.IsValid()) {
			return res, pbt.Fail("waiter-result", "waiter on a fulfilled promise got (valid=%v, err=%v)", w.s.IsValid(), w.err)
		}
	}
	for _, p := range m.proms {
		select {
		case <-p.p.Answer().Done():
		default:
			return res, pbt.Fail("done-not-closed", "promise %d resolved but Done() is not closed", p.id)
		}
	}
	// proxies handed out before resolution hold a reference on the resolved capability until ReleaseClients
	for _, r := range m.results {
		r.reset = true
		r.msg.Reset(capnp.SingleSegment(nil))
	}
	for i := 0; i < 3; i++ {
		runtime.Gosched()
	}
	holds := map[*capsim.Hook]bool{}
	for _, p := range m.proms {
		if p.state == 1 && !p.gone {
			for _, px := range p.proxies {
				if px.target != nil {
					holds[px.target] = true
				}
			}
		}
	}
	for _, r := range m.results {
		for _, h := range r.hooks {
			n := h.Shutdowns()
			if holds[h] && n != 0 {
				return res, pbt.Fail("proxy-does-not-hold-capability", "hook %d was shut down although a pipelined client handed out before resolution still refers to it and ReleaseClients has not run", h.ID)
			}
			if !holds[h] && n != 1 {
				return res, pbt.Fail("capability-leaked-or-double-shutdown", "hook %d: %d shutdowns after the result message was reset (no pipelined client refers to it)", h.ID, n)
			}
		}
	}
	for i := range m.proms {
		if err := m.exec(Op{K: "releaseClients", A: i}); err != nil {
			return res, err
		}
	}
	for _, p := range m.pend {
		select {
		case <-p.done:
		case <-time.After(deadline):
			return res, pbt.Fail("hang/"+p.what, "%s never returned", p.what)
		}
	}
	for _, r := range m.results {
		for _, h := range r.hooks {
			if n := h.Shutdowns(); n != 1 {
				return res, pbt.Fail("final-shutdown-count", "hook %d: %d shutdowns after ReleaseClients on every promise", h.ID, n)
			}
		}
	}
	res.Class("pipelined-before-resolution:%v", m.pipelinedBeforeResolve)
	res.Class("repeated-client:%v", m.repeatedClient)
	res.Class("joins:%d", imin(m.joins, 3))
	res.Count("excluded_known_finding_ops", int64(m.excluded))
	res.Count("calls_with_done_context", int64(m.cancelledCalls))
	res.Count("joins_onto_pending_resolution", int64(m.joinsOntoPending))
	res.Count("joins_onto_pending_join", int64(m.joinsOntoPendingJoin))
	res.Count("calls_cancelled_while_waiting", int64(m.cancelledLate))
	res.Nontrivial = m.pipelinedBeforeResolve || m.repeatedClient
	return res, nil
}

func imin(a, b int) int {
	if a < b {
		return a
	}
	return b
}

var opKinds = []string{"new", "pipeSend", "pipeSend", "pipeRecv", "client", "client", "client", "callClient", "callClient", "finish", "finish", "fulfill", "fulfill", "reject", "join", "join", "releaseClients", "wait"}

var _ = pbt.Register(pbt.Spec[Case]{
	Property: "C11", Name: "sequential-model",
	Rule:  "op scripts (up to 30 ops; 1 in 6 is built around a chain of three promises joined tail first or head first after pipelined clients were handed out, resolved, the three owners releasing in a drawn order with calls in between; Join is also made onto promises whose own Fulfill/Reject or Join is still waiting for held calls) over a pool of promises with instrumented pipeline callers: PipelineSend/PipelineRecv with transforms {[0],[1,0],[257],[2],[1],[1,5]} (calls may be held open inside their destination; 1 in 7 of the others is made with a context that is already cancelled and may then be refused with that error instead of being delivered; calls that have to wait for a pending Fulfill/Reject/Join may be given up while they wait), Future.Client() for the same and for different paths (repeatedly), calls through the returned clients before and after resolution, Fulfill with a 258-pointer result carrying three counted capabilities, Reject, Join (chains, joins of resolved answers), ReleaseClients, Struct() waiters; operations predicted to wait for held calls run on their own goroutine. Model: per promise state/joined-to/outcome, per call its destination. Oracle: every call is delivered exactly once to the predicted destination - the root promise's pipeline caller with the same transform if made before resolution, otherwise the capability found at the transform in the result, or it fails with the rejection / null / not-a-capability error; asking for the same pipelined client twice yields the same client and every later op still returns; Done() closes and every waiter returns with the outcome; clients handed out before resolution keep the resolved capability alive after the result message is reset and are released by ReleaseClients (every capability shut down exactly once). Non-trivial: a pipelined call or a repeated Client() preceded resolution.",
	Quick: 5000, Thorough: 50000,
	Gen: func(t *rapid.T) Case {
		ops := []Op{{K: "new"}}
		random := func() Op {
			return Op{K: rapid.SampledFrom(opKinds).Draw(t, "k"), A: rapid.IntRange(0, 5).Draw(t, "a"), B: rapid.IntRange(0, 5).Draw(t, "b"), C: rapid.IntRange(0, 5).Draw(t, "c")}
		}
		if rapid.IntRange(0, 5).Draw(t, "skeleton") == 0 {
			// a chain of three joined promises, built tail first or head first, with pipelined clients handed out before
			// the joins; then resolution, and the owners releasing one after the other with calls in between
			sk := []Op{{K: "new"}, {K: "new"}}
			for i, n := 0, rapid.IntRange(1, 3).Draw(t, "sk-clients"); i < n; i++ {
				sk = append(sk, Op{K: "client", A: rapid.IntRange(0, 2).Draw(t, "sk-cp"), B: rapid.IntRange(0, 2).Draw(t, "sk-cpath")})
			}
			if rapid.Bool().Draw(t, "sk-tailfirst") {
				sk = append(sk, Op{K: "join", A: 2, B: 1}, Op{K: "join", A: 1, B: 0})
			} else {
				sk = append(sk, Op{K: "join", A: 1, B: 0}, Op{K: "join", A: 2, B: 1})
			}
			sk = append(sk, Op{K: rapid.SampledFrom([]string{"fulfill", "fulfill", "reject"}).Draw(t, "sk-res"), A: 0})
			for _, o := range rapid.Permutation([]int{0, 1, 2}).Draw(t, "sk-relorder") {
				sk = append(sk, Op{K: "releaseClients", A: o}, Op{K: "callClient", A: rapid.IntRange(0, 2).Draw(t, "sk-cc"), C: 1})
			}
			for _, o := range sk {
				ops = append(ops, o)
				if rapid.IntRange(0, 2).Draw(t, "sk-gap") == 0 {
					ops = append(ops, random())
				}
			}
			return Case{Ops: ops}
		}
		for i, n := 0, rapid.IntRange(1, 30).Draw(t, "n"); i < n; i++ {
			ops = append(ops, random())
		}
		return Case{Ops: ops}
	},
	Run: run,
})

var _ = errors.New

// ---------------------------------------------------------------------------
// known finding probe: the one history excluded from the random search

type probeCase struct {
	Path int `json:"path"`
}

func runProbe(c probeCase) (pbt.Result, error) {
	var res pbt.Result
	res.Nontrivial = true
	m := &machine{log: &capsim.Log{}, probe: true}
	saved := deadline
	deadline = 3 * time.Second // this history either completes in microseconds or never
	defer func() { deadline = saved }()
	ops := []Op{
		{K: "new"},
		{K: "client", A: 0, B: 0},     // pipelined client X1 (path [0])
		{K: "client", A: 0, B: 1},     // pipelined client X2 (path [1,0])
		{K: "callClient", A: 0, C: 0}, // H1: call through X1, held inside the pipeline caller
		{K: "callClient", A: 1, C: 0}, // H2: call through X2, held inside the pipeline caller
		{K: "fulfill", A: 0},          // resolution starts: fulfils the first client (waits for its held call); the other client is still a promise
		{K: "callClient", A: 0, C: 1}, // L1 and L2 arrive during the pending resolution: the one through the not-yet-fulfilled client waits for the resolution
		{K: "callClient", A: 1, C: 1},
		{K: "finish", A: 0}, // both held calls return
		{K: "finish", A: 0},
	}
	for _, op := range ops {
		if err := m.exec(op); err != nil {
			if v, ok := err.(*pbt.Violation); ok && strings.HasPrefix(v.Sig, "hang/") {
				// in this fixed history any "did not return" is the recorded finding
				return res, pbt.Fail("hang/fulfill-vs-call-through-pipelined-client", "%s", v.Msg)
			}
			return res, err
		}
	}
	for _, p := range m.pend {
		select {
		case <-p.done:
		case <-time.After(deadline):
			return res, pbt.Fail("hang/fulfill-vs-call-through-pipelined-client", "%s never returned: a call made through a pipelined client while its promise was in the pending-resolution state waits for the resolution, and the resolution (ClientPromise.Fulfill of that client) waits for the call\n%s", p.what, pbt.Stacks("capnp/v3."))
		}
	}
	for _, cl := range m.late {
		select {
		case <-cl.done:
		case <-time.After(deadline):
			return res, pbt.Fail("hang/fulfill-vs-call-through-pipelined-client", "late call never completed")
		}
	}
	return res, nil
}

var _ = pbt.Register(pbt.Spec[probeCase]{
	Property: "C11", Name: "pending-resolution-probe",
	Rule:  "fixed history: two pipelined clients X1, X2 of one answer; one call through each held in the pipeline caller; Fulfill (fulfils one client, waiting for its held call, the other is still a promise); a further call through each client during the pending resolution; the held calls return. Oracle: Fulfill and all calls return. Regression history of a repaired defect (calls through a pipelined client during the pending-resolution window deadlocked the resolution).",
	Quick: 1, Thorough: 1,
	Gen:   func(t *rapid.T) probeCase { return probeCase{Path: rapid.IntRange(0, 2).Draw(t, "path")} },
	Run:   runProbe,
	Seeds: []probeCase{{Path: 0}},
})

// ---------------------------------------------------------------------------
// concurrent variant

type concCase struct {
	Callers      int   `json:"callers"` // goroutines issuing pipelined calls / Client() / Struct()
	PerG         int   `json:"per_goroutine"`
	Outcome      int   `json:"outcome"` // 0 fulfill, 1 reject, 2 join an already fulfilled answer, 3 join an unresolved answer that is fulfilled later
	Paths        []int `json:"paths"`
	Perturb      []int `json:"perturb"`
	ResolveAfter int   `json:"resolve_after"` // yields before the resolver acts
}

func runConc(c concCase) (pbt.Result, error) {
	var res pbt.Result
	log := &capsim.Log{}
	m := &machine{log: log}
	setPerturb(c.Perturb)
	defer setPerturb(nil)
	callerP := capsim.NewCaller(0, log)
	callerQ := capsim.NewCaller(1, log)
	p := capnp.NewPromise(capnp.Method{InterfaceID: 1}, callerP)
	q := capnp.NewPromise(capnp.Method{InterfaceID: 2}, callerQ)
	result := m.newResult()
	var callSeq uint64
	type rec struct {
		id   uint64
		path int
		err  error
	}
	recs := make([][]rec, c.Callers)
	start := make(chan struct{})
	done := make(chan struct{})
	var wg sync.WaitGroup
	for g := 0; g < c.Callers; g++ {
		wg.Add(1)
		go func(g int) {
			defer wg.Done()
			<-start
			for i := 0; i < c.PerG; i++ {
				path := c.Paths[(g*c.PerG+i)%len(c.Paths)] % len(paths)
				switch (g + i) % 4 {
				case 0, 1:
					id := atomic.AddUint64(&callSeq, 1)
					a, rel := p.Answer().PipelineSend(context.Background(), xform(path), capnp.Send{Method: capnp.Method{InterfaceID: id}})
					_, err := a.Struct()
					rel()
					recs[g] = append(recs[g], rec{id, path, err})
				case 2:
					fut := p.Answer().Future()
					for _, f := range paths[path] {
						fut = fut.Field(f, nil)
					}
					cl := fut.Client()
					_ = fut.Client() // asking twice is harmless
					// a call through the pipelined client, possibly while the resolver is at work
					id := atomic.AddUint64(&callSeq, 1)
					a, rel := cl.SendCall(context.Background(), capnp.Send{Method: capnp.Method{InterfaceID: id}})
					_, err := a.Struct()
					rel()
					recs[g] = append(recs[g], rec{id, path, err})
				default:
					go func() { _, _ = p.Answer().Struct() }()
				}
			}
		}(g)
	}
	resolver := make(chan struct{})
	go func() {
		defer close(resolver)
		<-start
		for i := 0; i < c.ResolveAfter; i++ {
			runtime.Gosched()
		}
		switch c.Outcome {
		case 0:
			p.Fulfill(result.root)
		case 1:
			p.Reject(errors.New("rejected-0"))
		case 2:
			q.Fulfill(result.root)
			p.Join(q.Answer())
		default:
			p.Join(q.Answer())
			for i := 0; i < c.ResolveAfter; i++ {
				runtime.Gosched()
			}
			q.Fulfill(result.root)
		}
	}()
	close(start)
	go func() { wg.Wait(); <-resolver; close(done) }()
	select {
	case <-done:
	case <-time.After(2 * deadline):
		return res, pbt.Fail("hang/concurrent", "pipelined callers / resolver did not finish\n%s", pbt.Stacks("capnp/v3."))
	}
	select {
	case <-p.Answer().Done():
	case <-time.After(deadline):
		return res, pbt.Fail("done-not-closed", "Done() not closed after resolution")
	}
	// exactly-once delivery, destination consistent with the result
	deliveries := map[uint64][]capsim.Event{}
	for _, e := range log.Snapshot() {
		if e.Kind == "pipe-start" || e.Kind == "send-start" || e.Kind == "recv-start" {
			deliveries[e.Call] = append(deliveries[e.Call], e)
		}
	}
	for g := range recs {
		for _, r := range recs[g] {
			d := deliveries[r.id]
			es := fmt.Sprint(r.err)
			switch {
			case len(d) > 1:
				return res, pbt.Fail("concurrent/call-delivered-twice", "call %d delivered %d times: %v", r.id, len(d), d)
			case len(d) == 1 && d[0].Kind == "pipe-start":
				if !strings.Contains(es, fmt.Sprintf("caller %d call %d:", d[0].Hook, r.id)) {
					return res, pbt.Fail("concurrent/pipelined-call-result", "call %d delivered to caller %d, result %q", r.id, d[0].Hook, es)
				}
			case len(d) == 1:
				want := -1
				if r.path <= tC {
					want = result.hooks[r.path].ID
				}
				if d[0].Hook != want || !strings.Contains(es, fmt.Sprintf("hook %d call %d:", d[0].Hook, r.id)) {
					return res, pbt.Fail("concurrent/resolved-call-misdelivered", "call %d (path %v) delivered to hook %d (want %d), result %q", r.id, paths[r.path], d[0].Hook, want, es)
				}
			default:
				ok := r.err != nil && !strings.Contains(es, "capsim:")
				if ok && c.Outcome != 1 && r.path <= tC {
					ok = false // a fulfilled result has a capability at this path: the call must be delivered somewhere
				}
				if !ok {
					return res, pbt.Fail("concurrent/call-lost", "call %d (path %v, outcome %d) was delivered nowhere, result %v", r.id, paths[r.path], c.Outcome, r.err)
				}
			}
		}
	}
	if c.Outcome <= 1 {
		q.Reject(errors.New("unused")) // q takes no part in these outcomes; resolve it so that ReleaseClients can run
	}
	rc := make(chan struct{})
	go func() { p.ReleaseClients(); q.ReleaseClients(); close(rc) }()
	select {
	case <-rc:
	case <-time.After(deadline):
		return res, pbt.Fail("hang/ReleaseClients", "ReleaseClients did not return\n%s", pbt.Stacks("capnp/v3."))
	}
	result.msg.Reset(capnp.SingleSegment(nil))
	for _, h := range result.hooks {
		t0 := time.Now()
		for h.Shutdowns() == 0 && time.Since(t0) < deadline {
			time.Sleep(100 * time.Microsecond)
		}
		if n := h.Shutdowns(); n != 1 {
			return res, pbt.Fail("concurrent/final-shutdown-count", "hook %d: %d shutdowns after ReleaseClients and message reset", h.ID, n)
		}
	}
	res.Class("outcome:%d", c.Outcome)
	res.Nontrivial = c.Callers >= 2
	return res, nil
}

var _ = pbt.Register(pbt.Spec[concCase]{
	Property: "C11", Name: "concurrent",
	Rule:  "2-5 goroutines issue PipelineSend calls, repeated Future.Client() requests and Struct() waiters on one answer while a resolver goroutine Fulfills / Rejects / Joins it (join of a resolved answer, or of an unresolved one fulfilled later), with Gosched injected at the library's yield points; race detector on. Invariants: every call delivered exactly once - to a pipeline caller, or to the capability at its transform in the result - or fails only when the answer was rejected / the transform has no capability; nothing hangs; Done() closes; after ReleaseClients and message reset every capability is shut down exactly once. Non-trivial: >=2 caller goroutines.",
	Quick: 1500, Thorough: 15000,
	Gen: func(t *rapid.T) concCase {
		return concCase{
			Callers: rapid.IntRange(2, 5).Draw(t, "callers"), PerG: rapid.IntRange(1, 6).Draw(t, "perg"),
			Outcome:      rapid.IntRange(0, 3).Draw(t, "outcome"),
			Paths:        rapid.SliceOfN(rapid.IntRange(0, 5), 1, 6).Draw(t, "paths"),
			Perturb:      rapid.SliceOfN(rapid.IntRange(0, 3), 0, 6).Draw(t, "perturb"),
			ResolveAfter: rapid.IntRange(0, 30).Draw(t, "after"),
		}
	},
	Run: runConc,
})
