package c06

import (
	"testing"

	"capnproto.org/go/capnp/v3/verifharness/pbt"
	"capnproto.org/go/capnp/v3/verifharness/vat"
	"pgregory.net/rapid"
)

func TestProp(t *testing.T)   { pbt.RunProps(t) }
func TestReplay(t *testing.T) { pbt.RunReplay(t) }

// weights: the history vocabulary biased to calls, pipelining, returns at varied times, finishes and embargoes
var kinds = []string{
	"p-boot", "p-boot",
	"p-call", "p-call", "p-call", "p-call",
	"p-pcall", "p-pcall", "p-pcall", "p-pcall",
	"p-finish", "p-finish", "p-finish-in-write",
	"p-release",
	"p-return", "p-return", "p-return",
	"p-forward", "p-forward", "p-echo", "p-disembargo", "p-disembargo",
	"open", "open", "p-pause", "p-wait-impl",
	"a-boot", "a-boot",
	"a-call", "a-call", "a-call",
	"a-pcall", "a-pcall", "a-pcall",
	"a-getcap", "a-getcap",
	"a-cancel", "a-release-client", "a-release-answer",
}

func randStep(t *rapid.T) vat.Step {
	return vat.Step{
		K: rapid.SampledFrom(kinds).Draw(t, "k"),
		A: rapid.IntRange(0, 15).Draw(t, "a"),
		B: rapid.IntRange(0, 127).Draw(t, "b"),
		C: rapid.IntRange(0, 511).Draw(t, "c"),
	}
}

// skeletons that make the rarer protocol situations common; drawn steps are interleaved with them
var skeletons = map[string][]vat.Step{
	// B pipelines on a call whose result turns out to be B's own capability; A forwards the pipelined calls back; B
	// sends Disembargo(senderLoopback) and A echoes it after the forwarded calls
	"peer-embargo": {{K: "p-boot"}, {K: "barrier"}, {K: "p-call", A: 0, B: 0x21, C: 2}, {K: "p-pcall", A: 15}, {K: "p-pcall", A: 14}, {K: "open"}, {K: "barrier"}, {K: "p-pcall", A: 14}, {K: "p-disembargo"}, {K: "p-call", A: 0}},
	// the peer's bootstrap capability turns out to be one of A's own objects after the application already called it
	"embargo-bootstrap": {{K: "p-boot"}, {K: "a-boot"}, {K: "a-call", A: 15}, {K: "a-call", A: 15}, {K: "p-return", C: 5}, {K: "a-call", A: 15}, {K: "p-forward"}, {K: "p-forward"}, {K: "p-echo"}, {K: "a-call", A: 15}},
	// two result pointers of one call, both pipelined on, both resolve to A's own objects
	"embargo-two-paths": {{K: "p-boot"}, {K: "a-boot"}, {K: "p-return", C: 1}, {K: "a-call"}, {K: "a-pcall", A: 15, B: 0}, {K: "a-pcall", A: 15, B: 4}, {K: "p-return", A: 0, B: 1, C: 5 | 5<<3}, {K: "a-getcap", A: 15, B: 1}, {K: "a-call", A: 15}, {K: "p-forward"}, {K: "p-forward"}, {K: "p-echo"}, {K: "p-echo"}},
	// a chain of calls pipelined on held calls
	"pipeline-chain": {{K: "p-boot"}, {K: "p-call", B: 1 | 1<<4}, {K: "p-pcall", A: 15, B: 1 | 1<<4}, {K: "p-pcall", A: 15, B: 1 << 4}, {K: "p-pcall", A: 14, B: 0}, {K: "p-pcall", A: 15, B: 0}, {K: "open"}, {K: "p-call", A: 15}, {K: "open"}},
}

// an answer's queue is replayed while its target is busy with a call it has not acknowledged, and a further call on
// the same pipeline arrives during the replay (no drawn steps in between: the indices matter; always in burst mode)
var busyReplay = []vat.Step{{K: "p-boot"}, {K: "barrier"}, {K: "p-call", A: 0, B: 0x10}, {K: "barrier"}, {K: "a-boot"}, {K: "p-return", A: 0, B: 1, C: 5 | 1<<6}, {K: "barrier"},
	// the application makes a call on that object (its own export, handed back by the peer) which is not acknowledged
	{K: "a-call", A: 0, B: 0, C: 1 | 3<<4},
	// the peer: a held call whose result is that object, two calls pipelined on it, the call returns, a third pipelined
	// call arrives while the first two are being replayed, then the object acknowledges
	// (its results: pointer 0 = the busy object, pointer 1 = a fresh object; the first pipelined call goes to the busy
	// one and holds up the replay, the second and third go to the fresh one)
	{K: "p-call", A: 0, B: 0x63, C: 12}, {K: "p-pcall", A: 2}, {K: "p-pcall", A: 2, C: 24}, {K: "p-sync"}, {K: "open", A: 0}, {K: "p-wait-impl"}, {K: "p-pcall", A: 2, C: 24}, {K: "p-pause", A: 3}, {K: "open", A: 0}}

var shapes = []string{"", "", "", "", "peer-embargo", "embargo-bootstrap", "embargo-bootstrap", "embargo-two-paths", "embargo-two-paths", "pipeline-chain", "pipeline-chain", "busy-replay"}

func genCase(t *rapid.T) vat.Case {
	c := vat.Case{CloseAt: -1, Burst: rapid.Bool().Draw(t, "burst")}
	shape := rapid.SampledFrom(shapes).Draw(t, "shape")
	if shape == "busy-replay" {
		c.Burst = true
		c.Steps = append(c.Steps, busyReplay...)
	} else if shape != "" {
		for _, s := range skeletons[shape] {
			for i, n := 0, rapid.SampledFrom([]int{0, 0, 0, 1, 1, 2}).Draw(t, "fill"); i < n; i++ {
				c.Steps = append(c.Steps, randStep(t))
			}
			c.Steps = append(c.Steps, s)
		}
	} else if rapid.IntRange(0, 9).Draw(t, "prefix") > 1 {
		// most histories start with both sides obtaining the other's bootstrap capability
		c.Steps = append(c.Steps, vat.Step{K: "p-boot"}, vat.Step{K: "a-boot"})
	}
	n := rapid.IntRange(3, 40).Draw(t, "n")
	for i := 0; i < n; i++ {
		c.Steps = append(c.Steps, randStep(t))
	}
	return c
}

var _ = pbt.Register(pbt.Spec[vat.Case]{
	Property: "C06", Name: "history-model",
	Rule:  "history = optional mutual Bootstrap prefix + 3-40 drawn steps over {peer: Bootstrap, Call on an export (returning / held / failing / returning a new object or echoing a parameter capability, once or twice), Call pipelined on an answer that has or has not returned (paths [], [0], [1], [0,0]), Finish before or after the Return (with/without releaseResultCaps), Release, Return for the Conn's questions (results with B-hosted or A-hosted capabilities, or exception), forwarding of pipelined calls back to A, Disembargo echo; application: Bootstrap, calls on clients (pending bootstrap, resolved imports, A-local capabilities, with capability parameters), calls pipelined on answers before/after their Return, taking capabilities out of results, cancellation, releases; gate openings}. The peer obeys the protocol (forwards before echoing, answers every question exactly once). Non-trivial: >= 3 calls, at least one pipelined on a not-yet-returned answer, at least one Finish.",
	Quick: 2000, Thorough: 20000,
	Gen: genCase,
	Run: func(c vat.Case) (pbt.Result, error) { return vat.Run(c, vat.Options{Returns: true}) },
})
