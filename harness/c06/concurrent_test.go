package c06

import (
	"context"
	"fmt"
	"runtime"
	"sync"
	"time"

	capnp "capnproto.org/go/capnp/v3"
	"capnproto.org/go/capnp/v3/rpc"
	"capnproto.org/go/capnp/v3/verifharness/pbt"
	"capnproto.org/go/capnp/v3/verifharness/rpcsim"
	"capnproto.org/go/capnp/v3/verifharness/vat"
	"pgregory.net/rapid"
)

// CCase: several application goroutines call the peer's bootstrap capability in a loop, each reacting to an answer by
// calling again, while the peer answers every question at once.  What the peer sees on the wire must respect the
// question-id life cycle whatever the interleaving of the callers with the Conn's receive loop.
type CCase struct {
	Callers   int   `json:"callers"`
	CallsEach int   `json:"calls_each"`
	Pipeline  []int `json:"pipeline"`   // per caller: every n-th call is pipelined on the previous answer (0 = never)
	Cancel    []int `json:"cancel"`     // per caller: every n-th call is cancelled right after it was sent (0 = never)
	SendYield int   `json:"send_yield"` // the transport yields the processor before every n-th send (0 = never)
	ExcEvery  int   `json:"exc_every"`  // the peer answers every n-th call with an exception (0 = never)
}

func runC(c CCase) (pbt.Result, error) {
	var res pbt.Result
	w := rpcsim.NewWire()
	var sends int
	var smu sync.Mutex
	if c.SendYield > 0 {
		w.SendHook = func() {
			smu.Lock()
			sends++
			y := sends%c.SendYield == 0
			smu.Unlock()
			if y {
				runtime.Gosched()
			}
		}
	}
	conn := rpc.NewConn(w, &rpc.Options{AbortTimeout: 50 * time.Millisecond})
	closed := false
	defer func() {
		if !closed {
			conn.Close()
		}
	}()

	// ---- the peer: answers at once, records the wire history
	type qst struct {
		serial   uint64
		returned bool
	}
	var (
		pmu      sync.Mutex
		live     = map[uint32]*qst{} // questions of A: from Call/Bootstrap seen until Finish seen
		verr     error
		history  []string
		nCalls   int
		nFinish  int
		reusedOK int
		seenIDs  = map[uint32]int{}
	)
	fail := func(sig, format string, args ...interface{}) {
		if verr == nil {
			tail := history
			if len(tail) > 40 {
				tail = tail[len(tail)-40:]
			}
			verr = pbt.Fail(sig, "%s\n--- wire history (last %d messages from the Conn) ---\n%s", fmt.Sprintf(format, args...), len(tail), joinLines(tail))
		}
	}
	stop := make(chan struct{})
	flushed := make(chan struct{})
	peerDone := make(chan struct{})
	go func() {
		defer close(peerDone)
		for {
			select {
			case <-stop:
				return
			default:
			}
			m, ok := w.Next(20 * time.Millisecond)
			if !ok {
				continue
			}
			pmu.Lock()
			history = append(history, m.String())
			switch m.Which {
			case "bootstrap", "call":
				if old := live[m.ID]; old != nil {
					fail("question-id-reuse", "the Conn sent %s with question id %d while that id is still in use: its Finish has not been sent (returned by the peer: %v)", m.Which, m.ID, old.returned)
				}
				if seenIDs[m.ID] > 0 {
					reusedOK++
				}
				seenIDs[m.ID]++
				q := &qst{serial: m.Serial, returned: true}
				live[m.ID] = q
				if m.Which == "bootstrap" {
					w.SendReturn(rpcsim.PeerReturn{A: m.ID, ContentCap: true, Caps: []rpcsim.CapDesc{{Kind: "senderHosted", ID: 7}}})
				} else {
					nCalls++
					if m.TargetKind == "answer" {
						if t := live[m.TargetID]; t == nil {
							fail("pipeline-on-finished", "the Conn pipelined call %d on question %d, whose Finish it has already sent", m.Serial, m.TargetID)
						}
					}
					if c.ExcEvery > 0 && nCalls%c.ExcEvery == 0 {
						w.SendReturn(rpcsim.PeerReturn{A: m.ID, Exc: fmt.Sprintf("peer-error-%d", m.Serial)})
					} else {
						// the result carries a capability so that callers can pipeline on it
						w.SendReturn(rpcsim.PeerReturn{A: m.ID, Serial: m.Serial, Caps: []rpcsim.CapDesc{{Kind: "senderHosted", ID: 7}}})
					}
				}
			case "finish":
				if live[m.ID] == nil {
					fail("finish-unknown", "the Conn sent Finish for question id %d, which is not outstanding (a second Finish, or a Finish for a question never asked)", m.ID)
				}
				delete(live, m.ID)
				nFinish++
			case "unimplemented":
				if m.Inner != nil && m.Inner.Which == "join" && m.Inner.ID == 4242 {
					close(flushed)
				}
			case "release", "disembargo":
			case "abort":
				fail("conformance/abort", "the Conn aborted: %s", m.Reason)
			default:
				fail("conformance/unexpected-message", "unexpected message from the Conn: %s", m.String())
			}
			pmu.Unlock()
		}
	}()

	// ---- the application
	boot := conn.Bootstrap(context.Background())
	var wg sync.WaitGroup
	errs := make([]error, c.Callers)
	for g := 0; g < c.Callers; g++ {
		wg.Add(1)
		go func(g int) {
			defer wg.Done()
			var prev *capnp.Answer
			var prevRel capnp.ReleaseFunc
			for i := 0; i < c.CallsEach; i++ {
				serial := uint64(g+1)*100000 + uint64(i) + 1
				send := capnp.Send{Method: capnp.Method{InterfaceID: rpcsim.Iface, MethodID: rpcsim.Method}, ArgsSize: capnp.ObjectSize{DataSize: 16, PointerCount: 1},
					PlaceArgs: func(st capnp.Struct) error { st.SetUint64(0, serial); return nil }}
				ctx, cancel := context.WithCancel(context.Background())
				var ans *capnp.Answer
				var rel capnp.ReleaseFunc
				pipelined := prev != nil && c.Pipeline[g] > 0 && i%c.Pipeline[g] == 0
				if pipelined {
					ans, rel = prev.PipelineSend(ctx, []capnp.PipelineOp{{Field: 0}}, send)
				} else {
					ans, rel = boot.SendCall(ctx, send)
				}
				cancelled := c.Cancel[g] > 0 && i%c.Cancel[g] == c.Cancel[g]-1
				if cancelled {
					cancel()
				}
				select {
				case <-ans.Done():
				case <-time.After(vat.Deadline):
					errs[g] = pbt.Fail("hang/answer", "caller %d: call %d never resolved\n%s", g, serial, pbt.Stacks("capnp/v3/rpc."))
					cancel()
					return
				}
				st, err := ans.Struct()
				wantExc := false
				_ = wantExc
				if err == nil && st.Uint64(0) != serial {
					errs[g] = pbt.Fail("result/wrong", "caller %d: call %d resolved with the results the peer sent for call %d", g, serial, st.Uint64(0))
				}
				if err != nil && !cancelled && !isPeerError(err, serial) && !(pipelined && prevFailed(prev)) {
					errs[g] = pbt.Fail("result/wrong", "caller %d: call %d failed with %q, which is not what the peer answered", g, serial, err.Error())
				}
				if prevRel != nil {
					prevRel()
				}
				prev, prevRel = ans, rel
				cancel()
				if errs[g] != nil {
					return
				}
			}
			if prevRel != nil {
				prevRel()
			}
		}(g)
	}
	done := make(chan struct{})
	go func() { wg.Wait(); close(done) }()
	select {
	case <-done:
	case <-time.After(vat.Deadline + 10*time.Second):
		return res, pbt.Fail("hang/callers", "the callers did not finish\n%s", pbt.Stacks("capnp/v3/rpc."))
	}
	boot.Release()
	// Every question must be finished.  A marker message flushes the wire: its echo comes after everything the Conn
	// sent before (Finishes of returned questions are sent by the receive loop itself, Finishes of cancelled ones
	// before the caller sees the call fail).
	w.SendMarker(4242)
	select {
	case <-flushed:
	case <-time.After(vat.Deadline):
		return res, pbt.Fail("hang/receive-loop", "the Conn did not echo a marker message within %v\n%s", vat.Deadline, pbt.Stacks("capnp/v3/rpc."))
	}
	close(stop)
	<-peerDone
	pmu.Lock()
	defer pmu.Unlock()
	if verr != nil {
		return res, verr
	}
	for _, e := range errs {
		if e != nil {
			return res, e
		}
	}
	if len(live) != 0 {
		st := conn.VerifState()
		fail("missing/Finish", "%d questions (ids %v) were returned by the peer and resolved by the callers, but the Conn never sent their Finish (Conn state: %+v)\n%s", len(live), keys(live), st, pbt.Stacks("capnp/v3/rpc."))
		return res, verr
	}
	closed = true
	conn.Close()
	res.Count("calls", int64(nCalls))
	res.Count("finishes", int64(nFinish))
	res.Count("question_ids_reused", int64(reusedOK))
	res.Class("callers:%d", c.Callers)
	if c.SendYield > 0 {
		res.Class("yielding-transport")
	}
	res.Nontrivial = c.Callers >= 2 && reusedOK > 0
	return res, nil
}

func keys[V any](m map[uint32]V) []uint32 {
	var out []uint32
	for k := range m {
		out = append(out, k)
	}
	return out
}

func joinLines(l []string) string {
	s := ""
	for _, x := range l {
		s += x + "\n"
	}
	return s
}

func isPeerError(err error, serial uint64) bool {
	return containsStr(err.Error(), fmt.Sprintf("peer-error-%d", serial))
}

func prevFailed(prev *capnp.Answer) bool {
	_, err := prev.Struct()
	return err != nil
}

func containsStr(s, sub string) bool {
	for i := 0; i+len(sub) <= len(s); i++ {
		if s[i:i+len(sub)] == sub {
			return true
		}
	}
	return false
}

var _ = pbt.Register(pbt.Spec[CCase]{
	Property: "C06", Name: "concurrent-callers",
	Rule:  "1-6 application goroutines each make 5-40 calls on the peer's bootstrap capability (some pipelined on their previous answer, some cancelled right after sending), every caller reacting to an answer by calling again; the peer answers every question at once (results echoing the call's number, or an exception); the transport optionally yields the processor before sends. The schedule is whatever the Go scheduler produces. Oracle on the wire history: a question id appears in a new Bootstrap/Call only after the Finish of its previous use, every Finish names an outstanding question, no call is pipelined on a finished question, every question is finished in the end; oracle at the callers: each call resolves with the results the peer sent for that very call. Non-trivial: >= 2 callers and at least one question id used more than once.",
	Quick: 150, Thorough: 3000,
	Gen: func(t *rapid.T) CCase {
		c := CCase{Callers: rapid.IntRange(1, 6).Draw(t, "callers"), CallsEach: rapid.IntRange(5, 40).Draw(t, "calls"),
			SendYield: rapid.SampledFrom([]int{0, 0, 1, 2, 3, 5}).Draw(t, "yield"), ExcEvery: rapid.SampledFrom([]int{0, 0, 2, 3, 7}).Draw(t, "exc")}
		for g := 0; g < c.Callers; g++ {
			c.Pipeline = append(c.Pipeline, rapid.SampledFrom([]int{0, 0, 1, 2, 3}).Draw(t, "pipeline"))
			c.Cancel = append(c.Cancel, rapid.SampledFrom([]int{0, 0, 0, 2, 5}).Draw(t, "cancel"))
		}
		return c
	},
	Run: runC,
})
