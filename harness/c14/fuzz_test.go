package c14

import (
	"bytes"
	"testing"

	capnp "capnproto.org/go/capnp/v3"
	"capnproto.org/go/capnp/v3/verifharness/pbt"
)

// FuzzUnmarshal: coverage-guided search over framed byte strings with the oracle of the "unmarshal-bytes" sub-check
// inside the target, plus agreement of the streaming decoder with Unmarshal on the first frame.
func FuzzUnmarshal(f *testing.F) {
	for _, s := range [][]byte{
		{}, make([]byte, 8), {0, 0, 0, 0, 1, 0, 0, 0, 1, 2, 3, 4, 5, 6, 7, 8},
		{1, 0, 0, 0, 1, 0, 0, 0, 1, 0, 0, 0, 0, 0, 0, 0, 1, 1, 1, 1, 1, 1, 1, 1, 2, 2, 2, 2, 2, 2, 2, 2},
		{0xff, 0xff, 0xff, 0xff, 0, 0, 0, 0}, {0, 0, 0, 0, 0xff, 0xff, 0xff, 0x1f}, {2, 0, 0, 0, 0xff, 0xff, 0xff, 0x7f, 0xff, 0xff, 0xff, 0x7f, 1, 0, 0, 0},
		{0xfe, 0xff, 0xff, 0x3f, 1, 0, 0, 0},
	} {
		f.Add(s)
	}
	f.Fuzz(func(t *testing.T, data []byte) {
		if len(data) > 1<<16 {
			return
		}
		if _, err := runUnmarshal(unmCase{Data: data}); err != nil {
			v, _ := err.(*pbt.Violation)
			if v != nil {
				t.Fatalf("VIOLATION-CANDIDATE C14/fuzz sig=%s\n%s", v.Sig, v.Msg)
			}
			t.Fatalf("VIOLATION-CANDIDATE C14/fuzz sig=error\n%v", err)
		}
		// the streaming decoder on the same bytes, with a small message limit: no panic, and if both accept they agree
		d := capnp.NewDecoder(bytes.NewReader(data))
		d.MaxMessageSize = 1 << 20
		var m *capnp.Message
		var derr error
		func() {
			defer func() {
				if p := recover(); p != nil {
					t.Fatalf("VIOLATION-CANDIDATE C14/fuzz sig=panic/decode\nDecoder.Decode panicked on %x: %v", clip(data), p)
				}
			}()
			m, derr = d.Decode()
		}()
		if u, uerr := capnp.Unmarshal(data); derr == nil && uerr == nil {
			if m.NumSegments() != u.NumSegments() {
				t.Fatalf("VIOLATION-CANDIDATE C14/fuzz sig=decoder-differs-from-unmarshal\nDecode sees %d segments, Unmarshal %d in %x", m.NumSegments(), u.NumSegments(), clip(data))
			}
		}
	})
}
