package c14

import (
	"bytes"
	"encoding/binary"
	"errors"
	"fmt"
	"io"
	"runtime/metrics"
	"testing"

	capnp "capnproto.org/go/capnp/v3"
	"capnproto.org/go/capnp/v3/verifharness/hx"
	"capnproto.org/go/capnp/v3/verifharness/pbt"
	"capnproto.org/go/capnp/v3/verifharness/ref"
	"pgregory.net/rapid"
)

func TestProp(t *testing.T)   { pbt.RunProps(t) }
func TestReplay(t *testing.T) { pbt.RunReplay(t) }

// MsgSpec describes one message as segment sizes (words) plus a fill seed;
// contents are a deterministic function of (message index, segment, word).
type MsgSpec struct {
	SegWords []int `json:"seg_words"`
	Fill     int   `json:"fill"` // 0 zeros, 1 dense, 2 mixed
}

func (m MsgSpec) segments(mi int) [][]byte {
	segs := make([][]byte, len(m.SegWords))
	for i, w := range m.SegWords {
		b := make([]byte, w*8)
		for j := 0; j < w; j++ {
			var v uint64
			switch m.Fill {
			case 1:
				v = 0x0101010101010101*uint64(j%200+1) ^ uint64(mi+1)<<56 | 0x0100000000000001
			case 2:
				if (j+i)%3 != 0 {
					v = uint64(j+1)<<8 | uint64(i+1) | uint64(mi+1)<<40
				}
			}
			binary.LittleEndian.PutUint64(b[j*8:], v)
		}
		segs[i] = b
	}
	return segs
}

func genMsg(t *rapid.T) MsgSpec {
	var m MsgSpec
	nseg := 1
	switch rapid.IntRange(0, 9).Draw(t, "nsegk") {
	case 0:
		nseg = rapid.SampledFrom([]int{2, 3, 4, 511, 512, 513}).Draw(t, "nsegbig")
	case 1, 2, 3:
		nseg = rapid.IntRange(2, 5).Draw(t, "nseg")
	}
	for i := 0; i < nseg; i++ {
		w := rapid.IntRange(0, 4).Draw(t, "w")
		if nseg < 10 && rapid.IntRange(0, 9).Draw(t, "wbig") == 0 {
			w = rapid.SampledFrom([]int{255, 256, 257, 600}).Draw(t, "wb")
		}
		m.SegWords = append(m.SegWords, w)
	}
	m.Fill = rapid.IntRange(0, 2).Draw(t, "fill")
	return m
}

type streamCase struct {
	Msgs    []MsgSpec `json:"msgs"`
	Packed  bool      `json:"packed"`
	Reuse   bool      `json:"reuse"`
	Chunks  []int     `json:"chunks"`
	EOFWith bool      `json:"eof_with_data"`
	Cuts    []int     `json:"cuts"`     // cut positions (mod len+1); nil with AllCuts=false: no cut checks
	AllCuts bool      `json:"all_cuts"` // every position
	// FailAt: before the message with this index (0 = none; counted from 1) the Encoder is asked to encode a message
	// whose arena cannot deliver its second segment: that Encode fails and must leave no trace in the stream
	FailAt int `json:"fail_at,omitempty"`
}

// brokenArena announces three segments and cannot load the second.
type brokenArena struct{ first []byte }

func (a brokenArena) NumSegments() int64 { return 3 }
func (a brokenArena) Data(id capnp.SegmentID) ([]byte, error) {
	if id == 0 {
		return a.first, nil
	}
	return nil, errors.New("c14: segment unavailable")
}
func (a brokenArena) Allocate(capnp.Size, map[capnp.SegmentID]*capnp.Segment) (capnp.SegmentID, []byte, error) {
	return 0, nil, errors.New("c14: read-only")
}

// encode writes all messages and returns the stream and the frame boundaries (byte offsets after each message).
func encode(c streamCase) ([]byte, []int, [][][]byte, error) {
	var buf bytes.Buffer
	var enc *capnp.Encoder
	if c.Packed {
		enc = capnp.NewPackedEncoder(&buf)
	} else {
		enc = capnp.NewEncoder(&buf)
	}
	bounds := []int{0}
	var all [][][]byte
	for i, m := range c.Msgs {
		segs := m.segments(i)
		all = append(all, segs)
		if c.FailAt == i+1 {
			before := buf.Len()
			bad := &capnp.Message{Arena: brokenArena{first: bytes.Repeat([]byte{0xEE}, 24)}}
			if err := enc.Encode(bad); err == nil {
				return nil, nil, nil, fmt.Errorf("Encode of a message whose second segment cannot be loaded reported success")
			}
			if buf.Len() != before {
				return nil, nil, nil, fmt.Errorf("a failed Encode left %d bytes in the stream", buf.Len()-before)
			}
		}
		msg := &capnp.Message{Arena: capnp.MultiSegment(hx.CloneSegs(segs))}
		if err := enc.Encode(msg); err != nil {
			return nil, nil, nil, err
		}
		bounds = append(bounds, buf.Len())
	}
	return buf.Bytes(), bounds, all, nil
}

func sameSegs(m *capnp.Message, segs [][]byte) error {
	if int(m.NumSegments()) != len(segs) {
		return fmt.Errorf("segment count %d want %d", m.NumSegments(), len(segs))
	}
	for i := range segs {
		s, err := m.Segment(capnp.SegmentID(i))
		if err != nil {
			return err
		}
		if !bytes.Equal(s.Data(), segs[i]) {
			return fmt.Errorf("segment %d differs (%d bytes, want %d)", i, len(s.Data()), len(segs[i]))
		}
	}
	return nil
}

func newDecoder(c streamCase, stream []byte) *capnp.Decoder {
	r := &hx.ChunkReader{Data: append([]byte(nil), stream...), Chunks: c.Chunks, EOFWithData: c.EOFWith}
	var d *capnp.Decoder
	if c.Packed {
		d = capnp.NewPackedDecoder(r)
	} else {
		d = capnp.NewDecoder(r)
	}
	if c.Reuse {
		d.ReuseBuffer()
	}
	return d
}

// decodeAll decodes until an error; every message is compared before the next Decode (buffer reuse!).
func decodeAll(c streamCase, stream []byte, all [][][]byte) (n int, last error, mismatch error) {
	d := newDecoder(c, stream)
	for {
		m, err := d.Decode()
		if err != nil {
			return n, err, nil
		}
		if n >= len(all) {
			return n, nil, fmt.Errorf("decoded more messages (%d) than were written (%d)", n+1, len(all))
		}
		if e := sameSegs(m, all[n]); e != nil {
			return n, nil, fmt.Errorf("message %d: %v", n, e)
		}
		n++
	}
}

func runStream(c streamCase) (pbt.Result, error) {
	var res pbt.Result
	stream, bounds, all, err := encode(c)
	if err != nil {
		return res, pbt.Fail("encode-error", "%v", err)
	}
	// the stream is spec framing: an independent parser reads it back
	plain := stream
	if c.Packed {
		up, uerr := ref.Unpack(stream)
		if uerr != nil {
			return res, pbt.Fail("packed-stream-not-spec", "independent unpacker: %v", uerr)
		}
		plain = up
	}
	pos := 0
	for i := range all {
		segs, n, uerr := ref.Unframe(plain[pos:])
		if uerr != nil {
			return res, pbt.Fail("stream-not-spec-framing", "independent unframer fails at message %d: %v", i, uerr)
		}
		if len(segs) != len(all[i]) {
			return res, pbt.Fail("stream-not-spec-framing", "message %d: segment table says %d segments, wrote %d", i, len(segs), len(all[i]))
		}
		for j := range segs {
			if !bytes.Equal(segs[j], all[i][j]) {
				return res, pbt.Fail("stream-not-spec-framing", "message %d segment %d differs in the framed stream", i, j)
			}
		}
		pos += n
	}
	if pos != len(plain) {
		return res, pbt.Fail("stream-trailing-bytes", "%d bytes after the last frame", len(plain)-pos)
	}
	multi := false
	for _, m := range c.Msgs {
		if len(m.SegWords) > 1 {
			multi = true
		}
	}
	res.Nontrivial = len(c.Msgs) >= 2 && multi
	res.Class("packed:%v", c.Packed)
	res.Class("reuse:%v", c.Reuse)
	res.Class("msgs:%d", len(c.Msgs))

	// (a) full stream
	n, last, mm := decodeAll(c, stream, all)
	if mm != nil {
		return res, pbt.Fail("roundtrip-mismatch", "%v", mm)
	}
	if n != len(all) || last != io.EOF {
		return res, pbt.Fail("roundtrip-incomplete", "decoded %d of %d messages, terminal error %v (want io.EOF)", n, len(all), last)
	}
	// (b) cuts
	isBound := map[int]int{}
	for i, b := range bounds {
		isBound[b] = i
	}
	var cuts []int
	if c.AllCuts {
		for p := 0; p <= len(stream); p++ {
			cuts = append(cuts, p)
		}
	} else {
		for _, p := range c.Cuts {
			cuts = append(cuts, p%(len(stream)+1))
		}
	}
	res.Count("cuts", int64(len(cuts)))
	for _, p := range cuts {
		n, last, mm := decodeAll(c, stream[:p], all)
		if mm != nil {
			return res, pbt.Fail("cut/wrong-message", "stream cut at %d of %d: %v", p, len(stream), mm)
		}
		if last == nil {
			return res, pbt.Fail("cut/no-error", "stream cut at %d: decoder never reported an error", p)
		}
		if k, ok := isBound[p]; ok {
			if last != io.EOF || n != k {
				return res, pbt.Fail("cut/boundary-not-eof", "stream cut at frame boundary %d (after %d messages): decoded %d, terminal error %v", p, k, n, last)
			}
		} else {
			if last == io.EOF {
				return res, pbt.Fail("cut/clean-eof-inside-frame", "stream cut at %d (inside a frame; boundaries %v): decoder reported clean io.EOF after %d messages (packed=%v reuse=%v)", p, bounds, n, c.Packed, c.Reuse)
			}
		}
	}
	return res, nil
}

func genChunks(t *rapid.T) []int {
	var out []int
	for i, n := 0, rapid.IntRange(0, 3).Draw(t, "nchunks"); i < n; i++ {
		out = append(out, rapid.SampledFrom([]int{1, 2, 3, 7, 8, 9, 15, 16, 17, 64, 4096}).Draw(t, "chunk"))
	}
	return out
}

var _ = pbt.Register(pbt.Spec[streamCase]{
	Property: "C14", Name: "stream",
	Rule:  "0-6 messages of 1-5 (occasionally 511/512/513) segments of 0-4 (occasionally 255-600) words incl. empty segments, written by Encoder or PackedEncoder into one stream (in a quarter of the cases the Encoder is also asked, between two messages, to encode a message whose arena cannot load its second segment: an error, and no trace in the stream); decoders with/without ReuseBuffer over drawn reader chunkings (1-byte reads, data+EOF in one call). Oracle: independent unpacker/unframer parses the stream to the same segments with nothing trailing; Decode returns the same segment bytes/count/order (compared before the next Decode) then io.EOF; for drawn cut positions the decoded messages are a prefix of the originals and the terminal error is io.EOF iff the cut is a frame boundary. Non-trivial: >=2 messages with a multi-segment one.",
	Quick: 6000, Thorough: 60000,
	Gen: func(t *rapid.T) streamCase {
		c := streamCase{Packed: rapid.Bool().Draw(t, "packed"), Reuse: rapid.Bool().Draw(t, "reuse"), Chunks: genChunks(t), EOFWith: rapid.Bool().Draw(t, "eofwd")}
		for i, n := 0, rapid.IntRange(0, 6).Draw(t, "nmsgs"); i < n; i++ {
			c.Msgs = append(c.Msgs, genMsg(t))
		}
		c.Cuts = rapid.SliceOfN(rapid.IntRange(0, 1<<20), 0, 12).Draw(t, "cuts")
		if len(c.Msgs) > 0 && rapid.IntRange(0, 3).Draw(t, "failenc") == 0 {
			c.FailAt = rapid.IntRange(1, len(c.Msgs)).Draw(t, "failat")
		}
		return c
	},
	Run: runStream,
})

var _ = pbt.Register(pbt.Spec[streamCase]{
	Property: "C14", Name: "every-cut",
	Rule:  "small streams (1-3 messages, <= ~30 words in total) cut at EVERY byte position (exhaustive per stream), plain and packed, with and without reuse; same oracle. Non-trivial: >=2 messages with a multi-segment one.",
	Quick: 1500, Thorough: 15000,
	Gen: func(t *rapid.T) streamCase {
		c := streamCase{Packed: rapid.Bool().Draw(t, "packed"), Reuse: rapid.Bool().Draw(t, "reuse"), Chunks: genChunks(t), EOFWith: rapid.Bool().Draw(t, "eofwd"), AllCuts: true}
		for i, n := 0, rapid.IntRange(1, 3).Draw(t, "nmsgs"); i < n; i++ {
			var m MsgSpec
			for j, k := 0, rapid.IntRange(1, 4).Draw(t, "nseg"); j < k; j++ {
				m.SegWords = append(m.SegWords, rapid.IntRange(0, 3).Draw(t, "w"))
			}
			m.Fill = rapid.IntRange(0, 2).Draw(t, "fill")
			c.Msgs = append(c.Msgs, m)
		}
		return c
	},
	Run: runStream,
})

// ---------------------------------------------------------------------------
// limits: hostile headers, MaxMessageSize, allocation bounds

var allocSample = []metrics.Sample{{Name: "/gc/heap/allocs:bytes"}}

func allocBytes() uint64 {
	metrics.Read(allocSample)
	return allocSample[0].Value.Uint64()
}

type limitCase struct {
	Header hx.Bytes `json:"header"` // bytes at the start of the stream
	Tail   int      `json:"tail"`   // number of zero bytes following the header
	Max    uint64   `json:"max"`    // Decoder.MaxMessageSize (0 = default)
	Reuse  bool     `json:"reuse"`
	Prior  int      `json:"prior"` // with reuse: words of a valid message decoded before (buffer history)
}

func genHeader(t *rapid.T) []byte {
	var nseg uint32
	switch rapid.IntRange(0, 7).Draw(t, "hk") {
	case 0:
		nseg = uint32(rapid.SampledFrom([]int{510, 511, 512, 513, 514, 1 << 16, 1<<32 - 1, 1<<32 - 2, 1 << 31}).Draw(t, "hn"))
	default:
		nseg = uint32(rapid.IntRange(0, 6).Draw(t, "hnsmall"))
	}
	b := make([]byte, 4)
	binary.LittleEndian.PutUint32(b, nseg)
	n := int(nseg) + 1
	if n > 600 || n <= 0 {
		n = 600
	}
	for i := 0; i < n; i++ {
		var sz uint32
		switch rapid.IntRange(0, 9).Draw(t, "sk") {
		case 0:
			sz = uint32(rapid.SampledFrom([]int{1 << 29, 1<<29 - 1, 1 << 31, 1<<32 - 1, 1 << 28, 1 << 20, 1 << 23}).Draw(t, "sbig"))
		default:
			sz = uint32(rapid.IntRange(0, 5).Draw(t, "ssmall"))
		}
		var w [4]byte
		binary.LittleEndian.PutUint32(w[:], sz)
		b = append(b, w[:]...)
		if i > 8 && sz == 0 && n > 50 {
			// long tables: fill the rest cheaply
			b = append(b, make([]byte, 4*(n-i-1))...)
			break
		}
	}
	if len(b)%8 != 0 {
		b = append(b, 0, 0, 0, 0)
	}
	if rapid.IntRange(0, 5).Draw(t, "hcut") == 0 {
		b = b[:rapid.IntRange(0, len(b)).Draw(t, "hcutpos")]
	}
	return b
}

func runLimits(c limitCase) (pbt.Result, error) {
	var res pbt.Result
	stream := append(append([]byte(nil), c.Header...), make([]byte, c.Tail)...)
	var pre []byte
	if c.Reuse && c.Prior > 0 {
		pre = ref.Frame([][]byte{make([]byte, 8*c.Prior)})
	}
	limit := c.Max
	if limit == 0 {
		limit = 64 << 20
	}
	var m *capnp.Message
	var err error
	var pv interface{}
	var allocated uint64 = ^uint64(0)
	// allocation is measured process-wide, so noise is additive: take the minimum of three identical attempts
	for attempt := 0; attempt < 3; attempt++ {
		d := capnp.NewDecoder(bytes.NewReader(append(append([]byte(nil), pre...), stream...)))
		if c.Reuse {
			d.ReuseBuffer()
			if pre != nil {
				if _, perr := d.Decode(); perr != nil {
					return res, pbt.Fail("prior-decode-error", "%v", perr)
				}
			}
		}
		d.MaxMessageSize = c.Max
		before := allocBytes()
		func() {
			defer func() { pv = recover() }()
			m, err = d.Decode()
		}()
		after := allocBytes()
		if after-before < allocated {
			allocated = after - before
		}
		if pv != nil {
			break
		}
	}
	after, before := allocated, uint64(0)
	if pv != nil {
		return res, pbt.Fail("panic/decode", "Decode panicked on header %x: %v", clip(c.Header), pv)
	}
	const slack = 64 << 10
	bound := limit + slack
	if bound < limit {
		bound = ^uint64(0)
	}
	if len(c.Header) >= 4 && binary.LittleEndian.Uint32(c.Header) > 512 {
		// more segments than the decoder accepts: the first word decides, whatever MaxMessageSize is - a decoder that
		// sizes its header table from the announced count has accepted the count
		bound = slack
	}
	if after-before > bound {
		return res, pbt.Fail("decode-allocates-beyond-limit", "Decode allocated %d bytes with MaxMessageSize %d (header %x, reuse=%v)", after-before, limit, clip(c.Header), c.Reuse)
	}
	nsegHdr := uint64(0)
	if len(c.Header) >= 4 {
		nsegHdr = uint64(binary.LittleEndian.Uint32(c.Header)) + 1
	}
	res.Class("max:%s", maxClass(c.Max))
	res.Class("decode-ok:%v", err == nil)
	res.Nontrivial = nsegHdr > 512 || (err != nil && err != io.EOF && len(c.Header) >= 8)
	if err == nil {
		if m.NumSegments() > 513 {
			return res, pbt.Fail("segment-limit", "Decode accepted a message with %d segments", m.NumSegments())
		}
		// framed size of what was accepted must respect the limit
		hdr := uint64((4*(nsegHdr+1) + 7) &^ 7)
		total := hdr
		for i := int64(0); i < m.NumSegments(); i++ {
			s, serr := m.Segment(capnp.SegmentID(i))
			if serr != nil {
				return res, pbt.Fail("segment-error", "%v", serr)
			}
			total += uint64(len(s.Data()))
		}
		if total > limit {
			return res, pbt.Fail("accepted-beyond-limit", "Decode accepted a %d-byte message with MaxMessageSize %d", total, limit)
		}
		// and must be exactly what an independent parser sees
		segs, _, uerr := ref.Unframe(stream)
		if uerr != nil {
			return res, pbt.Fail("accepted-unparseable", "Decode accepted a stream the independent unframer rejects: %v", uerr)
		}
		if e := sameSegsRaw(m, segs); e != nil {
			return res, pbt.Fail("accepted-differs", "%v", e)
		}
	} else {
		// a complete, in-limit frame must be accepted
		if segs, n, uerr := ref.Unframe(stream); uerr == nil && len(segs) <= 512 && uint64(n) <= limit && c.Max != 0 && c.Max >= 8 {
			return res, pbt.Fail("rejects-valid-frame", "Decode rejected a complete %d-byte frame of %d segments with MaxMessageSize %d: %v", n, len(segs), c.Max, err)
		}
	}
	return res, nil
}

func sameSegsRaw(m *capnp.Message, segs [][]byte) error {
	if int(m.NumSegments()) != len(segs) {
		return fmt.Errorf("segment count %d, independent parser %d", m.NumSegments(), len(segs))
	}
	for i := range segs {
		s, err := m.Segment(capnp.SegmentID(i))
		if err != nil {
			return err
		}
		if !bytes.Equal(s.Data(), segs[i]) {
			return fmt.Errorf("segment %d differs", i)
		}
	}
	return nil
}

func maxClass(m uint64) string {
	switch {
	case m == 0:
		return "default"
	case m < 8:
		return "<8"
	case m <= 4096:
		return "small"
	case m > 1<<30:
		return "huge"
	}
	return "large"
}

func clip(b []byte) []byte {
	if len(b) > 48 {
		return b[:48]
	}
	return b
}

var _ = pbt.Register(pbt.Spec[limitCase]{
	Property: "C14", Name: "decode-limits",
	Rule:  "stream headers with segment counts in {1..7, 510..514, 2^16, 2^31, 2^32-1}, size words in {0..5, 2^20..2^32-1} (sums crossing the limit), cut headers, followed by 0-4096 zero bytes; MaxMessageSize in {0=default, 1..7, 8, 16, 24, exact, exact-1, 4096, 1MiB, 2^34, 2^40, 2^64-8, 2^64-1 (the huge ones only when the header announces <= 64 MiB or an over-limit count)}; with/without ReuseBuffer and a previously decoded message. Oracle: no panic; bytes allocated by Decode (runtime/metrics /gc/heap/allocs:bytes delta, single goroutine) <= limit + 64 KiB, and <= 64 KiB whatever the limit when the count word exceeds 512; success => <= 513 segments, framed size <= limit, same segments as the independent unframer; a complete in-limit frame is not rejected. Non-trivial: header announces > 512 segments or Decode fails with a non-EOF error.",
	Quick: 15000, Thorough: 150000,
	Gen: func(t *rapid.T) limitCase {
		c := limitCase{Header: genHeader(t), Reuse: rapid.Bool().Draw(t, "reuse")}
		c.Tail = rapid.SampledFrom([]int{0, 8, 16, 40, 64, 4096}).Draw(t, "tail")
		exact := uint64(len(c.Header) + c.Tail)
		if segs, n, err := ref.Unframe(append(append([]byte(nil), c.Header...), make([]byte, c.Tail)...)); err == nil && len(segs) > 0 {
			exact = uint64(n)
		}
		c.Max = rapid.SampledFrom([]uint64{0, 0, 1, 7, 8, 16, 24, exact, exact - 1, exact + 8, 4096, 1 << 20, 1 << 34, 1 << 40, ^uint64(0), ^uint64(0) - 7}).Draw(t, "max")
		if c.Max > 1<<30 {
			// "no limit": only with headers whose legal reading announces little data (a 4 GiB segment within the limit
			// is legitimately allocated; 16 shards of that are not something the sandbox should be asked for)
			var announced uint64
			if len(c.Header) >= 4 {
				if n := uint64(binary.LittleEndian.Uint32(c.Header)) + 1; n <= 513 {
					for i := uint64(0); i < n && 4+4*i+4 <= uint64(len(c.Header)); i++ {
						announced += 8 * uint64(binary.LittleEndian.Uint32(c.Header[4+4*i:]))
					}
				}
			}
			if announced > 64<<20 {
				c.Max = 1 << 20
			}
		}
		if c.Reuse {
			c.Prior = rapid.SampledFrom([]int{0, 1, 64}).Draw(t, "prior")
		}
		return c
	},
	Run: runLimits,
})

// ---------------------------------------------------------------------------
// Unmarshal of arbitrary bytes: no panic, allocation proportional to the input

type unmCase struct {
	Data hx.Bytes `json:"data"`
}

func runUnmarshal(c unmCase) (pbt.Result, error) {
	var res pbt.Result
	in := append([]byte(nil), c.Data...)
	var m *capnp.Message
	var err error
	var pv interface{}
	var allocated uint64 = ^uint64(0)
	for attempt := 0; attempt < 3; attempt++ {
		before := allocBytes()
		func() {
			defer func() { pv = recover() }()
			m, err = capnp.Unmarshal(in)
		}()
		after := allocBytes()
		if after-before < allocated {
			allocated = after - before
		}
	}
	after, before := allocated, uint64(0)
	if pv != nil {
		return res, pbt.Fail("panic/unmarshal", "Unmarshal panicked on %x: %v", clip(in), pv)
	}
	if bound := uint64(16*len(in) + 64<<10); after-before > bound {
		return res, pbt.Fail("unmarshal-allocation", "Unmarshal of %d bytes allocated %d bytes (bound %d)", len(in), after-before, bound)
	}
	segs, _, uerr := ref.Unframe(in)
	res.Class("ok:%v", err == nil)
	res.Nontrivial = len(in) >= 8
	if err == nil {
		if uerr != nil {
			return res, pbt.Fail("unmarshal-accepts-unparseable", "Unmarshal accepted bytes the independent unframer rejects (%v): %x", uerr, clip(in))
		}
		if e := sameSegsRaw(m, segs); e != nil {
			return res, pbt.Fail("unmarshal-differs", "%v", e)
		}
	} else if uerr == nil && len(in) > 0 {
		return res, pbt.Fail("unmarshal-rejects-valid", "Unmarshal rejected a complete frame: %v (%x)", err, clip(in))
	}
	return res, nil
}

var _ = pbt.Register(pbt.Spec[unmCase]{
	Property: "C14", Name: "unmarshal-bytes",
	Rule:  "arbitrary byte strings: hostile headers (as above) + tails, valid frames, raw bytes; oracle: Unmarshal never panics, allocates <= 16*len+64KiB (the allocation counter advances in span-sized steps, hence the slack; minimum of three attempts), accepts exactly what the independent unframer accepts and yields the same segments. Non-trivial: input >= 8 bytes.",
	Quick: 15000, Thorough: 150000,
	Gen: func(t *rapid.T) unmCase {
		switch rapid.IntRange(0, 2).Draw(t, "src") {
		case 0:
			return unmCase{Data: rapid.SliceOfN(rapid.Byte(), 0, 64).Draw(t, "raw")}
		case 1:
			h := genHeader(t)
			return unmCase{Data: append(h, make([]byte, rapid.SampledFrom([]int{0, 8, 16, 40, 4096}).Draw(t, "tail"))...)}
		default:
			m := genMsg(t)
			fr := ref.Frame(m.segments(0))
			if rapid.IntRange(0, 2).Draw(t, "cut") == 0 && len(fr) > 0 {
				fr = fr[:rapid.IntRange(0, len(fr)).Draw(t, "cutpos")]
			}
			return unmCase{Data: fr}
		}
	},
	Run: runUnmarshal,
})
