// Package gen holds rapid generators shared by the property packages.
package gen

import (
	"capnproto.org/go/capnp/v3/verifharness/ref"
	"pgregory.net/rapid"
)

// TreeOpts controls ValueTree.
type TreeOpts struct {
	MaxDepth   int  // pointer levels below the root value
	Caps       bool // allow capability pointers
	MaxCap     int  // capability indices drawn from [0,MaxCap)
	NoBigLists bool
	RootStruct bool // the root value is always a struct
}

func word(t *rapid.T) []byte {
	w := make([]byte, 8)
	switch rapid.IntRange(0, 5).Draw(t, "wk") {
	case 0: // zero word
	case 1: // one low byte
		w[0] = byte(rapid.IntRange(1, 255).Draw(t, "wb"))
	case 2: // high byte only
		w[7] = byte(rapid.IntRange(1, 255).Draw(t, "wb"))
	default:
		for i := range w {
			w[i] = rapid.Byte().Draw(t, "wb")
		}
	}
	return w
}

func dataWords(t *rapid.T, n int) []byte {
	var d []byte
	for i := 0; i < n; i++ {
		d = append(d, word(t)...)
	}
	return d
}

// ValueTree draws a value tree.
func ValueTree(t *rapid.T, o TreeOpts) ref.Value {
	if o.RootStruct {
		oo := o
		oo.RootStruct = false
		return structV(t, oo, o.MaxDepth)
	}
	return value(t, o, o.MaxDepth)
}

func value(t *rapid.T, o TreeOpts, depth int) ref.Value {
	max := 9
	if depth <= 0 {
		// leaves only: null, cap, data-only struct, primitive lists
		switch rapid.IntRange(0, 5).Draw(t, "leaf") {
		case 0:
			return ref.Null()
		case 1:
			if o.Caps {
				return ref.CapV(uint32(rapid.IntRange(0, imax(o.MaxCap, 1)-1).Draw(t, "cap")))
			}
			return ref.Null()
		case 2:
			return ref.StructV(dataWords(t, rapid.IntRange(0, 2).Draw(t, "dw")))
		default:
			return primList(t, o)
		}
	}
	switch rapid.IntRange(0, max).Draw(t, "vk") {
	case 0:
		return ref.Null()
	case 1:
		if o.Caps {
			return ref.CapV(uint32(rapid.IntRange(0, imax(o.MaxCap, 1)-1).Draw(t, "cap")))
		}
		return primList(t, o)
	case 2, 3, 4:
		return structV(t, o, depth)
	case 5:
		return primList(t, o)
	case 6:
		return ptrList(t, o, depth)
	default:
		return compList(t, o, depth)
	}
}

func structV(t *rapid.T, o TreeOpts, depth int) ref.Value {
	dw := rapid.IntRange(0, 3).Draw(t, "dw")
	pc := rapid.IntRange(0, 3).Draw(t, "pc")
	v := ref.Value{Kind: ref.KStruct, Data: dataWords(t, dw)}
	for i := 0; i < pc; i++ {
		v.Ptrs = append(v.Ptrs, value(t, o, depth-1))
	}
	return v
}

func listLen(t *rapid.T, o TreeOpts) int {
	if !o.NoBigLists && rapid.IntRange(0, 15).Draw(t, "bigl") == 0 {
		return rapid.SampledFrom([]int{7, 8, 9, 15, 16, 17, 63, 64, 65, 100}).Draw(t, "ln")
	}
	return rapid.IntRange(0, 4).Draw(t, "ln")
}

func primList(t *rapid.T, o TreeOpts) ref.Value {
	lk := ref.ListKind(rapid.IntRange(0, 5).Draw(t, "lk"))
	n := listLen(t, o)
	v := ref.Value{Kind: ref.KList, LK: lk, N: n}
	switch lk {
	case ref.LBit:
		v.Bits = make([]bool, n)
		for i := range v.Bits {
			v.Bits[i] = rapid.Bool().Draw(t, "bit")
		}
	case ref.LB1, ref.LB2, ref.LB4, ref.LB8:
		v.Prim = make([]byte, n*lk.ElemBytes())
		if lk == ref.LB1 && rapid.Bool().Draw(t, "text") {
			// text-like: printable with NUL terminator
			for i := range v.Prim {
				v.Prim[i] = byte(rapid.IntRange(32, 126).Draw(t, "ch"))
			}
			if n > 0 {
				v.Prim[n-1] = 0
			}
		} else {
			for i := range v.Prim {
				v.Prim[i] = rapid.Byte().Draw(t, "pb")
			}
		}
	}
	return v
}

func ptrList(t *rapid.T, o TreeOpts, depth int) ref.Value {
	n := rapid.IntRange(0, 3).Draw(t, "pn")
	v := ref.Value{Kind: ref.KList, LK: ref.LPtr, N: n}
	for i := 0; i < n; i++ {
		v.Elems = append(v.Elems, value(t, o, depth-1))
	}
	return v
}

func compList(t *rapid.T, o TreeOpts, depth int) ref.Value {
	n := rapid.IntRange(0, 3).Draw(t, "cn")
	dw := rapid.IntRange(0, 2).Draw(t, "cdw")
	pc := rapid.IntRange(0, 2).Draw(t, "cpc")
	v := ref.Value{Kind: ref.KList, LK: ref.LComposite, N: n, DW: dw, PC: pc}
	for i := 0; i < n; i++ {
		e := ref.Value{Kind: ref.KStruct, Data: dataWords(t, dw)}
		for j := 0; j < pc; j++ {
			e.Ptrs = append(e.Ptrs, value(t, o, depth-1))
		}
		v.Elems = append(v.Elems, e)
	}
	return v
}

func imax(a, b int) int {
	if a > b {
		return a
	}
	return b
}

// Plan draws an encoding plan.  nsegs is drawn in [1,maxSegs].
func Plan(t *rapid.T, maxSegs int) ref.Plan {
	p := ref.Plan{NSegs: rapid.IntRange(1, maxSegs).Draw(t, "nsegs")}
	small := func(label string, hi int) []int {
		return rapid.SliceOfN(rapid.IntRange(0, hi), 0, 8).Draw(t, label)
	}
	p.ObjSeg = small("objseg", maxSegs)
	p.Order = small("order", 5)
	p.EdgeKind = small("edgekind", 2)
	p.PadSeg = small("padseg", maxSegs)
	if rapid.Bool().Draw(t, "gaps") {
		p.Gap = small("gap", 3)
		p.Junk = byte(rapid.SampledFrom([]int{0, 0xff, 0xa5}).Draw(t, "junk"))
	}
	if rapid.IntRange(0, 3).Draw(t, "zo") == 0 {
		p.ZeroOff = small("zerooff", 6)
	}
	return p
}
