package gen

import (
	"encoding/binary"

	"pgregory.net/rapid"
)

// WordCtx tells HostileWord where the word will be stored.
type WordCtx struct {
	SegWords []int // length of every segment in words
	Seg      int
	Word     int
}

func u64(lo, hi uint32) uint64 { return uint64(lo) | uint64(hi)<<32 }

// HostileWord draws a 64-bit pointer word from a grammar of boundary cases:
// targets are drawn relative to the segment geometry, sizes and counts from
// boundary sets, so that in-bounds, just-out-of-bounds and wildly
// out-of-bounds pointers of every kind all occur frequently.
func HostileWord(t *rapid.T, c WordCtx) uint64 {
	n := 0
	if c.Seg < len(c.SegWords) {
		n = c.SegWords[c.Seg]
	}
	target := func(label string, segWords int) int {
		switch rapid.IntRange(0, 9).Draw(t, label+"_tk") {
		case 0:
			return 0
		case 1:
			return c.Word
		case 2:
			return c.Word + 1
		case 3:
			return segWords - 1
		case 4:
			return segWords
		case 5:
			return segWords + 1
		case 6:
			return -1
		case 7:
			return 1<<29 - 1
		default:
			if segWords <= 0 {
				return 0
			}
			return rapid.IntRange(0, segWords).Draw(t, label+"_tw")
		}
	}
	offTo := func(tw int) uint32 { return uint32(int32(tw-(c.Word+1))) << 2 }
	size16 := func(label string, remaining int) uint32 {
		switch rapid.IntRange(0, 7).Draw(t, label+"_sk") {
		case 0:
			return 0
		case 1:
			return 1
		case 2:
			return 2
		case 3:
			if remaining >= 0 && remaining <= 0xffff {
				return uint32(remaining)
			}
			return 3
		case 4:
			if remaining+1 >= 0 && remaining+1 <= 0xffff {
				return uint32(remaining + 1)
			}
			return 4
		case 5:
			return 0xffff
		default:
			return uint32(rapid.IntRange(0, 6).Draw(t, label+"_sv"))
		}
	}
	count29 := func(label string, remainingWords int) uint32 {
		switch rapid.IntRange(0, 9).Draw(t, label+"_ck") {
		case 0:
			return 0
		case 1:
			return 1
		case 2:
			return 7
		case 3:
			return 8
		case 4:
			return 9
		case 5:
			if remainingWords >= 0 {
				return uint32(remainingWords) & (1<<29 - 1)
			}
			return 0
		case 6:
			if remainingWords >= 0 {
				return uint32(remainingWords+1) & (1<<29 - 1)
			}
			return 1
		case 7:
			return 1<<29 - 1
		case 8:
			if remainingWords >= 0 {
				return uint32(remainingWords*8) & (1<<29 - 1) // right for byte lists
			}
			return 64
		default:
			return uint32(rapid.IntRange(0, 70).Draw(t, label+"_cv"))
		}
	}
	switch rapid.IntRange(0, 11).Draw(t, "hk") {
	case 0:
		return 0
	case 1:
		return rapid.Uint64().Draw(t, "rnd")
	case 2, 3: // struct pointer
		tw := target("s", n)
		rem := n - tw
		dw := size16("sd", rem)
		pc := size16("sp", rem-int(dw))
		return u64(0|offTo(tw), dw|pc<<16)
	case 4, 5, 6: // list pointer
		tw := target("l", n)
		lk := uint32(rapid.IntRange(0, 7).Draw(t, "lk"))
		cnt := count29("lc", n-tw)
		if lk == 7 && rapid.Bool().Draw(t, "cm1") && cnt > 0 {
			cnt-- // composite: count excludes the tag
		}
		return u64(1|offTo(tw), lk|cnt<<3)
	case 7, 8: // far / double-far
		seg := 0
		switch rapid.IntRange(0, 4).Draw(t, "fs") {
		case 0:
			seg = len(c.SegWords) // one past
		case 1:
			seg = -1 // 2^32-1
		default:
			if len(c.SegWords) > 0 {
				seg = rapid.IntRange(0, len(c.SegWords)-1).Draw(t, "fseg")
			}
		}
		sw := 0
		if seg >= 0 && seg < len(c.SegWords) {
			sw = c.SegWords[seg]
		}
		var off int
		switch rapid.IntRange(0, 5).Draw(t, "fo") {
		case 0:
			off = 0
		case 1:
			off = sw - 1
		case 2:
			off = sw - 2
		case 3:
			off = sw
		case 4:
			off = 1<<29 - 1
		default:
			if sw > 0 {
				off = rapid.IntRange(0, sw-1).Draw(t, "fow")
			}
		}
		if off < 0 {
			off = 0
		}
		lo := uint32(2) | uint32(off)<<3
		if rapid.Bool().Draw(t, "dbl") {
			lo |= 4
		}
		return u64(lo, uint32(seg))
	case 9: // capability / other
		if rapid.IntRange(0, 3).Draw(t, "ok") == 0 {
			return u64(3|uint32(rapid.IntRange(1, 5).Draw(t, "ot"))<<2, rapid.Uint32().Draw(t, "oh"))
		}
		return u64(3, uint32(rapid.SampledFrom([]int{0, 1, 2, 7, 1000, -1}).Draw(t, "capi")))
	case 10: // composite tag: struct-shaped word whose offset field is the element count
		cnt := rapid.SampledFrom([]int{0, 1, 2, 3, n, n + 1, -1, -2, 1<<29 - 1, -(1 << 29)}).Draw(t, "tagn")
		dw := size16("td", n)
		pc := size16("tp", n)
		return u64(uint32(int32(cnt))<<2, dw|pc<<16)
	default: // landing-pad tag: struct/list pointer with zero offset
		if rapid.Bool().Draw(t, "lt") {
			return u64(0, size16("pd", n)|size16("pp", n)<<16)
		}
		return u64(1, uint32(rapid.IntRange(0, 7).Draw(t, "plk"))|count29("pc", n)<<3)
	}
}

// Mutation overwrites one word.
type Mutation struct {
	Seg  int    `json:"seg"`
	Word int    `json:"word"`
	Val  uint64 `json:"val"`
}

// MutateWords draws 1..k word overwrites for the given segments.
func MutateWords(t *rapid.T, segs [][]byte, k int) []Mutation {
	sw := make([]int, len(segs))
	total := 0
	for i, s := range segs {
		sw[i] = len(s) / 8
		total += sw[i]
	}
	if total == 0 {
		return nil
	}
	n := rapid.IntRange(1, k).Draw(t, "nmut")
	var out []Mutation
	for i := 0; i < n; i++ {
		seg := rapid.IntRange(0, len(segs)-1).Draw(t, "mseg")
		if sw[seg] == 0 {
			continue
		}
		w := rapid.IntRange(0, sw[seg]-1).Draw(t, "mword")
		if seg == 0 && w == 0 && sw[0] > 1 && rapid.IntRange(0, 7).Draw(t, "rootok") != 0 {
			w = rapid.IntRange(1, sw[0]-1).Draw(t, "mword2") // mostly leave the root pointer alone: deeper pointers are more interesting
		}
		out = append(out, Mutation{seg, w, HostileWord(t, WordCtx{SegWords: sw, Seg: seg, Word: w})})
	}
	return out
}

// Apply applies mutations in place.
func Apply(segs [][]byte, muts []Mutation) {
	for _, m := range muts {
		if m.Seg < len(segs) && (m.Word+1)*8 <= len(segs[m.Seg]) {
			binary.LittleEndian.PutUint64(segs[m.Seg][m.Word*8:], m.Val)
		}
	}
}
