package gen

import (
	"capnproto.org/go/capnp/v3/verifharness/ref"
	"pgregory.net/rapid"
)

// Relayout returns a value that denotes the same thing as v under the
// documented equality/versioning rules but is shaped differently: structs get
// trailing zero data words / null pointers, struct lists get larger elements,
// and (when upgrade is true) non-empty primitive, pointer and void lists are
// re-expressed as struct lists holding the value as sole (first) field.
func Relayout(t *rapid.T, v ref.Value, upgrade bool) ref.Value {
	switch v.Kind {
	case ref.KStruct:
		out := ref.Value{Kind: ref.KStruct, Data: append(ref.Bytes(nil), v.Data...)}
		for _, p := range v.Ptrs {
			out.Ptrs = append(out.Ptrs, Relayout(t, p, upgrade))
		}
		if rapid.IntRange(0, 2).Draw(t, "padstruct") == 0 {
			out.Data = append(out.Data, make([]byte, 8*rapid.IntRange(0, 2).Draw(t, "padd"))...)
			for i := rapid.IntRange(0, 2).Draw(t, "padp"); i > 0; i-- {
				out.Ptrs = append(out.Ptrs, ref.Null())
			}
		}
		return out
	case ref.KList:
		out := v
		switch v.LK {
		case ref.LPtr:
			out.Elems = make([]ref.Value, len(v.Elems))
			for i, e := range v.Elems {
				out.Elems[i] = Relayout(t, e, upgrade)
			}
		case ref.LComposite:
			pd, pp := 0, 0
			if rapid.IntRange(0, 2).Draw(t, "padcomp") == 0 {
				pd, pp = rapid.IntRange(0, 2).Draw(t, "cpadd"), rapid.IntRange(0, 2).Draw(t, "cpadp")
			}
			out.DW, out.PC = v.DW+pd, v.PC+pp
			out.Elems = make([]ref.Value, len(v.Elems))
			for i, e := range v.Elems {
				ne := ref.Value{Kind: ref.KStruct, Data: append(append(ref.Bytes(nil), e.Data...), make([]byte, 8*pd)...)}
				for _, p := range e.Ptrs {
					ne.Ptrs = append(ne.Ptrs, Relayout(t, p, upgrade))
				}
				for j := 0; j < pp; j++ {
					ne.Ptrs = append(ne.Ptrs, ref.Null())
				}
				out.Elems[i] = ne
			}
			return out
		}
		if upgrade && v.N > 0 && v.LK != ref.LBit && v.LK != ref.LComposite && rapid.IntRange(0, 2).Draw(t, "upgrade") == 0 {
			// list upgrade: same elements as structs
			extraD, extraP := rapid.IntRange(0, 1).Draw(t, "upd"), rapid.IntRange(0, 1).Draw(t, "upp")
			c := ref.Value{Kind: ref.KList, LK: ref.LComposite, N: v.N}
			switch v.LK {
			case ref.LVoid:
				c.DW, c.PC = extraD, extraP
			case ref.LPtr:
				c.DW, c.PC = extraD, 1+extraP
			default:
				c.DW, c.PC = 1+extraD, extraP
			}
			sz := v.LK.ElemBytes()
			for i := 0; i < v.N; i++ {
				e := ref.Value{Kind: ref.KStruct, Data: make([]byte, 8*c.DW)}
				if sz > 0 {
					copy(e.Data, v.Prim[i*sz:(i+1)*sz])
				}
				for j := 0; j < c.PC; j++ {
					if v.LK == ref.LPtr && j == 0 {
						e.Ptrs = append(e.Ptrs, out.Elems[i])
					} else {
						e.Ptrs = append(e.Ptrs, ref.Null())
					}
				}
				c.Elems = append(c.Elems, e)
			}
			return c
		}
		return out
	}
	return v
}

// leafCount counts mutation sites.
func sites(v ref.Value) int {
	n := 1
	switch v.Kind {
	case ref.KStruct:
		for _, p := range v.Ptrs {
			n += sites(p)
		}
	case ref.KList:
		for _, e := range v.Elems {
			n += sites(e)
		}
	}
	return n
}

// MutateOne changes exactly one thing somewhere in v (one data bit, one list
// element, one length, one pointer's nullness, one capability index) and
// returns the mutant and a short description.  ok=false if nothing could be
// changed at the chosen site.
func MutateOne(t *rapid.T, v ref.Value) (ref.Value, string, bool) {
	target := rapid.IntRange(0, sites(v)-1).Draw(t, "site")
	how := rapid.IntRange(0, 7).Draw(t, "how")
	bit := rapid.IntRange(0, 1<<16).Draw(t, "bit")
	idx := 0
	desc := ""
	done := false
	var rec func(v ref.Value, isElem bool) ref.Value
	rec = func(v ref.Value, isElem bool) ref.Value {
		me := idx
		idx++
		out := v
		if me == target && isElem {
			// an element of a struct list: only its data can change in place
			if len(v.Data) > 0 {
				done = true
				desc = "composite-elem-data-bit"
				out.Data = append(ref.Bytes(nil), v.Data...)
				b := bit % (len(v.Data) * 8)
				out.Data[b/8] ^= 1 << uint(b%8)
				return out
			}
		} else if me == target {
			done = true
			switch v.Kind {
			case ref.KNull:
				desc = "null->empty-struct"
				return ref.Value{Kind: ref.KStruct}
			case ref.KCap:
				desc = "cap-index"
				out.Cap = v.Cap + 1
				return out
			case ref.KStruct:
				if len(v.Data) > 0 && how < 5 {
					desc = "struct-data-bit"
					out.Data = append(ref.Bytes(nil), v.Data...)
					b := bit % (len(v.Data) * 8)
					out.Data[b/8] ^= 1 << uint(b%8)
					return out
				}
				if how == 5 {
					desc = "struct->null"
					return ref.Null()
				}
				desc = "struct-extra-nonzero-word"
				out.Data = append(append(ref.Bytes(nil), v.Data...), 1, 0, 0, 0, 0, 0, 0, 0)
				return out
			case ref.KList:
				switch {
				case how == 5:
					desc = "list->null"
					return ref.Null()
				case how == 6 || v.N == 0:
					desc = "list-length+1"
					out.N = v.N + 1
					switch v.LK {
					case ref.LBit:
						out.Bits = append(append([]bool(nil), v.Bits...), false)
					case ref.LB1, ref.LB2, ref.LB4, ref.LB8:
						out.Prim = append(append(ref.Bytes(nil), v.Prim...), make([]byte, v.LK.ElemBytes())...)
					case ref.LPtr:
						out.Elems = append(append([]ref.Value(nil), v.Elems...), ref.Null())
					case ref.LComposite:
						e := ref.Value{Kind: ref.KStruct, Data: make([]byte, 8*v.DW)}
						for j := 0; j < v.PC; j++ {
							e.Ptrs = append(e.Ptrs, ref.Null())
						}
						out.Elems = append(append([]ref.Value(nil), v.Elems...), e)
					}
					return out
				case v.LK == ref.LBit:
					desc = "bitlist-bit"
					out.Bits = append([]bool(nil), v.Bits...)
					out.Bits[bit%v.N] = !out.Bits[bit%v.N]
					return out
				case v.LK.ElemBytes() > 0:
					desc = "primlist-bit"
					out.Prim = append(ref.Bytes(nil), v.Prim...)
					b := bit % (len(v.Prim) * 8)
					out.Prim[b/8] ^= 1 << uint(b%8)
					return out
				case v.LK == ref.LVoid:
					desc = "voidlist-length+1"
					out.N = v.N + 1
					return out
				}
				done = false // pointer/composite list: descend instead
			}
		}
		switch v.Kind {
		case ref.KStruct:
			out.Ptrs = make([]ref.Value, len(v.Ptrs))
			for i, p := range v.Ptrs {
				out.Ptrs[i] = rec(p, false)
			}
		case ref.KList:
			if len(v.Elems) > 0 {
				out.Elems = make([]ref.Value, len(v.Elems))
				for i, e := range v.Elems {
					out.Elems[i] = rec(e, v.LK == ref.LComposite)
				}
			}
		}
		return out
	}
	m := rec(v, false)
	return m, desc, done
}
