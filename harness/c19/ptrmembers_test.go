package c19

import (
	"context"
	"fmt"

	capnp "capnproto.org/go/capnp/v3"
	air "capnproto.org/go/capnp/v3/internal/aircraftlib"
	"capnproto.org/go/capnp/v3/pogs"
	"capnproto.org/go/capnp/v3/verifharness/hx"
	"capnproto.org/go/capnp/v3/verifharness/pbt"
	"pgregory.net/rapid"
)

// The union members of aircraftlib.Z that hold capabilities and untyped pointers (echo, echoes, anyPtr, anyStruct,
// anyList, anyCapability), through every Go type the pogs documentation admits for them: a struct wrapping a
// "Client" field or a bare *capnp.Client for interfaces; capnp.Ptr / capnp.Struct / capnp.List / *capnp.Client for
// AnyPointer.

type PCase struct {
	Member string   `json:"member"`       // echo echoes anyPtr anyStruct anyList anyCapability
	Bare   bool     `json:"bare"`         // interfaces as *capnp.Client instead of the wrapper struct
	Caps   []int    `json:"caps"`         // which capability (0..2) each slot holds; -1 = null client
	Text   hx.Bytes `json:"text"`         // content of the pointee (anyPtr: text; anyStruct: text field; anyList: bytes)
	Vals   []uint64 `json:"vals"`         // anyStruct data word / anyList elements
	PKind  int      `json:"pkind"`        // anyPtr: 0 null 1 text 2 struct 3 list 4 capability
	ByAcc  bool     `json:"by_accessors"` // the message is built with the generated setters instead of pogs.Insert
}

type capHook struct{ id int }

func (h *capHook) Send(ctx context.Context, s capnp.Send) (*capnp.Answer, capnp.ReleaseFunc) {
	return capnp.ErrorAnswer(s.Method, fmt.Errorf("cap %d", h.id)), func() {}
}
func (h *capHook) Recv(ctx context.Context, r capnp.Recv) capnp.PipelineCaller {
	r.Reject(fmt.Errorf("cap %d", h.id))
	return nil
}
func (h *capHook) Brand() capnp.Brand { return capnp.Brand{Value: h} }
func (h *capHook) Shutdown()          {}

// Go types for Z restricted to one member each (pogs maps by field name; Which selects the member).
type zEcho struct {
	Which air.Z_Which
	Echo  air.Echo
}
type zEchoBare struct {
	Which air.Z_Which
	Echo  *capnp.Client
}
type zEchoes struct {
	Which  air.Z_Which
	Echoes []air.Echo
}
type zEchoesBare struct {
	Which  air.Z_Which
	Echoes []*capnp.Client
}
type zAnyPtr struct {
	Which  air.Z_Which
	AnyPtr capnp.Ptr
}
type zAnyStruct struct {
	Which     air.Z_Which
	AnyStruct capnp.Struct
}
type zAnyList struct {
	Which   air.Z_Which
	AnyList capnp.List
}
type zAnyCap struct {
	Which         air.Z_Which
	AnyCapability *capnp.Client
}

func sameClient(got, want *capnp.Client) bool {
	if !want.IsValid() {
		return !got.IsValid()
	}
	return got.IsValid() && got.IsSame(want)
}

func runPtrMembers(c PCase) (pbt.Result, error) {
	var res pbt.Result
	res.Class("member:%s", c.Member)
	res.Class("by-accessors:%v", c.ByAcc)
	clients := make([]*capnp.Client, 3)
	for i := range clients {
		clients[i] = capnp.NewClient(&capHook{id: i})
		defer clients[i].Release()
	}
	pick := func(k int) *capnp.Client {
		if k < 0 || len(c.Caps) == 0 {
			return nil
		}
		return clients[k%3]
	}
	capAt := func(i int) *capnp.Client {
		if i >= len(c.Caps) {
			return nil
		}
		return pick(c.Caps[i])
	}
	// the pointee of the any* members lives in a message of its own
	_, sseg, _ := capnp.NewMessage(capnp.SingleSegment(nil))
	var srcPtr capnp.Ptr
	switch {
	case c.Member == "anyStruct" || (c.Member == "anyPtr" && c.PKind == 2):
		st, _ := capnp.NewStruct(sseg, capnp.ObjectSize{DataSize: 8, PointerCount: 1})
		if len(c.Vals) > 0 {
			st.SetUint64(0, c.Vals[0])
		}
		st.SetTextFromBytes(0, c.Text)
		srcPtr = st.ToPtr()
	case c.Member == "anyList" || (c.Member == "anyPtr" && c.PKind == 3):
		l, _ := capnp.NewUInt64List(sseg, int32(len(c.Vals)))
		for i, v := range c.Vals {
			l.Set(i, v)
		}
		srcPtr = l.ToPtr()
	case c.Member == "anyPtr" && c.PKind == 1:
		t, _ := capnp.NewTextFromBytes(sseg, append(append([]byte{}, c.Text...), 'x'))
		srcPtr = t.ToPtr()
	case c.Member == "anyPtr" && c.PKind == 4:
		if cl := capAt(0); cl != nil {
			srcPtr = capnp.NewInterface(sseg, sseg.Message().AddCap(cl.AddRef())).ToPtr()
		}
	}

	msg, seg, _ := capnp.NewMessage(capnp.SingleSegment(nil))
	msg.TraverseLimit = 1 << 40
	z, err := air.NewRootZ(seg)
	if err != nil {
		return res, err
	}
	var which air.Z_Which
	var in interface{}
	switch c.Member {
	case "echo":
		which = air.Z_Which_echo
		if c.Bare {
			in = &zEchoBare{Which: which, Echo: capAt(0)}
		} else {
			in = &zEcho{Which: which, Echo: air.Echo{Client: capAt(0)}}
		}
	case "echoes":
		which = air.Z_Which_echoes
		if c.Bare {
			v := &zEchoesBare{Which: which}
			for i := range c.Caps {
				v.Echoes = append(v.Echoes, capAt(i))
			}
			in = v
		} else {
			v := &zEchoes{Which: which}
			for i := range c.Caps {
				v.Echoes = append(v.Echoes, air.Echo{Client: capAt(i)})
			}
			in = v
		}
	case "anyPtr":
		which = air.Z_Which_anyPtr
		in = &zAnyPtr{Which: which, AnyPtr: srcPtr}
	case "anyStruct":
		which = air.Z_Which_anyStruct
		in = &zAnyStruct{Which: which, AnyStruct: srcPtr.Struct()}
	case "anyList":
		which = air.Z_Which_anyList
		in = &zAnyList{Which: which, AnyList: srcPtr.List()}
	case "anyCapability":
		which = air.Z_Which_anyCapability
		in = &zAnyCap{Which: which, AnyCapability: capAt(0)}
	default:
		return res, fmt.Errorf("unknown member %q", c.Member)
	}
	capPtr := func(cl *capnp.Client) capnp.Ptr {
		if !cl.IsValid() {
			return capnp.Ptr{}
		}
		return capnp.NewInterface(seg, msg.AddCap(cl.AddRef())).ToPtr()
	}
	if c.ByAcc {
		// the message is built by other means: the generated setters
		switch c.Member {
		case "echo":
			err = z.SetEcho(air.Echo{Client: capAt(0).AddRef()})
		case "echoes":
			var pl capnp.PointerList
			pl, err = z.NewEchoes(int32(len(c.Caps)))
			for i := 0; err == nil && i < len(c.Caps); i++ {
				err = pl.Set(i, capPtr(capAt(i)))
			}
		case "anyPtr":
			err = z.SetAnyPtr(srcPtr)
		case "anyStruct":
			err = z.SetAnyStruct(srcPtr)
		case "anyList":
			err = z.SetAnyList(srcPtr)
		case "anyCapability":
			err = z.SetAnyCapability(capPtr(capAt(0)))
		}
		if err != nil {
			return res, pbt.Fail("setter-error", "%s: %v", c.Member, err)
		}
	} else if err := pogs.Insert(air.Z_TypeID, z.Struct, in); err != nil {
		return res, pbt.Fail("insert-error", "pogs.Insert of a Z with member %s (%T): %v", c.Member, in, err)
	}
	if z.Which() != which {
		return res, pbt.Fail("which", "after writing member %s, Which() = %v", c.Member, z.Which())
	}
	// what the generated accessors say
	equalPtr := func(got capnp.Ptr, what string) error {
		ok, err := capnp.Equal(got, srcPtr)
		if err != nil || !ok {
			return pbt.Fail("pointee-differs/"+what, "%s member %s: the pointee differs from what was stored (equal=%v err=%v)", what, c.Member, ok, err)
		}
		if srcPtr.IsValid() && got.IsValid() && got.Message() == srcPtr.Message() {
			return pbt.Fail("pointee-not-copied/"+what, "%s member %s still points into the source message", what, c.Member)
		}
		return nil
	}
	if !c.ByAcc {
		switch c.Member {
		case "echo":
			if !sameClient(z.Echo().Client, capAt(0)) {
				return res, pbt.Fail("insert-differs-from-accessors/echo", "Echo() after Insert is not the inserted capability")
			}
		case "echoes":
			pl, err := z.Echoes()
			if err != nil || pl.Len() != len(c.Caps) {
				return res, pbt.Fail("insert-differs-from-accessors/echoes", "Echoes(): len %d err %v, want %d", pl.Len(), err, len(c.Caps))
			}
			for i := range c.Caps {
				p, err := pl.At(i)
				if err != nil || !sameClient(p.Interface().Client(), capAt(i)) {
					return res, pbt.Fail("insert-differs-from-accessors/echoes", "Echoes()[%d] after Insert is not the inserted capability (err %v)", i, err)
				}
			}
		case "anyCapability":
			p, err := z.AnyCapability()
			if err != nil || !sameClient(p.Interface().Client(), capAt(0)) {
				return res, pbt.Fail("insert-differs-from-accessors/anyCapability", "AnyCapability() after Insert is not the inserted capability (err %v)", err)
			}
		case "anyPtr", "anyStruct", "anyList":
			var p capnp.Ptr
			switch c.Member {
			case "anyPtr":
				p, err = z.AnyPtr()
			case "anyStruct":
				p, err = z.AnyStruct()
			default:
				p, err = z.AnyList()
			}
			if err != nil {
				return res, pbt.Fail("insert-differs-from-accessors/"+c.Member, "accessor error: %v", err)
			}
			if c.Member == "anyPtr" && c.PKind == 4 {
				if !sameClient(p.Interface().Client(), capAt(0)) {
					return res, pbt.Fail("insert-differs-from-accessors/anyPtr", "AnyPtr() after Insert is not the inserted capability")
				}
			} else if e := equalPtr(p, "accessor"); e != nil {
				return res, e
			}
		}
	}
	// what Extract says
	var out interface{}
	switch v := in.(type) {
	case *zEcho:
		out = &zEcho{}
	case *zEchoBare:
		out = &zEchoBare{}
	case *zEchoes:
		out = &zEchoes{}
	case *zEchoesBare:
		out = &zEchoesBare{}
	case *zAnyPtr:
		out = &zAnyPtr{}
	case *zAnyStruct:
		out = &zAnyStruct{}
	case *zAnyList:
		out = &zAnyList{}
	case *zAnyCap:
		out = &zAnyCap{}
	default:
		_ = v
	}
	if err := pogs.Extract(out, air.Z_TypeID, z.Struct); err != nil {
		return res, pbt.Fail("extract-error", "pogs.Extract of a Z with member %s into %T: %v", c.Member, out, err)
	}
	fail := func(what string, args ...interface{}) (pbt.Result, error) {
		return res, pbt.Fail("extract-differs/"+c.Member, what, args...)
	}
	switch o := out.(type) {
	case *zEcho:
		if o.Which != which || !sameClient(o.Echo.Client, capAt(0)) {
			return fail("extracted Which=%v, capability same=%v", o.Which, sameClient(o.Echo.Client, capAt(0)))
		}
	case *zEchoBare:
		if o.Which != which || !sameClient(o.Echo, capAt(0)) {
			return fail("extracted Which=%v, capability same=%v", o.Which, sameClient(o.Echo, capAt(0)))
		}
	case *zEchoes:
		if o.Which != which || len(o.Echoes) != len(c.Caps) {
			return fail("extracted Which=%v, %d capabilities, want %d", o.Which, len(o.Echoes), len(c.Caps))
		}
		for i := range c.Caps {
			if !sameClient(o.Echoes[i].Client, capAt(i)) {
				return fail("extracted Echoes[%d] is not the stored capability", i)
			}
		}
	case *zEchoesBare:
		if o.Which != which || len(o.Echoes) != len(c.Caps) {
			return fail("extracted Which=%v, %d capabilities, want %d", o.Which, len(o.Echoes), len(c.Caps))
		}
		for i := range c.Caps {
			if !sameClient(o.Echoes[i], capAt(i)) {
				return fail("extracted Echoes[%d] is not the stored capability", i)
			}
		}
	case *zAnyPtr:
		if o.Which != which {
			return fail("extracted Which=%v", o.Which)
		}
		if c.PKind == 4 {
			if !sameClient(o.AnyPtr.Interface().Client(), capAt(0)) {
				return fail("extracted AnyPtr is not the stored capability")
			}
		} else if e := equalPtr(o.AnyPtr, "extracted"); e != nil {
			return res, e
		}
	case *zAnyStruct:
		if o.Which != which {
			return fail("extracted Which=%v", o.Which)
		}
		if e := equalPtr(o.AnyStruct.ToPtr(), "extracted"); e != nil {
			return res, e
		}
	case *zAnyList:
		if o.Which != which {
			return fail("extracted Which=%v", o.Which)
		}
		if e := equalPtr(o.AnyList.ToPtr(), "extracted"); e != nil {
			return res, e
		}
	case *zAnyCap:
		if o.Which != which || !sameClient(o.AnyCapability, capAt(0)) {
			return fail("extracted Which=%v, capability same=%v", o.Which, sameClient(o.AnyCapability, capAt(0)))
		}
	}
	res.Nontrivial = len(c.Caps) > 0 || srcPtr.IsValid()
	return res, nil
}

var _ = pbt.Register(pbt.Spec[PCase]{
	Property: "C19", Name: "pointer-members",
	Rule:  "Go values for the capability and untyped-pointer members of aircraftlib.Z - echo, echoes (0-4 entries incl. null clients), anyPtr (null, text, struct, list, capability), anyStruct, anyList, anyCapability - through every Go type the pogs documentation admits (wrapper struct with a Client field or bare *capnp.Client; capnp.Ptr / Struct / List / *capnp.Client); the message is written by pogs.Insert or, in half of the cases, by the generated setters. Oracle: Which() selects the member; the generated accessors return the inserted capability (IsSame) or a pointee Equal to the source that lives in the target message; pogs.Extract into the same Go type returns the same discriminant, the same capabilities (null for null) and Equal pointees. Non-trivial: at least one capability or a non-null pointee.",
	Quick: 3000, Thorough: 50000,
	Gen: func(t *rapid.T) PCase {
		c := PCase{Member: rapid.SampledFrom([]string{"echo", "echoes", "anyPtr", "anyStruct", "anyList", "anyCapability"}).Draw(t, "member"),
			Bare: rapid.Bool().Draw(t, "bare"), ByAcc: rapid.Bool().Draw(t, "byacc"), PKind: rapid.IntRange(0, 4).Draw(t, "pkind")}
		n := 1
		if c.Member == "echoes" {
			n = rapid.IntRange(0, 4).Draw(t, "ncaps")
		}
		for i := 0; i < n; i++ {
			c.Caps = append(c.Caps, rapid.IntRange(-1, 2).Draw(t, "cap"))
		}
		b := rapid.SliceOfN(rapid.Byte(), 0, 20).Draw(t, "text")
		for i := range b {
			if b[i] == 0 {
				b[i] = 1
			}
		}
		c.Text = b
		c.Vals = rapid.SliceOfN(rapid.Uint64(), 0, 5).Draw(t, "vals")
		return c
	},
	Run: runPtrMembers,
})
