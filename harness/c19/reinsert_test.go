package c19

import (
	capnp "capnproto.org/go/capnp/v3"
	air "capnproto.org/go/capnp/v3/internal/aircraftlib"
	"capnproto.org/go/capnp/v3/pogs"
	"capnproto.org/go/capnp/v3/verifharness/mirror"
	"capnproto.org/go/capnp/v3/verifharness/pbt"
	"pgregory.net/rapid"
)

// Insert into a struct that is not fresh: it was filled by an earlier Insert (or by the generated setters).  The
// second value replaces the first completely: a nil slice clears the list, an empty string clears the text.

type reCase struct {
	Tape1 []uint64 `json:"tape1"`
	Tape2 []uint64 `json:"tape2"`
}

func genPB(s mirror.Src) *mirror.PlaneBase {
	for i := 0; i < 4; i++ {
		if pb := mirror.GenPlaneBase(s); pb != nil {
			return pb
		}
	}
	return &mirror.PlaneBase{}
}

func readPB(g air.PlaneBase) (mirror.PlaneBase, error) {
	nb, err := g.NameBytes()
	if err != nil {
		return mirror.PlaneBase{}, err
	}
	got := mirror.PlaneBase{Name: string(nb), Rating: g.Rating(), CanFly: g.CanFly(), Capacity: g.Capacity(), MaxSpeed: g.MaxSpeed()}
	h, err := g.Homes()
	if err != nil {
		return got, err
	}
	for i := 0; i < h.Len(); i++ {
		got.Homes = append(got.Homes, h.At(i))
	}
	return got, nil
}

func runReinsert(c reCase) (pbt.Result, error) {
	var res pbt.Result
	v1, v2 := genPB(&mirror.Tape{Vals: c.Tape1}), genPB(&mirror.Tape{Vals: c.Tape2})
	_, seg, _ := capnp.NewMessage(capnp.SingleSegment(nil))
	g, err := air.NewRootPlaneBase(seg)
	if err != nil {
		return res, pbt.Fail("harness/new", "%v", err)
	}
	if err := pogs.Insert(air.PlaneBase_TypeID, g.Struct, v1); err != nil {
		return res, pbt.Fail("insert-error/first", "%v", err)
	}
	if err := pogs.Insert(air.PlaneBase_TypeID, g.Struct, v2); err != nil {
		return res, pbt.Fail("insert-error/second", "%v", err)
	}
	got, err := readPB(g)
	if err != nil {
		return res, pbt.Fail("generated-accessor-error", "%v", err)
	}
	if e := sameVal(&got, v2); e != nil {
		return res, pbt.Fail("reinsert-differs-from-accessors", "after Insert(v1) and Insert(v2) into the same struct the generated accessors do not show v2: %v (v1 had %d homes and name %q)", e, len(v1.Homes), v1.Name)
	}
	if (len(v2.Homes) == 0) == g.HasHomes() && len(v2.Homes) == 0 {
		return res, pbt.Fail("reinsert-differs-from-accessors", "v2 has no homes but HasHomes() is true after the second Insert (v1 had %d)", len(v1.Homes))
	}
	out := &mirror.PlaneBase{}
	if err := pogs.Extract(out, air.PlaneBase_TypeID, g.Struct); err != nil {
		return res, pbt.Fail("extract-error", "%v", err)
	}
	if e := sameVal(out, v2); e != nil {
		return res, pbt.Fail("reinsert-roundtrip-differs", "Extract after Insert(v1), Insert(v2) != v2: %v", e)
	}
	res.Class("v1-homes:%v", len(v1.Homes) > 0)
	res.Class("v2-homes:%v", len(v2.Homes) > 0)
	res.Nontrivial = len(v1.Homes) > 0 && len(v2.Homes) == 0 || v1.Name != "" && v2.Name == ""
	return res, nil
}

var _ = pbt.Register(pbt.Spec[reCase]{
	Property: "C19", Name: "insert-twice",
	Rule:  "two PlaneBase values inserted one after the other into the same struct (a destination that is not fresh). Oracle: the generated accessors and Extract show exactly the second value - a nil/empty Homes clears the list (HasHomes false), an empty Name clears the text. Non-trivial: the first value has a list or a name that the second lacks.",
	Quick: 3000, Thorough: 30000,
	Gen: func(t *rapid.T) reCase {
		r1, r2 := &mirror.Rapid{T: t}, &mirror.Rapid{T: t}
		genPB(r1)
		genPB(r2)
		return reCase{Tape1: r1.Tape, Tape2: r2.Tape}
	},
	Run: runReinsert,
})
