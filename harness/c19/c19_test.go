package c19

import (
	"bytes"
	"fmt"
	"math"
	"reflect"
	"testing"

	capnp "capnproto.org/go/capnp/v3"
	air "capnproto.org/go/capnp/v3/internal/aircraftlib"
	"capnproto.org/go/capnp/v3/pogs"
	"capnproto.org/go/capnp/v3/verifharness/gen"
	"capnproto.org/go/capnp/v3/verifharness/hx"
	"capnproto.org/go/capnp/v3/verifharness/mirror"
	"capnproto.org/go/capnp/v3/verifharness/pbt"
	"capnproto.org/go/capnp/v3/verifharness/ref"
	"pgregory.net/rapid"
)

func TestProp(t *testing.T)   { pbt.RunProps(t) }
func TestReplay(t *testing.T) { pbt.RunReplay(t) }

// same reports deep equality where NaNs equal NaNs bit-for-bit-agnostically,
// and nil slices / empty slices are equivalent (the documented nil/empty rule).
func same(a, b reflect.Value, path string) error {
	if a.Type() != b.Type() {
		return fmt.Errorf("%s: type %v vs %v", path, a.Type(), b.Type())
	}
	switch a.Kind() {
	case reflect.Ptr:
		if a.IsNil() || b.IsNil() {
			if a.IsNil() != b.IsNil() {
				return fmt.Errorf("%s: nil pointer vs non-nil", path)
			}
			return nil
		}
		if a.Type() == reflect.TypeOf((*capnp.Client)(nil)) {
			return nil
		}
		return same(a.Elem(), b.Elem(), path)
	case reflect.Struct:
		switch a.Type() {
		case reflect.TypeOf(capnp.Ptr{}), reflect.TypeOf(capnp.Struct{}), reflect.TypeOf(capnp.List{}), reflect.TypeOf(air.Echo{}):
			return nil
		}
		for i := 0; i < a.NumField(); i++ {
			if err := same(a.Field(i), b.Field(i), path+"."+a.Type().Field(i).Name); err != nil {
				return err
			}
		}
		return nil
	case reflect.Slice:
		if a.Len() != b.Len() {
			return fmt.Errorf("%s: length %d vs %d", path, a.Len(), b.Len())
		}
		if a.Type().Elem().Kind() == reflect.Uint8 {
			if !bytes.Equal(a.Bytes(), b.Bytes()) {
				return fmt.Errorf("%s: bytes %q vs %q", path, a.Bytes(), b.Bytes())
			}
			return nil
		}
		for i := 0; i < a.Len(); i++ {
			if err := same(a.Index(i), b.Index(i), fmt.Sprintf("%s[%d]", path, i)); err != nil {
				return err
			}
		}
		return nil
	case reflect.Float32, reflect.Float64:
		x, y := a.Float(), b.Float()
		if math.IsNaN(x) && math.IsNaN(y) {
			return nil
		}
		if math.Float64bits(x) != math.Float64bits(y) {
			return fmt.Errorf("%s: %v vs %v", path, x, y)
		}
		return nil
	default:
		if !reflect.DeepEqual(a.Interface(), b.Interface()) {
			return fmt.Errorf("%s: %v vs %v", path, a.Interface(), b.Interface())
		}
		return nil
	}
}

func sameVal(a, b interface{}) error {
	return same(reflect.ValueOf(a), reflect.ValueOf(b), "$")
}

// normZ applies the documented nil equivalences of the struct mapping to a Z
// *before* insertion: a nil struct pointer in a union member reads back as
// nil; everything else is preserved.
func activeOnly(z *mirror.Z) *mirror.Z {
	if z == nil {
		return nil
	}
	out := &mirror.Z{Which: z.Which}
	src, dst := reflect.ValueOf(z).Elem(), reflect.ValueOf(out).Elem()
	name := activeField(z.Which)
	if name != "" {
		dst.FieldByName(name).Set(src.FieldByName(name))
	}
	// recursion: nested Z values also keep only their active member
	switch z.Which {
	case air.Z_Which_zz:
		out.Zz = activeOnly(z.Zz)
	case air.Z_Which_zvec:
		out.Zvec = nil
		for _, c := range z.Zvec {
			out.Zvec = append(out.Zvec, activeOnly(c))
		}
	case air.Z_Which_zvecvec:
		out.Zvecvec = nil
		for _, r := range z.Zvecvec {
			var row []*mirror.Z
			for _, c := range r {
				row = append(row, activeOnly(c))
			}
			out.Zvecvec = append(out.Zvecvec, row)
		}
	}
	return out
}

var zFieldByWhich = map[air.Z_Which]string{
	1: "Zz", 2: "F64", 3: "F32", 4: "I64", 5: "I32", 6: "I16", 7: "I8", 8: "U64", 9: "U32", 10: "U16", 11: "U8",
	12: "Bool", 13: "Text", 14: "Blob", 15: "F64vec", 16: "F32vec", 17: "I64vec", 18: "I32vec", 19: "I16vec", 20: "I8vec",
	21: "U64vec", 22: "U32vec", 23: "U16vec", 24: "U8vec", 25: "Zvec", 26: "Zvecvec", 27: "Zdate", 28: "Zdata",
	29: "Aircraftvec", 30: "Aircraft", 31: "Regression", 32: "Planebase", 33: "Airport", 34: "B737", 35: "A320", 36: "F16",
	37: "Zdatevec", 38: "Zdatavec", 39: "Boolvec", 40: "Datavec", 41: "Textvec", 42: "Grp",
}

func activeField(w air.Z_Which) string { return zFieldByWhich[w] }

// nilledStructs: a nil *struct inserted into a struct-typed member is written as a
// null pointer and extracted as nil; a nil *Z inside a List(Z) cannot be expressed
// (elements are inline) and is normalised to the zero Z.
func normListElems(z *mirror.Z) {
	if z == nil {
		return
	}
	for i, c := range z.Zvec {
		if c == nil {
			z.Zvec[i] = &mirror.Z{}
		}
		normListElems(z.Zvec[i])
	}
	for _, r := range z.Zvecvec {
		for i, c := range r {
			if c == nil {
				r[i] = &mirror.Z{}
			}
			normListElems(r[i])
		}
	}
	normListElems(z.Zz)
}

// ---------------------------------------------------------------------------
// (a) Extract(Insert(v)) == v ; (c) inactive members are neither written nor read

type rtCase struct {
	Tape    []uint64 `json:"tape"`    // draws that rebuild the Go value
	Garbage []uint64 `json:"garbage"` // draws for the inactive members
	Arena   int      `json:"arena"`   // 0 single, 1 multi small
	Prefill uint64   `json:"prefill"` // pattern pre-filled into the root's data words before Insert (0 = none)
}

func buildValue(c rtCase) *mirror.Z {
	v := mirror.GenZ(&mirror.Tape{Vals: c.Tape}, 2)
	normListElems(v)
	return v
}

func fillGarbage(z *mirror.Z, tape []uint64) {
	g := mirror.GenZ(&mirror.Tape{Vals: tape}, 1)
	// copy every member of g that is not z's active member into z
	src, dst := reflect.ValueOf(g).Elem(), reflect.ValueOf(z).Elem()
	active := activeField(z.Which)
	for _, name := range zFieldByWhich {
		if name == active {
			continue
		}
		if f := src.FieldByName(name); !f.IsZero() {
			dst.FieldByName(name).Set(f)
		}
	}
	// some scalar garbage regardless
	if active != "U64" {
		z.U64 = 0xDEADBEEFCAFEF00D
	}
	if active != "Text" {
		z.Text = "garbage"
	}
	if active != "Grp" {
		z.Grp = &mirror.ZGroup{First: 0x1111111111111111, Second: 0x2222222222222222}
	}
}

var zInfo = func() *mirror.StructInfo {
	info, err := mirror.LoadStruct(air.Z_TypeID)
	if err != nil {
		panic(err)
	}
	return info
}()

// allowedBits returns the set of data bits Insert may write for the given active member.
func allowedBits(info *mirror.StructInfo, which uint16) map[int]bool {
	ok := map[int]bool{}
	for b := 0; b < 16; b++ {
		ok[info.DiscBitOff+b] = true
	}
	for _, f := range info.Fields {
		if f.Disc != which && f.Disc != 0xffff {
			continue
		}
		if f.Group != 0 {
			gi, err := mirror.LoadStruct(f.Group)
			if err == nil {
				for _, gf := range gi.Fields {
					if !gf.IsPointer {
						for b := 0; b < gf.Bits; b++ {
							ok[gf.BitOff+b] = true
						}
					}
				}
			}
			continue
		}
		if !f.IsPointer {
			for b := 0; b < f.Bits; b++ {
				ok[f.BitOff+b] = true
			}
		}
	}
	return ok
}

func runRoundtrip(c rtCase) (pbt.Result, error) {
	var res pbt.Result
	want := buildValue(c)
	v := buildValue(c) // separate copy that receives garbage in inactive members
	fillGarbage(v, c.Garbage)

	arena := capnp.Arena(capnp.SingleSegment(nil))
	if c.Arena == 1 {
		arena = capnp.MultiSegment([][]byte{make([]byte, 0, 40)})
	}
	msg, seg, err := capnp.NewMessage(arena)
	if err != nil {
		return res, pbt.Fail("harness/new-message", "%v", err)
	}
	msg.TraverseLimit = 1 << 40
	root, err := air.NewRootZ(seg)
	if err != nil {
		return res, pbt.Fail("harness/new-root", "%v", err)
	}
	// pre-fill the data section so that writes outside the active member are visible
	var before []byte
	if c.Prefill != 0 {
		for w := 0; w < zInfo.DataWords; w++ {
			root.Struct.SetUint64(capnp.DataOffset(w*8), c.Prefill)
		}
	}
	before = append(before, root.Struct.Segment().Data()...)
	rootOff := -1
	_ = rootOff
	if err := pogs.Insert(air.Z_TypeID, root.Struct, v); err != nil {
		return res, pbt.Fail("insert-error", "Insert failed for a well-typed value (which=%v): %v", v.Which, err)
	}
	res.Class("which:%v", want.Which)
	res.Nontrivial = isPointerMember(want.Which) || want.Which == air.Z_Which_grp

	// (c) only the discriminant and the active member's bits may have changed in the root's data section
	if c.Prefill != 0 {
		allowed := allowedBits(zInfo, uint16(want.Which))
		for w := 0; w < zInfo.DataWords; w++ {
			now := root.Struct.Uint64(capnp.DataOffset(w * 8))
			diff := now ^ c.Prefill
			for b := 0; b < 64; b++ {
				if diff&(1<<uint(b)) != 0 && !allowed[w*64+b] {
					return res, pbt.Fail("insert-writes-outside-active-member", "Insert(which=%v) changed data bit %d of the root struct, which belongs neither to the discriminant nor to the active member", want.Which, w*64+b)
				}
			}
		}
	}
	// the message must show only the active member through the generated accessors
	viaGen, err := mirror.FromGenerated(root)
	if err != nil {
		return res, pbt.Fail("generated-accessor-error", "%v", err)
	}
	if c.Prefill == 0 {
		if e := sameVal(viaGen, activeOnly(want)); e != nil {
			return res, pbt.Fail("insert-differs-from-accessors/"+activeField(want.Which), "value inserted by pogs differs when read through the generated accessors: %v", e)
		}
	}
	// (a) round trip; the destination holds garbage in every member: inactive ones must stay untouched
	out := &mirror.Z{Which: want.Which} // the active member starts out empty, all others hold garbage
	fillGarbage(out, c.Garbage)
	garbageBefore := &mirror.Z{Which: want.Which}
	fillGarbage(garbageBefore, c.Garbage)
	if c.Prefill == 0 {
		if err := pogs.Extract(out, air.Z_TypeID, root.Struct); err != nil {
			return res, pbt.Fail("extract-error", "%v", err)
		}
		// active member equals what went in
		got := activeOnly(out)
		if e := sameVal(got, activeOnly(want)); e != nil {
			return res, pbt.Fail("roundtrip-differs/"+activeField(want.Which), "Extract(Insert(v)) != v: %v", e)
		}
		// inactive members untouched
		o, g := reflect.ValueOf(out).Elem(), reflect.ValueOf(garbageBefore).Elem()
		for _, name := range zFieldByWhich {
			if name == activeField(want.Which) {
				continue
			}
			if e := same(o.FieldByName(name), g.FieldByName(name), "$."+name); e != nil {
				return res, pbt.Fail("extract-writes-inactive-member", "Extract(which=%v) modified the Go field of an inactive union member: %v", want.Which, e)
			}
		}
	}
	_ = before
	return res, nil
}

func isPointerMember(w air.Z_Which) bool {
	switch {
	case w == 1, w >= 13 && w <= 32, w >= 34 && w <= 41:
		return true
	}
	return false
}

var _ = pbt.Register(pbt.Spec[rtCase]{
	Property: "C19", Name: "roundtrip-z",
	Rule:  "Go values of a mirror of aircraftlib.Z (every union member: scalars with extremes/NaN, text/data with arbitrary bytes, all list kinds, nested Z / List(Z) / List(List(Z)), groups, struct pointers incl. nil, enums out of range), rebuilt from the tape of draws; inactive union members of the inserted value AND of the extraction target are filled with garbage; root optionally pre-filled with a bit pattern. Oracle: Insert succeeds; reading the message through the generated accessors shows exactly the active member's value; only the discriminant and the active member's bit range (from the schema node) change in the root's data words; Extract(Insert(v)) equals v on the active member (nil == empty slices) and leaves the Go fields of inactive members untouched. Non-trivial: active member is pointer-typed or a group.",
	Quick: 8000, Thorough: 80000,
	Gen: func(t *rapid.T) rtCase {
		r := &mirror.Rapid{T: t}
		mirror.GenZ(r, 2)
		g := &mirror.Rapid{T: t}
		mirror.GenZ(g, 1)
		c := rtCase{Tape: r.Tape, Garbage: g.Tape, Arena: rapid.IntRange(0, 1).Draw(t, "arena")}
		if rapid.Bool().Draw(t, "prefill") {
			c.Prefill = rapid.SampledFrom([]uint64{0xA5A5A5A5A5A5A5A5, 0xFFFFFFFFFFFFFFFF, 0x0123456789ABCDEF}).Draw(t, "pattern")
		}
		return c
	},
	Run: runRoundtrip,
})

// ---------------------------------------------------------------------------
// (b) messages built by other means: Extract == generated accessors

type agreeCase struct {
	Tape []uint64       `json:"tape"`
	Plan ref.Plan       `json:"plan"`
	Pad  []int          `json:"pad"`  // struct padding script (newer-version layouts)
	Disc int            `json:"disc"` // >=0: overwrite the root discriminant (fields read under another type)
	Muts []gen.Mutation `json:"mutations"`
}

// pad adds trailing zero words / null pointers to structs following the script (a message written by a newer schema version).
func padValue(v ref.Value, script []int, i *int) ref.Value {
	next := func() int {
		if len(script) == 0 {
			return 0
		}
		x := script[*i%len(script)]
		*i++
		return x
	}
	switch v.Kind {
	case ref.KStruct:
		out := ref.Value{Kind: ref.KStruct, Data: append(ref.Bytes(nil), v.Data...)}
		for _, p := range v.Ptrs {
			out.Ptrs = append(out.Ptrs, padValue(p, script, i))
		}
		switch next() % 4 {
		case 1:
			out.Data = append(out.Data, make([]byte, 8)...)
		case 2:
			out.Ptrs = append(out.Ptrs, ref.Null())
		case 3: // older version: drop trailing zero word / null pointer if any
			if n := len(out.Data); n >= 8 && allZero(out.Data[n-8:]) {
				out.Data = out.Data[:n-8]
			}
			if n := len(out.Ptrs); n > 0 && out.Ptrs[n-1].Kind == ref.KNull {
				out.Ptrs = out.Ptrs[:n-1]
			}
		}
		return out
	case ref.KList:
		out := v
		if len(v.Elems) > 0 {
			out.Elems = make([]ref.Value, len(v.Elems))
			if v.LK == ref.LComposite {
				extraD, extraP := 0, 0
				switch next() % 3 {
				case 1:
					extraD = 1
				case 2:
					extraP = 1
				}
				out.DW, out.PC = v.DW+extraD, v.PC+extraP
				for j, e := range v.Elems {
					ne := ref.Value{Kind: ref.KStruct, Data: append(append(ref.Bytes(nil), e.Data...), make([]byte, 8*extraD)...)}
					for _, p := range e.Ptrs {
						ne.Ptrs = append(ne.Ptrs, padValue(p, script, i))
					}
					for k := 0; k < extraP; k++ {
						ne.Ptrs = append(ne.Ptrs, ref.Null())
					}
					out.Elems[j] = ne
				}
			} else {
				for j, e := range v.Elems {
					out.Elems[j] = padValue(e, script, i)
				}
			}
		}
		return out
	}
	return v
}

func allZero(b []byte) bool {
	for _, x := range b {
		if x != 0 {
			return false
		}
	}
	return true
}

func runAgree(c agreeCase) (pbt.Result, error) {
	var res pbt.Result
	v := mirror.GenZ(&mirror.Tape{Vals: c.Tape}, 2)
	normListElems(v)
	// build with pogs, then re-encode the bytes independently in another layout / version shape
	msg0, seg, _ := capnp.NewMessage(capnp.SingleSegment(nil))
	root0, err := air.NewRootZ(seg)
	if err != nil {
		return res, pbt.Fail("harness/new-root", "%v", err)
	}
	if err := pogs.Insert(air.Z_TypeID, root0.Struct, v); err != nil {
		return res, pbt.Fail("insert-error", "%v", err)
	}
	plain, err := msg0.Marshal()
	if err != nil {
		return res, pbt.Fail("harness/marshal", "%v", err)
	}
	segs0, _, err := ref.Unframe(plain)
	if err != nil {
		return res, pbt.Fail("harness/unframe", "%v", err)
	}
	tree, err := ref.Decode(segs0, false)
	if err != nil {
		return res, pbt.Fail("harness/decode", "%v", err)
	}
	i := 0
	tree = padValue(tree, c.Pad, &i)
	L, err := ref.Encode(ref.FromValue(tree), c.Plan)
	if err != nil {
		return res, nil
	}
	raw := L.Segs
	if c.Disc >= 0 && tree.Kind == ref.KStruct && len(tree.Data) >= 2 {
		// locate the root struct's first data word and re-point the discriminant
		d := &ref.Decoder{Segs: raw}
		if t, err := d.Resolve(0, 0); err == nil && t.Kind == ref.KStruct {
			raw[t.Seg][t.Word*8] = byte(c.Disc)
			raw[t.Seg][t.Word*8+1] = byte(c.Disc >> 8)
		}
	}
	gen.Apply(raw, c.Muts)
	segs, _ := hx.Carve(raw)
	open := func() (air.Z, error) {
		limit := uint64(1 << 40)
		if len(c.Muts) > 0 {
			// a mutated word can announce a list of 2^29 elements; pogs spends ~0.5 ms per extracted struct
			limit = 64 << 10
		}
		m := &capnp.Message{Arena: capnp.MultiSegment(segs), TraverseLimit: limit}
		return air.ReadRootZ(m)
	}
	z, err := open()
	if err != nil {
		return res, nil
	}
	viaGen, gerr := mirror.FromGenerated(z)
	z2, _ := open()
	var viaPogs mirror.Z
	perr := pogs.Extract(&viaPogs, air.Z_TypeID, z2.Struct)
	res.Class("padded:%v", len(c.Pad) > 0)
	res.Class("disc-repointed:%v", c.Disc >= 0)
	res.Class("mutated:%v", len(c.Muts) > 0)
	res.Class("accessors-ok:%v", gerr == nil)
	res.Nontrivial = gerr == nil && (len(c.Pad) > 0 || c.Disc >= 0) && isPointerMember(z.Which())
	if gerr != nil {
		// the generated accessors hit an error in the (mutated) message: Extract may succeed only if it did not need that pointer; nothing to compare
		return res, nil
	}
	if perr != nil {
		if len(c.Muts) > 0 || int(z.Which()) >= 44 {
			return res, nil // hostile bytes or members this mirror does not map: either may stop with an error
		}
		return res, pbt.Fail("extract-error", "Extract failed where the generated accessors succeed (which=%v): %v", z.Which(), perr)
	}
	if int(z.Which()) >= 44 {
		return res, nil // capability-typed members (echo, echoes, any*) are not mirrored by FromGenerated
	}
	if e := sameVal(activeOnly(&viaPogs), activeOnly(viaGen)); e != nil {
		return res, pbt.Fail("extract-differs-from-accessors/"+activeField(z.Which()), "Extract shows a different value than the generated accessors (which=%v): %v", z.Which(), e)
	}
	return res, nil
}

var _ = pbt.Register(pbt.Spec[agreeCase]{
	Property: "C19", Name: "extract-vs-accessors",
	Rule:  "Z messages re-encoded by the independent encoder in other layouts (1-4 segments, far/double-far), with structs and struct-list elements padded/truncated like newer/older schema versions, optionally with the root discriminant re-pointed (the same bytes read as another member) or 1-2 hostile word mutations. Oracle: whenever the generated accessors read the whole active member without error, pogs.Extract succeeds and yields exactly the same values (defaults, discriminants, groups, lists). Non-trivial: padded or re-pointed message whose active member is pointer-typed.",
	Quick: 8000, Thorough: 80000,
	Gen: func(t *rapid.T) agreeCase {
		r := &mirror.Rapid{T: t}
		mirror.GenZ(r, 2)
		c := agreeCase{Tape: r.Tape, Plan: gen.Plan(t, 4), Disc: -1}
		if rapid.Bool().Draw(t, "pad") {
			c.Pad = rapid.SliceOfN(rapid.IntRange(0, 3), 1, 6).Draw(t, "padscript")
		}
		if rapid.IntRange(0, 3).Draw(t, "repoint") == 0 {
			c.Disc = rapid.IntRange(0, 47).Draw(t, "disc")
		}
		if rapid.IntRange(0, 5).Draw(t, "mutate") == 0 {
			msg0, seg, _ := capnp.NewMessage(capnp.SingleSegment(nil))
			root0, _ := air.NewRootZ(seg)
			v := mirror.GenZ(&mirror.Tape{Vals: r.Tape}, 2)
			normListElems(v)
			if pogs.Insert(air.Z_TypeID, root0.Struct, v) == nil {
				if plain, err := msg0.Marshal(); err == nil {
					if segs0, _, err := ref.Unframe(plain); err == nil {
						if tree, err := ref.Decode(segs0, false); err == nil {
							i := 0
							if L, err := ref.Encode(ref.FromValue(padValue(tree, c.Pad, &i)), c.Plan); err == nil {
								c.Muts = gen.MutateWords(t, L.Segs, 2)
							}
						}
					}
				}
			}
		}
		return c
	},
	Run: runAgree,
})

// ---------------------------------------------------------------------------
// (d) renamed / omitted / embedded fields and default-valued fields

type pbRenamed struct {
	Title    string `capnp:"name"`
	Homes    []air.Airport
	Score    int64 `capnp:"rating"`
	CanFly   bool
	Capacity int64
	Top      float64 `capnp:"maxSpeed"`
	Ignored  int     `capnp:"-"`
}

type l3 struct {
	Rating   int64
	Capacity int64
}
type l2 struct {
	l3
	CanFly bool
}
type l1 struct {
	l2
	MaxSpeed float64
}
type pbDeep struct {
	l1
	Name  string
	Homes []air.Airport
}

// exported embedded variant (pogs only looks at exported embedded types' exported fields; unexported embedded struct types are still traversed like encoding/json)
type L3 struct {
	Rating   int64
	Capacity int64
}
type L2 struct {
	L3
	CanFly bool
}
type L1 struct {
	L2
	MaxSpeed float64
}
type PBDeep struct {
	L1
	Name  string
	Homes []air.Airport
}

type pbBytesName struct {
	Name     []byte
	Homes    []air.Airport
	Rating   int64
	CanFly   bool
	Capacity int64
	MaxSpeed float64
}

type b737Named struct {
	PBCore `capnp:"base"`
}
type PBCore struct {
	Name   string
	Rating int64
}

// visibility rules for fields that reach the same schema field through anonymous embedding (doc.go, "Embedding")
type visA struct{ Name string }
type visB struct {
	Label string `capnp:"name"`
}
type visC struct{ Name string }
type visD struct {
	Other string `capnp:"name"`
}
type pbTaggedWins struct { // same depth, one tagged: the tagged one is the field
	visA
	visB
	Rating int64
}
type pbConflict struct { // same depth, both untagged: both ignored, no error
	visA
	visC
	Rating int64
}
type pbShallow struct { // the less nested one is the field
	visA
	Name   string
	Rating int64
}
type pbTagCollision struct { // same depth, both tagged: both ignored, no error
	visB
	visD
	Rating int64
}
type zTextvecBytes struct { // List(Text) as [][]byte
	Which   air.Z_Which
	Textvec [][]byte
}

type variantCase struct {
	Variant int      `json:"variant"`
	Tape    []uint64 `json:"tape"`
}

func canonFromVariant(variant int, s mirror.Src) (val interface{}, canon mirror.PlaneBase, typeID uint64) {
	pb := mirror.GenPlaneBase(s)
	if pb == nil {
		pb = &mirror.PlaneBase{}
	}
	switch variant {
	case 0:
		return &pbRenamed{Title: pb.Name, Homes: pb.Homes, Score: pb.Rating, CanFly: pb.CanFly, Capacity: pb.Capacity, Top: pb.MaxSpeed, Ignored: 99}, *pb, air.PlaneBase_TypeID
	case 1:
		v := &PBDeep{Name: pb.Name, Homes: pb.Homes}
		v.Rating, v.Capacity, v.CanFly, v.MaxSpeed = pb.Rating, pb.Capacity, pb.CanFly, pb.MaxSpeed
		return v, *pb, air.PlaneBase_TypeID
	case 2:
		var nb []byte
		if pb.Name != "" || s.Int(0, 1) == 1 {
			nb = []byte(pb.Name)
		}
		return &pbBytesName{Name: nb, Homes: pb.Homes, Rating: pb.Rating, CanFly: pb.CanFly, Capacity: pb.Capacity, MaxSpeed: pb.MaxSpeed}, *pb, air.PlaneBase_TypeID
	case 4:
		return &pbTaggedWins{visA{"ignored-A"}, visB{pb.Name}, pb.Rating}, mirror.PlaneBase{Name: pb.Name, Rating: pb.Rating}, air.PlaneBase_TypeID
	case 5:
		return &pbConflict{visA{"ignored-A"}, visC{"ignored-C"}, pb.Rating}, mirror.PlaneBase{Rating: pb.Rating}, air.PlaneBase_TypeID
	case 6:
		return &pbShallow{visA{"ignored-A"}, pb.Name, pb.Rating}, mirror.PlaneBase{Name: pb.Name, Rating: pb.Rating}, air.PlaneBase_TypeID
	case 7:
		return &pbTagCollision{visB{"ignored-B"}, visD{"ignored-D"}, pb.Rating}, mirror.PlaneBase{Rating: pb.Rating}, air.PlaneBase_TypeID
	default:
		c := mirror.PlaneBase{Name: pb.Name, Rating: pb.Rating}
		return &b737Named{PBCore{Name: pb.Name, Rating: pb.Rating}}, c, air.B737_TypeID
	}
}

// runTextvecBytes: List(Text) mapped to [][]byte (nil, empty and non-empty entries).
func runTextvecBytes(c variantCase) (pbt.Result, error) {
	var res pbt.Result
	res.Class("variant:%d", c.Variant)
	s := &mirror.Tape{Vals: c.Tape}
	in := &zTextvecBytes{Which: air.Z_Which_textvec}
	for i, n := 0, s.Int(0, 5); i < n; i++ {
		switch s.Int(0, 3) {
		case 0:
			in.Textvec = append(in.Textvec, nil)
		case 1:
			in.Textvec = append(in.Textvec, []byte{})
		default:
			b := mirror.Bytes(s, "tv", 12)
			for k := range b {
				if b[k] == 0 {
					b[k] = 1
				}
			}
			in.Textvec = append(in.Textvec, b)
		}
	}
	res.Nontrivial = len(in.Textvec) > 0
	_, seg, _ := capnp.NewMessage(capnp.SingleSegment(nil))
	z, err := air.NewRootZ(seg)
	if err != nil {
		return res, pbt.Fail("harness/new", "%v", err)
	}
	if err := pogs.Insert(air.Z_TypeID, z.Struct, in); err != nil {
		return res, pbt.Fail("insert-error/variant", "List(Text) as [][]byte: %v", err)
	}
	tl, err := z.Textvec()
	if z.Which() != air.Z_Which_textvec || err != nil || tl.Len() != len(in.Textvec) {
		return res, pbt.Fail("insert-differs-from-accessors/variant8", "Which=%v, Textvec(): len %d err %v, %d entries were given", z.Which(), tl.Len(), err, len(in.Textvec))
	}
	for i, want := range in.Textvec {
		got, err := tl.At(i)
		if err != nil || got != string(want) {
			return res, pbt.Fail("insert-differs-from-accessors/variant8", "Textvec()[%d] = %q (err %v), %q was given", i, got, err, want)
		}
	}
	out := &zTextvecBytes{}
	if err := pogs.Extract(out, air.Z_TypeID, z.Struct); err != nil {
		return res, pbt.Fail("extract-error/variant", "List(Text) as [][]byte: %v", err)
	}
	if out.Which != in.Which || len(out.Textvec) != len(in.Textvec) {
		return res, pbt.Fail("roundtrip-differs/variant8", "extracted Which=%v, %d entries; %d were given", out.Which, len(out.Textvec), len(in.Textvec))
	}
	for i := range in.Textvec {
		if string(out.Textvec[i]) != string(in.Textvec[i]) {
			return res, pbt.Fail("roundtrip-differs/variant8", "entry %d: %q extracted, %q given", i, out.Textvec[i], in.Textvec[i])
		}
	}
	return res, nil
}

func runVariant(c variantCase) (pbt.Result, error) {
	var res pbt.Result
	if c.Variant == 8 {
		return runTextvecBytes(c)
	}
	val, canon, typeID := canonFromVariant(c.Variant, &mirror.Tape{Vals: c.Tape})
	_, seg, _ := capnp.NewMessage(capnp.SingleSegment(nil))
	var st capnp.Struct
	var readPB func() (air.PlaneBase, error)
	if typeID == air.PlaneBase_TypeID {
		r, err := air.NewRootPlaneBase(seg)
		if err != nil {
			return res, pbt.Fail("harness/new", "%v", err)
		}
		st = r.Struct
		readPB = func() (air.PlaneBase, error) { return r, nil }
	} else {
		r, err := air.NewRootB737(seg)
		if err != nil {
			return res, pbt.Fail("harness/new", "%v", err)
		}
		st = r.Struct
		readPB = func() (air.PlaneBase, error) { return r.Base() }
	}
	res.Class("variant:%d", c.Variant)
	res.Nontrivial = canon.Name != "" || len(canon.Homes) > 0
	if err := pogs.Insert(typeID, st, val); err != nil {
		return res, pbt.Fail("insert-error/variant", "variant %d: %v", c.Variant, err)
	}
	g, err := readPB()
	if err != nil {
		return res, pbt.Fail("generated-accessor-error", "%v", err)
	}
	nb, _ := g.NameBytes()
	got := mirror.PlaneBase{Name: string(nb), Rating: g.Rating(), CanFly: g.CanFly(), Capacity: g.Capacity(), MaxSpeed: g.MaxSpeed()}
	if h, err := g.Homes(); err == nil {
		for i := 0; i < h.Len(); i++ {
			got.Homes = append(got.Homes, h.At(i))
		}
	}
	if e := sameVal(&got, &canon); e != nil {
		return res, pbt.Fail(fmt.Sprintf("insert-differs-from-accessors/variant%d", c.Variant), "renamed/embedded mapping wrote other values than given: %v", e)
	}
	out := reflect.New(reflect.TypeOf(val).Elem())
	if err := pogs.Extract(out.Interface(), typeID, st); err != nil {
		return res, pbt.Fail("extract-error/variant", "variant %d: %v", c.Variant, err)
	}
	switch r := val.(type) {
	case *pbRenamed:
		r.Ignored = 0 // "-" fields are neither inserted nor extracted
	case *pbTaggedWins:
		r.visA.Name = "" // fields hidden by the visibility rules are neither inserted nor extracted
	case *pbConflict:
		r.visA.Name, r.visC.Name = "", ""
	case *pbShallow:
		r.visA.Name = ""
	case *pbTagCollision:
		r.visB.Label, r.visD.Other = "", ""
	}
	if e := sameVal(out.Interface(), val); e != nil {
		return res, pbt.Fail(fmt.Sprintf("roundtrip-differs/variant%d", c.Variant), "Extract(Insert(v)) != v: %v", e)
	}
	return res, nil
}

var _ = pbt.Register(pbt.Spec[variantCase]{
	Property: "C19", Name: "renamed-embedded",
	Rule:  "PlaneBase/B737 values through Go types with capnp:\"name\" renames, a capnp:\"-\" field, three levels of anonymous embedding with two fields in the innermost struct, Text mapped to []byte (nil and non-nil), a tagged (named) embedded struct, the four visibility rules for embedded fields that reach the same schema field (tagged beats untagged at equal depth; two untagged or two tagged at equal depth are both ignored without error; the less nested field wins), and List(Text) mapped to [][]byte; oracle: after Insert the generated accessors return exactly the given values and Extract returns the value inserted. Non-trivial: name or homes non-empty.",
	Quick: 3000, Thorough: 30000,
	Gen: func(t *rapid.T) variantCase {
		r := &mirror.Rapid{T: t}
		v := rapid.IntRange(0, 8).Draw(t, "variant")
		if v == 8 {
			tp := variantCase{Variant: v}
			for i := 0; i < 80; i++ {
				tp.Tape = append(tp.Tape, rapid.Uint64().Draw(t, "tape"))
			}
			return tp
		}
		canonFromVariant(v, r)
		return variantCase{Variant: v, Tape: r.Tape}
	},
	Run: runVariant,
})

type defaultsStr struct {
	Text  string
	Data  []byte
	Float float32
	Int   int32
	Uint  uint32
}
type defaultsBytes struct {
	Text  []byte
	Data  []byte
	Float float32
	Int   int32
	Uint  uint32
}

type defaultsCase struct {
	BytesText bool     `json:"text_as_bytes"`
	NilText   bool     `json:"nil_text"`
	NilData   bool     `json:"nil_data"`
	Text      hx.Bytes `json:"text"`
	Data      hx.Bytes `json:"data"`
	FloatBits uint32   `json:"float_bits"`
	Int       int32    `json:"int"`
	Uint      uint32   `json:"uint"`
	Blank     bool     `json:"blank_message"` // Extract from a message where nothing was set: defaults must show
}

func runDefaults(c defaultsCase) (pbt.Result, error) {
	var res pbt.Result
	_, seg, _ := capnp.NewMessage(capnp.SingleSegment(nil))
	d, err := air.NewRootDefaults(seg)
	if err != nil {
		return res, pbt.Fail("harness/new", "%v", err)
	}
	f := math.Float32frombits(c.FloatBits)
	text, data := []byte(c.Text), []byte(c.Data)
	if text == nil {
		text = []byte{}
	}
	if data == nil {
		data = []byte{}
	}
	if c.NilText {
		text = nil
	}
	if c.NilData {
		data = nil
	}
	res.Class("text-as-bytes:%v", c.BytesText)
	res.Class("nil-text:%v", c.NilText)
	res.Class("blank:%v", c.Blank)
	res.Nontrivial = true
	if !c.Blank {
		var val interface{}
		if c.BytesText {
			val = &defaultsBytes{Text: text, Data: data, Float: f, Int: c.Int, Uint: c.Uint}
		} else {
			val = &defaultsStr{Text: string(text), Data: data, Float: f, Int: c.Int, Uint: c.Uint}
		}
		if err := pogs.Insert(air.Defaults_TypeID, d.Struct, val); err != nil {
			return res, pbt.Fail("insert-error/defaults", "%v", err)
		}
		// generated getters must return what was inserted (nil/empty text and data are the empty value, NOT the schema default)
		gt, _ := d.TextBytes()
		gd, _ := d.Data()
		if !bytes.Equal(gt, text) {
			return res, pbt.Fail("insert-differs-from-accessors/defaults-text", "inserted text %q (nil=%v, as bytes=%v), generated getter returns %q", text, c.NilText, c.BytesText, gt)
		}
		if !bytes.Equal(gd, data) {
			return res, pbt.Fail("insert-differs-from-accessors/defaults-data", "inserted data %q (nil=%v), generated getter returns %q", data, c.NilData, gd)
		}
		if math.Float32bits(d.Float()) != c.FloatBits && !(f != f && d.Float() != d.Float()) {
			return res, pbt.Fail("insert-differs-from-accessors/defaults-float", "inserted %v, getter %v", f, d.Float())
		}
		if d.Int() != c.Int || d.Uint() != c.Uint {
			return res, pbt.Fail("insert-differs-from-accessors/defaults-int", "inserted %d/%d, getters %d/%d", c.Int, c.Uint, d.Int(), d.Uint())
		}
	}
	// Extract agrees with the generated getters (also for an untouched message: defaults)
	var out defaultsStr
	if err := pogs.Extract(&out, air.Defaults_TypeID, d.Struct); err != nil {
		return res, pbt.Fail("extract-error/defaults", "%v", err)
	}
	var outB defaultsBytes
	if err := pogs.Extract(&outB, air.Defaults_TypeID, d.Struct); err != nil {
		return res, pbt.Fail("extract-error/defaults", "%v", err)
	}
	gt, _ := d.TextBytes()
	gd, _ := d.Data()
	if out.Text != string(gt) || !bytes.Equal(outB.Text, gt) || !bytes.Equal(out.Data, gd) {
		return res, pbt.Fail("extract-differs-from-accessors/defaults-text", "Extract text=%q/%q data=%q, getters text=%q data=%q", out.Text, outB.Text, out.Data, gt, gd)
	}
	if math.Float32bits(out.Float) != math.Float32bits(d.Float()) && !(out.Float != out.Float && d.Float() != d.Float()) {
		return res, pbt.Fail("extract-differs-from-accessors/defaults-float", "Extract %v getter %v", out.Float, d.Float())
	}
	if out.Int != d.Int() || out.Uint != d.Uint() {
		return res, pbt.Fail("extract-differs-from-accessors/defaults-int", "Extract %d/%d getters %d/%d", out.Int, out.Uint, d.Int(), d.Uint())
	}
	return res, nil
}

var _ = pbt.Register(pbt.Spec[defaultsCase]{
	Property: "C19", Name: "defaults",
	Rule:  "aircraftlib.Defaults (all fields have non-zero defaults) through Go types mapping Text to string or []byte, with nil / empty / arbitrary text and data, drawn float bit patterns and integers, and untouched messages; oracle: after Insert the generated getters return exactly the inserted values (nil and empty text/data mean empty, never the schema default); Extract returns what the generated getters return (the defaults for an untouched message).",
	Quick: 4000, Thorough: 40000,
	Gen: func(t *rapid.T) defaultsCase {
		s := &mirror.Rapid{T: t}
		return defaultsCase{
			BytesText: rapid.Bool().Draw(t, "bt"), NilText: rapid.IntRange(0, 3).Draw(t, "nt") == 0, NilData: rapid.IntRange(0, 3).Draw(t, "nd") == 0,
			Text: mirror.Bytes(s, "text", 6), Data: mirror.Bytes(s, "data", 6),
			FloatBits: rapid.Uint32().Draw(t, "fb"), Int: rapid.Int32().Draw(t, "i"), Uint: rapid.Uint32().Draw(t, "u"),
			Blank: rapid.IntRange(0, 5).Draw(t, "blank") == 0,
		}
	},
	Run: runDefaults,
})
