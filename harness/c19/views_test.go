package c19

import (
	"fmt"

	capnp "capnproto.org/go/capnp/v3"
	air "capnproto.org/go/capnp/v3/internal/aircraftlib"
	"capnproto.org/go/capnp/v3/pogs"
	rpccp "capnproto.org/go/capnp/v3/std/capnp/rpc"
	"capnproto.org/go/capnp/v3/verifharness/pbt"
	"pgregory.net/rapid"
)

// One Go type as the mapping of several schema types (the "view" idiom of the pogs documentation), used for all of
// them within one process and in drawn order; null struct pointers in messages built with the generated code; struct
// fields whose schema type has non-zero defaults.

type vVal struct{ Val int16 }
type vValDuo struct {
	Val int16
	Duo int64
}
type vPtrs struct {
	Ptr1 vVal
	Ptr2 vVal
}
type vPtrsP struct {
	Ptr1 *vVal
	Ptr2 *vVal
}
type vAll struct {
	Val  int16
	Duo  int64
	Ptr1 vVal
	Ptr2 *vVal
}

// the Ver* family of aircraftlib: the same field names at different positions
type verType struct {
	name   string
	id     uint64
	size   capnp.ObjectSize
	hasVal bool // val/duo data fields
	hasDuo bool
	ptrs   bool // ptr1/ptr2 struct fields
	// offsets per the schema: val at byte 0 (Int16); duo at byte 8 (Int64); ptr1/ptr2 pointer indices; nested val at byte 0
	p1, p2   int
	nestSize capnp.ObjectSize
}

var verTypes = []verType{
	{name: "VerOneData", id: air.VerOneData_TypeID, size: capnp.ObjectSize{DataSize: 8}, hasVal: true},
	{name: "VerTwoData", id: air.VerTwoData_TypeID, size: capnp.ObjectSize{DataSize: 16}, hasVal: true, hasDuo: true},
	{name: "VerTwoPtr", id: air.VerTwoPtr_TypeID, size: capnp.ObjectSize{PointerCount: 2}, ptrs: true, p1: 0, p2: 1, nestSize: capnp.ObjectSize{DataSize: 8}},
	{name: "VerTwoDataTwoPtr", id: air.VerTwoDataTwoPtr_TypeID, size: capnp.ObjectSize{DataSize: 16, PointerCount: 2}, hasVal: true, hasDuo: true, ptrs: true, p1: 0, p2: 1, nestSize: capnp.ObjectSize{DataSize: 8}},
	{name: "VerTwoTwoPlus", id: air.VerTwoTwoPlus_TypeID, size: capnp.ObjectSize{DataSize: 24, PointerCount: 3}, hasVal: true, hasDuo: true, ptrs: true, p1: 0, p2: 1, nestSize: capnp.ObjectSize{DataSize: 16, PointerCount: 2}},
}

type viewOp struct {
	Type   int   `json:"type"`
	View   int   `json:"view"` // 0 vVal 1 vValDuo 2 vPtrs 3 vPtrsP 4 vAll
	Insert bool  `json:"insert"`
	Val    int16 `json:"val"`
	Duo    int64 `json:"duo"`
	P1, P2 int16
	NullP1 bool `json:"null_p1"`
	NullP2 bool `json:"null_p2"`
}

type viewCase struct {
	Ops []viewOp `json:"ops"`
}

func compatible(v int, t verType) bool {
	switch v {
	case 0:
		return t.hasVal
	case 1:
		return t.hasVal && t.hasDuo
	case 2, 3:
		return t.ptrs
	default:
		return t.hasVal && t.hasDuo && t.ptrs
	}
}

// state of a Ver* struct as read through the schema's layout (what the generated accessors return)
type verState struct {
	val        int16
	duo        int64
	p1, p2     int16
	has1, has2 bool
}

func readVer(t verType, s capnp.Struct) (verState, error) {
	var st verState
	if t.hasVal {
		st.val = int16(s.Uint16(0))
	}
	if t.hasDuo {
		st.duo = int64(s.Uint64(8))
	}
	if t.ptrs {
		for i, idx := range []int{t.p1, t.p2} {
			p, err := s.Ptr(uint16(idx))
			if err != nil {
				return st, err
			}
			if p.IsValid() {
				v := int16(p.Struct().Uint16(0))
				if i == 0 {
					st.p1, st.has1 = v, true
				} else {
					st.p2, st.has2 = v, true
				}
			}
		}
	}
	return st, nil
}

func runViews(c viewCase) (pbt.Result, error) {
	var res pbt.Result
	typesOfView := map[int]map[string]bool{}
	for i, op := range c.Ops {
		t := verTypes[op.Type%len(verTypes)]
		v := op.View % 5
		if !compatible(v, t) {
			continue
		}
		if typesOfView[v] == nil {
			typesOfView[v] = map[string]bool{}
		}
		typesOfView[v][t.name] = true
		_, seg, _ := capnp.NewMessage(capnp.SingleSegment(nil))
		root, err := capnp.NewRootStruct(seg, t.size)
		if err != nil {
			return res, pbt.Fail("harness/new", "%v", err)
		}
		what := fmt.Sprintf("op %d: view %d as %s", i, v, t.name)
		if op.Insert {
			var val interface{}
			want := verState{}
			switch v {
			case 0:
				val, want = &vVal{op.Val}, verState{val: op.Val}
			case 1:
				val, want = &vValDuo{op.Val, op.Duo}, verState{val: op.Val, duo: op.Duo}
			case 2:
				val, want = &vPtrs{vVal{op.P1}, vVal{op.P2}}, verState{p1: op.P1, p2: op.P2, has1: true, has2: true}
			case 3:
				pp := &vPtrsP{}
				if !op.NullP1 {
					pp.Ptr1 = &vVal{op.P1}
					want.p1, want.has1 = op.P1, true
				}
				if !op.NullP2 {
					pp.Ptr2 = &vVal{op.P2}
					want.p2, want.has2 = op.P2, true
				}
				val = pp
			default:
				a := &vAll{Val: op.Val, Duo: op.Duo, Ptr1: vVal{op.P1}}
				want = verState{val: op.Val, duo: op.Duo, p1: op.P1, has1: true}
				if !op.NullP2 {
					a.Ptr2 = &vVal{op.P2}
					want.p2, want.has2 = op.P2, true
				}
				val = a
			}
			if err := pogs.Insert(t.id, root, val); err != nil {
				return res, pbt.Fail("insert-error/view", "%s: Insert failed: %v", what, err)
			}
			got, err := readVer(t, root)
			if err != nil {
				return res, pbt.Fail("insert-unreadable/view", "%s: %v", what, err)
			}
			if got != want {
				return res, pbt.Fail("insert-differs-from-accessors/view", "%s: inserted %+v, the schema's fields read %+v (views used so far: %v)", what, want, got, typesOfView)
			}
			continue
		}
		// a message built by other means (the layout the generated setters produce), some struct pointers left null
		want := verState{}
		if t.hasVal {
			root.SetUint16(0, uint16(op.Val))
			want.val = op.Val
		}
		if t.hasDuo {
			root.SetUint64(8, uint64(op.Duo))
			want.duo = op.Duo
		}
		if t.ptrs {
			for k, idx := range []int{t.p1, t.p2} {
				null, pv := op.NullP1, op.P1
				if k == 1 {
					null, pv = op.NullP2, op.P2
				}
				if null {
					continue
				}
				ns, err := capnp.NewStruct(seg, t.nestSize)
				if err != nil {
					return res, pbt.Fail("harness/new", "%v", err)
				}
				ns.SetUint16(0, uint16(pv))
				if err := root.SetPtr(uint16(idx), ns.ToPtr()); err != nil {
					return res, pbt.Fail("harness/setptr", "%v", err)
				}
				if k == 0 {
					want.p1, want.has1 = pv, true
				} else {
					want.p2, want.has2 = pv, true
				}
			}
		}
		got := verState{}
		var xerr error
		switch v {
		case 0:
			o := vVal{Val: 0x5a5a}
			xerr = pogs.Extract(&o, t.id, root)
			got, want = verState{val: o.Val}, verState{val: want.val}
		case 1:
			o := vValDuo{Val: 0x5a5a, Duo: 0x5a5a}
			xerr = pogs.Extract(&o, t.id, root)
			got, want = verState{val: o.Val, duo: o.Duo}, verState{val: want.val, duo: want.duo}
		case 2:
			o := vPtrs{vVal{0x5a5a}, vVal{0x5a5a}} // a null struct pointer reads as the (all-default) struct
			xerr = pogs.Extract(&o, t.id, root)
			got, want = verState{p1: o.Ptr1.Val, p2: o.Ptr2.Val}, verState{p1: want.p1, p2: want.p2}
		case 3:
			o := vPtrsP{}
			xerr = pogs.Extract(&o, t.id, root)
			if o.Ptr1 != nil {
				got.p1, got.has1 = o.Ptr1.Val, true
			}
			if o.Ptr2 != nil {
				got.p2, got.has2 = o.Ptr2.Val, true
			}
			want = verState{p1: want.p1, p2: want.p2, has1: want.has1, has2: want.has2}
		default:
			o := vAll{Val: 0x5a5a, Duo: 0x5a5a, Ptr1: vVal{0x5a5a}}
			xerr = pogs.Extract(&o, t.id, root)
			got = verState{val: o.Val, duo: o.Duo, p1: o.Ptr1.Val}
			if o.Ptr2 != nil {
				got.p2, got.has2 = o.Ptr2.Val, true
			}
			want = verState{val: want.val, duo: want.duo, p1: want.p1, p2: want.p2, has2: want.has2}
		}
		if xerr != nil {
			return res, pbt.Fail("extract-error/view", "%s: Extract failed: %v (views used so far: %v)", what, xerr, typesOfView)
		}
		if got != want {
			return res, pbt.Fail("extract-differs-from-accessors/view", "%s: the schema's fields hold %+v, Extract returned %+v (views used so far: %v)", what, want, got, typesOfView)
		}
	}
	shared := 0
	for _, ts := range typesOfView {
		if len(ts) >= 2 {
			shared++
		}
	}
	res.Class("views-shared-by-2+-types:%d", shared)
	res.Nontrivial = shared > 0
	// null structs whose type has non-zero defaults: a Return / Finish inside an rpc Message that was never allocated,
	// and a null Defaults root
	type retView struct {
		AnswerId         uint32
		ReleaseParamCaps bool
	}
	type finView struct {
		QuestionId        uint32
		ReleaseResultCaps bool
	}
	type msgView struct {
		Which  rpccp.Message_Which
		Return retView
		Finish finView
	}
	for _, which := range []rpccp.Message_Which{rpccp.Message_Which_return, rpccp.Message_Which_finish} {
		_, seg, _ := capnp.NewMessage(capnp.SingleSegment(nil))
		m, err := rpccp.NewRootMessage(seg)
		if err != nil {
			return res, pbt.Fail("harness/new", "%v", err)
		}
		m.Struct.SetUint16(0, uint16(which)) // the union member is selected, its struct pointer stays null
		var mv msgView
		if err := pogs.Extract(&mv, rpccp.Message_TypeID, m.Struct); err != nil {
			return res, pbt.Fail("extract-error/null-struct", "Extract of an rpc Message whose %v struct is null: %v", which, err)
		}
		switch which {
		case rpccp.Message_Which_return:
			r, _ := m.Return()
			if mv.Return.ReleaseParamCaps != r.ReleaseParamCaps() || mv.Return.AnswerId != r.AnswerId() {
				return res, pbt.Fail("extract-differs-from-accessors/null-struct-defaults", "Message.return is a null pointer: the generated accessors give releaseParamCaps=%v (schema default), Extract gives %v", r.ReleaseParamCaps(), mv.Return.ReleaseParamCaps)
			}
		default:
			f, _ := m.Finish()
			if mv.Finish.ReleaseResultCaps != f.ReleaseResultCaps() {
				return res, pbt.Fail("extract-differs-from-accessors/null-struct-defaults", "Message.finish is a null pointer: the generated accessors give releaseResultCaps=%v (schema default), Extract gives %v", f.ReleaseResultCaps(), mv.Finish.ReleaseResultCaps)
			}
		}
	}
	var dv defaultsStr
	null := air.Defaults{}
	if err := pogs.Extract(&dv, air.Defaults_TypeID, null.Struct); err != nil {
		return res, pbt.Fail("extract-error/null-struct", "Extract of a null Defaults struct: %v", err)
	}
	gt, _ := null.Text()
	if dv.Text != gt || dv.Int != null.Int() || dv.Uint != null.Uint() || dv.Float != null.Float() {
		return res, pbt.Fail("extract-differs-from-accessors/null-struct-defaults", "null Defaults struct: accessors give text=%q int=%d uint=%d, Extract gives text=%q int=%d uint=%d", gt, null.Int(), null.Uint(), dv.Text, dv.Int, dv.Uint)
	}
	return res, nil
}

var _ = pbt.Register(pbt.Spec[viewCase]{
	Property: "C19", Name: "shared-views",
	Rule:  "2-10 operations, each inserting a value of, or extracting into, one of five small Go view types (data fields; value-typed and pointer-typed nested structs) as a mapping of one of the five Ver* schema types of aircraftlib, whose equally named fields sit at different offsets and pointer indices; the same Go type therefore serves several schema types within one process, in drawn order; extracted messages are laid out as the generated setters do, with drawn null struct pointers. Oracle: the schema's fields (read at the offsets the schema assigns) equal the inserted Go value, and Extract returns what those fields hold (a null struct pointer reads as defaults into a struct value and as nil into a pointer). Every case also extracts rpc Messages whose selected Return / Finish struct pointer is null and a null aircraftlib.Defaults struct and compares with the generated accessors (non-zero schema defaults). Non-trivial: some view type was used for two or more schema types.",
	Quick: 3000, Thorough: 30000,
	Gen: func(t *rapid.T) viewCase {
		var c viewCase
		for i, n := 0, rapid.IntRange(2, 10).Draw(t, "n"); i < n; i++ {
			c.Ops = append(c.Ops, viewOp{Type: rapid.IntRange(0, 4).Draw(t, "type"), View: rapid.IntRange(0, 4).Draw(t, "view"), Insert: rapid.Bool().Draw(t, "insert"),
				Val: rapid.Int16().Draw(t, "val"), Duo: rapid.Int64().Draw(t, "duo"), P1: rapid.Int16().Draw(t, "p1"), P2: rapid.Int16().Draw(t, "p2"),
				NullP1: rapid.IntRange(0, 2).Draw(t, "n1") == 0, NullP2: rapid.IntRange(0, 2).Draw(t, "n2") == 0})
		}
		return c
	},
	Run: runViews,
})
