package c09

import (
	"context"
	"fmt"
	"os"
	"regexp"
	"strings"
	"sync"
	"testing"
	"time"

	capnp "capnproto.org/go/capnp/v3"
	"capnproto.org/go/capnp/v3/rpc"
	"capnproto.org/go/capnp/v3/verifharness/pbt"
	"capnproto.org/go/capnp/v3/verifharness/rpcsim"
	"pgregory.net/rapid"
)

func TestProp(t *testing.T)   { pbt.RunProps(t) }
func TestReplay(t *testing.T) { pbt.RunReplay(t) }

var deadline = func() time.Duration {
	if os.Getenv("VERIF_FAST_DEADLINE") != "" {
		return 2 * time.Second
	}
	return 30 * time.Second
}()

// Step of a base scenario.
type Step struct {
	K string `json:"k"` // app-bootstrap app-call app-pipeline app-cancel app-release peer-bootstrap peer-call peer-held-call peer-finish peer-return peer-return-exc open barrier
	A int    `json:"a,omitempty"`
}

type Case struct {
	Steps     []Step `json:"steps"`
	CloseMode int    `json:"close_mode"` // 0 once, 1 twice, 2 three times, 3 three concurrent
	// CloseFails: the transport's Close reports an error (the stream is closed nevertheless)
	CloseFails bool `json:"close_fails,omitempty"`
	// Fault, if >= 0, restricts the run to one transport operation index (replay of a failing point); -1 enumerates all.
	OnlyIndex int `json:"only_index"`
	OnlyKind  int `json:"only_kind"`
}

type outcome struct {
	ops            []rpcsim.OpRec
	pendingAtFault int
}

type appCall struct {
	ans    *capnp.Answer
	rel    capnp.ReleaseFunc
	cancel context.CancelFunc
}

// runOnce plays the scenario with the given fault plan and checks the termination/cleanup oracle.
var goroutineID = regexp.MustCompile(`(?m)^goroutine (\d+) \[`)

// rpcGoroutines returns the ids of goroutines that currently have an rpc frame.
func rpcGoroutines() map[string]string {
	out := map[string]string{}
	for _, g := range strings.Split(pbt.Stacks("capnp/v3/rpc."), "\n\n") {
		if m := goroutineID.FindStringSubmatch(g); m != nil {
			out[m[1]] = g
		}
	}
	return out
}

// quietState reads the lock state once nothing holds the locks any more: a goroutine that is just finishing (a late
// Release, the tail of a Return) may hold them for a moment after Close has returned; a lock that stays held is what
// the property forbids.
func quietState(conn *rpc.Conn) rpc.VerifConnState {
	var st rpc.VerifConnState
	for t0 := time.Now(); time.Since(t0) < deadline/4; time.Sleep(100 * time.Microsecond) {
		st = conn.VerifState()
		if st.MuFree && st.SenderFree {
			break
		}
	}
	return st
}

func runOnce(c Case, faults map[int]int) (*outcome, error) {
	before := rpcGoroutines() // leftovers of earlier (failed) executions in this process are not this run's business
	w := rpcsim.NewWire()
	w.CloseFails = c.CloseFails
	for k, v := range faults {
		w.Faults[k] = v
	}
	world := rpcsim.NewWorld()
	_, boot := world.NewObject()
	conn := rpc.NewConn(w, &rpc.Options{BootstrapClient: boot, AbortTimeout: 5 * time.Second})
	out := &outcome{}
	guard := func(what string, f func()) error {
		done := make(chan struct{})
		go func() { defer close(done); f() }()
		select {
		case <-done:
			return nil
		case <-time.After(deadline):
			return pbt.Fail("hang/"+what, "%s did not return within %v (faults %v)\n%s", what, deadline, faults, pbt.Stacks("capnp/v3/rpc."))
		}
	}
	var clients []*capnp.Client
	var calls []*appCall
	var peerQ uint32
	var serial uint64
	var asked []rpcsim.Msg // questions of the Conn the peer has seen and not answered
	for _, s := range c.Steps {
		var err error
		switch s.K {
		case "app-bootstrap":
			err = guard("Conn.Bootstrap", func() { clients = append(clients, conn.Bootstrap(context.Background())) })
		case "app-call":
			if len(clients) == 0 {
				continue
			}
			cl := clients[s.A%len(clients)]
			ctx, cancel := context.WithCancel(context.Background())
			ac := &appCall{cancel: cancel}
			calls = append(calls, ac)
			err = guard("Client.SendCall", func() {
				ac.ans, ac.rel = cl.SendCall(ctx, capnp.Send{Method: capnp.Method{InterfaceID: rpcsim.Iface, MethodID: rpcsim.Method}, ArgsSize: capnp.ObjectSize{DataSize: 16, PointerCount: 1},
					PlaceArgs: func(st capnp.Struct) error {
						st.SetUint64(0, 7)
						if s.A%2 == 1 {
							// carry a local capability in the params
							_, lc := world.NewObject()
							id := st.Message().AddCap(lc)
							return st.SetPtr(0, capnp.NewInterface(st.Segment(), id).ToPtr())
						}
						return nil
					}})
			})
		case "app-pipeline":
			if len(calls) == 0 {
				continue
			}
			base := calls[s.A%len(calls)]
			if base.ans == nil {
				continue
			}
			ctx, cancel := context.WithCancel(context.Background())
			ac := &appCall{cancel: cancel}
			calls = append(calls, ac)
			err = guard("Answer.PipelineSend", func() {
				ac.ans, ac.rel = base.ans.PipelineSend(ctx, []capnp.PipelineOp{{Field: 0}}, capnp.Send{Method: capnp.Method{InterfaceID: rpcsim.Iface, MethodID: rpcsim.Method}, ArgsSize: capnp.ObjectSize{DataSize: 16}})
			})
		case "app-cancel":
			if len(calls) > 0 {
				calls[s.A%len(calls)].cancel()
			}
		case "app-release":
			if len(clients) > 0 {
				i := s.A % len(clients)
				cl := clients[i]
				clients = append(clients[:i], clients[i+1:]...)
				err = guard("Client.Release", func() { cl.Release() })
			}
		case "peer-bootstrap":
			peerQ++
			w.SendBootstrap(peerQ)
		case "peer-call", "peer-held-call":
			peerQ++
			serial++
			fl := uint64(0)
			if s.K == "peer-held-call" {
				fl = rpcsim.FlagHold
			}
			if s.A%3 == 1 {
				fl |= rpcsim.CapNewObject << rpcsim.FlagCapShift
			}
			w.SendCall(rpcsim.PeerCall{Q: peerQ, Target: rpcsim.Target{ID: 0}, Serial: serial, Flags: fl})
		case "peer-finish":
			if peerQ > 0 {
				w.SendFinish(uint32(1+s.A%int(peerQ)), s.A%2 == 0)
			}
		case "peer-return", "peer-return-exc":
			// answer the oldest question the Conn has asked and the peer has not answered yet (a Bootstrap is answered
			// with a capability, so that later calls go through the imported capability)
			for _, m := range w.Drain() {
				if m.Which == "bootstrap" || m.Which == "call" {
					asked = append(asked, m)
				}
			}
			if len(asked) == 0 {
				// nothing to answer (the question may not have reached the wire because of the fault): a Return for a
				// question that does not exist would be the peer's protocol error, which is not this check's subject
				continue
			}
			q := asked[0]
			asked = asked[1:]
			switch {
			case s.K == "peer-return-exc":
				w.SendReturn(rpcsim.PeerReturn{A: q.ID, Exc: "peer says no"})
			case q.Which == "bootstrap":
				w.SendReturn(rpcsim.PeerReturn{A: q.ID, ContentCap: true, Caps: []rpcsim.CapDesc{{Kind: "senderHosted", ID: uint32(s.A % 2)}}})
			default:
				w.SendReturn(rpcsim.PeerReturn{A: q.ID, Serial: 5, Caps: []rpcsim.CapDesc{{Kind: "senderHosted", ID: uint32(s.A % 2)}}})
			}
		case "open":
			world.OpenUpTo(serial)
		case "barrier":
			// let the connection digest what was sent so far (bounded wait; the connection may be dead already)
			t0 := time.Now()
			for w.Pending() > 0 && time.Since(t0) < 200*time.Millisecond {
				if closed, _ := w.Closed(); closed {
					break
				}
				time.Sleep(200 * time.Microsecond)
			}
			time.Sleep(300 * time.Microsecond)
		}
		if err != nil {
			return out, err
		}
	}
	// pending work at the time everything is torn down
	for _, ac := range calls {
		if ac.ans != nil {
			select {
			case <-ac.ans.Done():
			default:
				out.pendingAtFault++
			}
		}
	}
	// Close: once / repeatedly / concurrently.  Every Close must return.
	nClose := []int{1, 2, 3, 3}[c.CloseMode%4]
	if c.CloseMode%4 == 3 {
		var wg sync.WaitGroup
		for i := 0; i < nClose; i++ {
			wg.Add(1)
			go func() { defer wg.Done(); conn.Close() }()
		}
		if err := guard("concurrent Conn.Close", wg.Wait); err != nil {
			return out, err
		}
	} else {
		for i := 0; i < nClose; i++ {
			if err := guard(fmt.Sprintf("Conn.Close #%d", i+1), func() { conn.Close() }); err != nil {
				return out, err
			}
		}
	}
	select {
	case <-conn.Done():
	case <-time.After(deadline):
		return out, pbt.Fail("hang/done", "Done() not closed after Close returned")
	}
	world.OpenUpTo(1 << 62)
	// every pending and subsequent operation completes with a result or an error
	for i, ac := range calls {
		if ac.ans == nil {
			continue
		}
		if err := guard(fmt.Sprintf("answer %d", i), func() { ac.ans.Struct() }); err != nil {
			return out, err
		}
		if err := guard(fmt.Sprintf("release of answer %d", i), func() { ac.rel() }); err != nil {
			return out, err
		}
		ac.cancel()
	}
	var late *capnp.Client
	if err := guard("Bootstrap after Close", func() { late = conn.Bootstrap(context.Background()) }); err != nil {
		return out, err
	}
	if err := guard("call after Close", func() {
		a, rel := late.SendCall(context.Background(), capnp.Send{Method: capnp.Method{InterfaceID: rpcsim.Iface, MethodID: rpcsim.Method}})
		if _, err := a.Struct(); err == nil {
			panic("call on a closed connection succeeded")
		}
		rel()
		late.Release()
	}); err != nil {
		return out, err
	}
	for _, cl := range clients {
		cl := cl
		if err := guard("Client.Release after Close", func() { cl.Release() }); err != nil {
			return out, err
		}
	}
	// transport closed exactly once, all outgoing messages released before
	if closed, n := w.Closed(); !closed || n != 1 {
		return out, pbt.Fail("transport-close-count", "transport Close called %d times (closed=%v)", n, closed)
	}
	// no lock stays held
	st := quietState(conn)
	if !st.MuFree {
		return out, pbt.Fail("lock-held/conn-mutex", "Conn.mu is still locked after Close returned (faults %v)", faults)
	}
	if !st.SenderFree {
		return out, pbt.Fail("lock-held/sender", "the sender lock is still held after Close returned (faults %v)", faults)
	}
	// all goroutines started by the connection exit
	t0 := time.Now()
	var left string
	for {
		left = ""
		for id, g := range rpcGoroutines() {
			if _, old := before[id]; !old {
				left += g + "\n\n"
			}
		}
		if left == "" || time.Since(t0) > 10*time.Second {
			break
		}
		time.Sleep(2 * time.Millisecond)
	}
	if left != "" {
		return out, pbt.Fail("goroutine-leak", "goroutines with rpc frames are still alive 10 s after Close (faults %v):\n%s", faults, left)
	}
	out.ops = w.Ops()
	return out, nil
}

func run(c Case) (pbt.Result, error) {
	var res pbt.Result
	base, err := runOnce(c, nil)
	if err != nil {
		if v, ok := err.(*pbt.Violation); ok {
			v.Sig = "fault-free/" + v.Sig
		}
		return res, err
	}
	n := len(base.ops)
	res.Count("base_ops", int64(n))
	kinds := map[string][]int{rpcsim.OpNew: {rpcsim.FaultErr, rpcsim.FaultFull}, rpcsim.OpSend: {rpcsim.FaultErr}, rpcsim.OpRecv: {rpcsim.FaultErr, rpcsim.FaultEOF}}
	points := 0
	pending := false
	for k := 0; k < n; k++ {
		if c.OnlyIndex >= 0 && k != c.OnlyIndex {
			continue
		}
		for _, f := range kinds[base.ops[k].Kind] {
			if c.OnlyIndex >= 0 && c.OnlyKind != 0 && f != c.OnlyKind {
				continue
			}
			o, err := runOnce(c, map[int]int{k: f})
			points++
			if err != nil {
				if v, ok := err.(*pbt.Violation); ok {
					v.Sig = fmt.Sprintf("%s/at-%s", v.Sig, base.ops[k].Kind)
					v.Msg = fmt.Sprintf("fault kind %d injected at transport operation %d (%s) of %d\n%s", f, k, base.ops[k].Kind, n, v.Msg)
				}
				return res, err
			}
			if o.pendingAtFault > 0 {
				pending = true
			}
		}
	}
	// Close at every step: every prefix of the scenario, then the Close sequence (no transport fault)
	closes := 0
	if c.OnlyIndex < 0 {
		for k := 0; k < len(c.Steps); k++ {
			pc := c
			pc.Steps = c.Steps[:k]
			o, err := runOnce(pc, nil)
			closes++
			if err != nil {
				if v, ok := err.(*pbt.Violation); ok {
					v.Sig = v.Sig + "/close-at-step"
					v.Msg = fmt.Sprintf("Close injected after step %d of %d (no transport fault)\n%s", k, len(c.Steps), v.Msg)
				}
				return res, err
			}
			if o.pendingAtFault > 0 {
				pending = true
			}
		}
	}
	// cancellation at every step: for every position after an application call was made, the oldest and the newest
	// call issued so far are cancelled there (no transport fault)
	cancels := 0
	if c.OnlyIndex < 0 {
		ncalls := 0
		for k := 0; k <= len(c.Steps); k++ {
			if k > 0 && (c.Steps[k-1].K == "app-call" || c.Steps[k-1].K == "app-pipeline") {
				ncalls++ // upper bound: a step may have been skipped for lack of a target
			}
			if ncalls == 0 {
				continue
			}
			for _, j := range []int{0, ncalls - 1} {
				if j == 0 && ncalls > 1 || j == ncalls-1 {
					pc := c
					pc.Steps = append(append(append([]Step(nil), c.Steps[:k]...), Step{K: "app-cancel", A: j}), c.Steps[k:]...)
					o, err := runOnce(pc, nil)
					cancels++
					if err != nil {
						if v, ok := err.(*pbt.Violation); ok {
							v.Sig = v.Sig + "/cancel-at-step"
							v.Msg = fmt.Sprintf("cancellation of call %d injected before step %d of %d (no transport fault)\n%s", j, k, len(c.Steps), v.Msg)
						}
						return res, err
					}
					if o.pendingAtFault > 0 {
						pending = true
					}
				}
			}
		}
	}
	res.Count("cancel_points", int64(cancels))
	res.Count("close_points", int64(closes))
	res.Count("fault_points", int64(points))
	res.Count("scenarios_exhaustive", 1)
	res.Class("close-mode:%d", c.CloseMode%4)
	res.Class("ops:%s", bucket(n))
	res.Nontrivial = pending || base.pendingAtFault > 0
	return res, nil
}

func bucket(n int) string {
	switch {
	case n < 5:
		return "<5"
	case n < 15:
		return "5-14"
	default:
		return ">=15"
	}
}

var stepKinds = []string{"app-bootstrap", "app-bootstrap", "app-call", "app-call", "app-pipeline", "app-cancel", "app-release", "peer-bootstrap", "peer-call", "peer-held-call", "peer-finish", "peer-return", "peer-return", "peer-return-exc", "open", "barrier", "barrier"}

// most scenarios start by obtaining the peer's bootstrap capability, so that later call steps have a target
var firstKinds = []string{"app-bootstrap", "app-bootstrap", "app-bootstrap", "peer-bootstrap", "peer-call", "barrier"}

var _ = pbt.Register(pbt.Spec[Case]{
	Property: "C09", Name: "fault-enumeration",
	Rule:  "base scenario = 2-10 drawn steps (local Bootstrap, calls with and without capability params, pipelined calls, cancellations, releases; peer Bootstrap, calls returning at once / held / returning a new capability, Finish, Return with capability or exception; gate openings; barriers). The scenario is first run fault-free to count its transport operations N, then re-run once for EVERY operation index 0..N-1 and every fault kind applicable to that operation (error from NewMessage, a message from NewMessage whose arena is exhausted after the root struct so that building it fails, error from send, error or EOF from RecvMessage): exhaustive per scenario; in addition every prefix of the scenario is run and closed (Close injected at every step), and at every position after an application call the oldest and the newest call made so far are cancelled (cancellation injected at every step). Each run ends with Close once / twice / three times / three times concurrently; in a quarter of the scenarios the transport's own Close reports an error. Oracle per run: every API call returns within the deadline; Done() closes; every pending answer resolves; Bootstrap and calls after Close yield errors; releases return; transport closed exactly once; Conn.mu and the sender lock are free (VerifState hook); no goroutine with an rpc frame survives 10 s. Non-trivial: at least one call was pending when the connection went down.",
	Quick: 100, Thorough: 700,
	Gen: func(t *rapid.T) Case {
		c := Case{CloseMode: rapid.IntRange(0, 3).Draw(t, "close"), OnlyIndex: -1, CloseFails: rapid.IntRange(0, 3).Draw(t, "closefails") == 0}
		for i, n := 0, rapid.IntRange(2, 10).Draw(t, "n"); i < n; i++ {
			kinds := stepKinds
			if i == 0 {
				kinds = firstKinds
			}
			c.Steps = append(c.Steps, Step{K: rapid.SampledFrom(kinds).Draw(t, "k"), A: rapid.IntRange(0, 5).Draw(t, "a")})
		}
		return c
	},
	Run: run,
})

var _ = strings.Contains
