package c09

import (
	"context"
	"fmt"
	"io"
	"sync"
	"time"

	capnp "capnproto.org/go/capnp/v3"
	"capnproto.org/go/capnp/v3/rpc"
	"capnproto.org/go/capnp/v3/verifharness/pbt"
	"capnproto.org/go/capnp/v3/verifharness/ref"
	"capnproto.org/go/capnp/v3/verifharness/rpcsim"
	"pgregory.net/rapid"
)

// SCase: a scenario over the real stream transports (rpc.NewStreamTransport / NewPackedStreamTransport) on a
// harness-owned byte pipe, with one fault at a Write or Read call of the pipe.
type SCase struct {
	Packed bool `json:"packed"`
	// Deadline: the stream has SetReadDeadline/SetWriteDeadline (what a net.Conn gives the transport): context
	// cancellation interrupts reads and writes through them, and stall faults become possible
	Deadline bool   `json:"deadline,omitempty"`
	Steps    []Step `json:"steps"`
	Keeps    []int  `json:"keeps"` // how many bytes a faulted Write accepts / a faulted Read delivers (mod length); one run per entry
	// Only restricts the run to one fault (replay).
	Only *rpcsim.PipeFault `json:"only,omitempty"`
}

type sOutcome struct {
	writes, reads int
	pending       int
	conts         int // Writes that completed a buffer an interrupted Write had left unfinished
	tornByClose   int
}

// wholeFrames reports whether the byte stream b (after unpacking, if packed) is a sequence of complete frames.
func wholeFrames(b []byte, packed bool) (bool, string) {
	if packed {
		u, err := ref.Unpack(b)
		if err != nil {
			return false, err.Error()
		}
		b = u
	}
	for len(b) > 0 {
		if len(b) < 8 {
			return false, "inside a segment table"
		}
		nseg := int(uint32(b[0])|uint32(b[1])<<8|uint32(b[2])<<16|uint32(b[3])<<24) + 1
		if nseg > 64 {
			return false, "implausible segment count"
		}
		hdr := 4 + 4*nseg
		if hdr%8 != 0 {
			hdr += 4
		}
		if len(b) < hdr {
			return false, "inside a segment table"
		}
		total := hdr
		for i := 0; i < nseg; i++ {
			o := 4 + 4*i
			total += 8 * int(uint32(b[o])|uint32(b[o+1])<<8|uint32(b[o+2])<<16|uint32(b[o+3])<<24)
		}
		if len(b) < total {
			return false, "inside a segment"
		}
		b = b[total:]
	}
	return true, ""
}

// splitFrames returns the complete frames at the start of the byte stream b (after unpacking, if packed).
func splitFrames(b []byte, packed bool) [][]byte {
	if packed {
		u, _ := ref.Unpack(b) // on truncation: the words decoded so far
		b = u
	}
	var out [][]byte
	for len(b) >= 8 {
		nseg := int(uint32(b[0])|uint32(b[1])<<8|uint32(b[2])<<16|uint32(b[3])<<24) + 1
		if nseg > 64 {
			break
		}
		hdr := 4 + 4*nseg
		if hdr%8 != 0 {
			hdr += 4
		}
		if len(b) < hdr {
			break
		}
		total := hdr
		for i := 0; i < nseg; i++ {
			o := 4 + 4*i
			total += 8 * int(uint32(b[o])|uint32(b[o+1])<<8|uint32(b[o+2])<<16|uint32(b[o+3])<<24)
		}
		if len(b) < total {
			break
		}
		out = append(out, b[:total])
		b = b[total:]
	}
	return out
}

// frameDiscipline checks the Write calls that put bytes into the stream against the frame grammar: the encoder hands
// the stream one buffer for the segment table and one per segment, so a table announcing k segments must be followed
// by exactly those k buffers before the next table - a frame that was abandoned half-way may only be followed by
// silence.  (A Write that continues a partly accepted buffer belongs to that buffer.)
func frameDiscipline(recs []rpcsim.WriteRec, packed bool) error {
	var due []int
	for i, r := range recs {
		if r.Accepted == 0 || r.Cont {
			continue
		}
		b := r.Buf
		if packed {
			u, err := ref.Unpack(b)
			if err != nil {
				return fmt.Errorf("Write #%d: buffer does not unpack: %v", i, err)
			}
			b = u
		}
		if len(due) > 0 {
			if len(b) != due[0] {
				return fmt.Errorf("Write #%d put a %d-byte buffer (%x...) into the stream while a %d-byte segment of the frame begun earlier was still due: the peer reads it as that segment", i, len(b), clip(b), due[0])
			}
			due = due[1:]
			continue
		}
		if len(b) < 8 || len(b)%8 != 0 {
			return fmt.Errorf("Write #%d: a %d-byte buffer where a segment table was due", i, len(b))
		}
		nseg := int(uint32(b[0])|uint32(b[1])<<8|uint32(b[2])<<16|uint32(b[3])<<24) + 1
		hdr := 4 + 4*nseg
		if hdr%8 != 0 {
			hdr += 4
		}
		if nseg > 64 || len(b) != hdr {
			return fmt.Errorf("Write #%d: buffer %x... is not a segment table (%d segments announced, %d bytes)", i, clip(b), nseg, len(b))
		}
		for k := 0; k < nseg; k++ {
			o := 4 + 4*k
			due = append(due, 8*int(uint32(b[o])|uint32(b[o+1])<<8|uint32(b[o+2])<<16|uint32(b[o+3])<<24))
		}
	}
	return nil
}

func clip(b []byte) []byte {
	if len(b) > 16 {
		return b[:16]
	}
	return b
}

func runStream(c SCase, fault *rpcsim.PipeFault) (*sOutcome, error) {
	before := rpcGoroutines()
	p := rpcsim.NewPipe()
	if fault != nil {
		f := *fault
		p.Fault = &f
	}
	var rwc io.ReadWriteCloser = p
	if c.Deadline {
		rwc = rpcsim.DPipe{Pipe: p}
	}
	var tr rpc.Transport
	if c.Packed {
		tr = rpc.NewPackedStreamTransport(rwc)
	} else {
		tr = rpc.NewStreamTransport(rwc)
	}
	if fault != nil && fault.Dead {
		// the stream stays stuck after the stall: the transport gives the rest of the frame this long
		tr.(interface{ SetPartialWriteTimeout(time.Duration) }).SetPartialWriteTimeout(30 * time.Millisecond)
	}
	// every context the application passes in; a stalled Write is met by cancelling them all
	var ctxMu sync.Mutex
	var cancels []context.CancelFunc
	newCtx := func() (context.Context, context.CancelFunc) {
		ctx, cancel := context.WithCancel(context.Background())
		ctxMu.Lock()
		cancels = append(cancels, cancel)
		ctxMu.Unlock()
		return ctx, cancel
	}
	runOver := make(chan struct{})
	defer close(runOver)
	go func() {
		select {
		case <-p.Stalled():
		case <-runOver:
			return
		}
		ctxMu.Lock()
		for _, cancel := range cancels {
			cancel()
		}
		ctxMu.Unlock()
		// a Write made under a context nobody can cancel (the connection's own messages) stays stalled: the stream
		// recovers by itself after a while
		for i := 0; i < 150 && !p.StallOver(); i++ {
			time.Sleep(time.Millisecond)
		}
		if !p.StallOver() || fault.Dead {
			if fault.Dead {
				time.Sleep(60 * time.Millisecond) // past the partial-write timeout
			}
			p.Resume()
		}
	}()
	peer := rpcsim.NewWire()
	peer.Sink = func(b []byte) {
		if c.Packed {
			b = ref.Pack(b, nil)
		}
		p.Feed(b)
	}
	world := rpcsim.NewWorld()
	_, boot := world.NewObject()
	conn := rpc.NewConn(tr, &rpc.Options{BootstrapClient: boot, AbortTimeout: 5 * time.Second})
	out := &sOutcome{}
	guard := func(what string, f func()) error {
		done := make(chan struct{})
		go func() { defer close(done); f() }()
		select {
		case <-done:
			return nil
		case <-time.After(deadline):
			return pbt.Fail("hang/"+what, "%s did not return within %v (fault %+v)\n%s", what, deadline, fault, pbt.Stacks("capnp/v3/rpc."))
		}
	}
	var clients []*capnp.Client
	var calls []*appCall
	var peerQ uint32
	var serial uint64
	var asked []rpcsim.Msg
	seenFrames := 0
	settle := func() {
		// wait until the byte counts stop moving (bounded)
		last, same := -1, 0
		for i := 0; i < 400 && same < 3; i++ {
			acc, w, r, _, _, _, _ := p.Snapshot()
			cur := len(acc)*7 + w*3 + r
			if cur == last {
				same++
			} else {
				same = 0
			}
			last = cur
			time.Sleep(300 * time.Microsecond)
		}
	}
	for _, s := range c.Steps {
		var err error
		switch s.K {
		case "app-bootstrap":
			bctx, _ := newCtx()
			err = guard("Conn.Bootstrap", func() { clients = append(clients, conn.Bootstrap(bctx)) })
		case "app-call":
			if len(clients) == 0 {
				continue
			}
			cl := clients[s.A%len(clients)]
			ctx, cancel := newCtx()
			ac := &appCall{cancel: cancel}
			calls = append(calls, ac)
			err = guard("Client.SendCall", func() {
				ac.ans, ac.rel = cl.SendCall(ctx, capnp.Send{Method: capnp.Method{InterfaceID: rpcsim.Iface, MethodID: rpcsim.Method}, ArgsSize: capnp.ObjectSize{DataSize: 16, PointerCount: 1},
					PlaceArgs: func(st capnp.Struct) error {
						st.SetUint64(0, 7)
						if s.A%2 == 1 {
							// a second segment in the outgoing message: more Write calls per frame
							d, err := capnp.NewData(st.Segment(), make([]byte, 5000))
							if err != nil {
								return err
							}
							return st.SetPtr(0, d.ToPtr())
						}
						return nil
					}})
			})
		case "app-pipeline":
			if len(calls) == 0 {
				continue
			}
			base := calls[s.A%len(calls)]
			if base.ans == nil {
				continue
			}
			ctx, cancel := newCtx()
			ac := &appCall{cancel: cancel}
			calls = append(calls, ac)
			err = guard("Answer.PipelineSend", func() {
				ac.ans, ac.rel = base.ans.PipelineSend(ctx, []capnp.PipelineOp{{Field: 0}}, capnp.Send{Method: capnp.Method{InterfaceID: rpcsim.Iface, MethodID: rpcsim.Method}, ArgsSize: capnp.ObjectSize{DataSize: 16}})
			})
		case "app-cancel":
			if len(calls) > 0 {
				calls[s.A%len(calls)].cancel()
			}
		case "app-release":
			if len(clients) > 0 {
				i := s.A % len(clients)
				cl := clients[i]
				clients = append(clients[:i], clients[i+1:]...)
				err = guard("Client.Release", func() { cl.Release() })
			}
		case "peer-bootstrap":
			peerQ++
			peer.SendBootstrap(peerQ)
		case "peer-call", "peer-held-call":
			peerQ++
			serial++
			fl := uint64(0)
			if s.K == "peer-held-call" {
				fl = rpcsim.FlagHold
			}
			if s.A%3 == 1 {
				fl |= rpcsim.CapNewObject << rpcsim.FlagCapShift
			}
			peer.SendCall(rpcsim.PeerCall{Q: peerQ, Target: rpcsim.Target{ID: 0}, Serial: serial, Flags: fl})
		case "peer-finish":
			if peerQ > 0 {
				peer.SendFinish(uint32(1+s.A%int(peerQ)), s.A%2 == 0)
			}
		case "peer-return", "peer-return-exc":
			// answer the oldest question the Conn has asked (read from the bytes it wrote) and the peer has not answered
			acc, _, _, _, _, _, _ := p.Snapshot()
			fr := splitFrames(acc, c.Packed)
			for ; seenFrames < len(fr); seenFrames++ {
				if m := rpcsim.Parse(fr[seenFrames]); m.Which == "bootstrap" || m.Which == "call" {
					asked = append(asked, m)
				}
			}
			if len(asked) == 0 {
				continue
			}
			q := asked[0]
			asked = asked[1:]
			switch {
			case s.K == "peer-return-exc":
				peer.SendReturn(rpcsim.PeerReturn{A: q.ID, Exc: "peer says no"})
			case q.Which == "bootstrap":
				peer.SendReturn(rpcsim.PeerReturn{A: q.ID, ContentCap: true, Caps: []rpcsim.CapDesc{{Kind: "senderHosted", ID: uint32(s.A % 2)}}})
			default:
				peer.SendReturn(rpcsim.PeerReturn{A: q.ID, Serial: 5, Caps: []rpcsim.CapDesc{{Kind: "senderHosted", ID: uint32(s.A % 2)}}})
			}
		case "open":
			world.OpenUpTo(serial)
		case "barrier":
			settle()
		}
		if err != nil {
			return out, err
		}
	}
	settle()
	for _, ac := range calls {
		if ac.ans != nil {
			select {
			case <-ac.ans.Done():
			default:
				out.pending++
			}
		}
	}
	// The stream the peer sees: once a Write failed having accepted only part of a frame (or a frame's header without
	// its segments), nothing more may be written: every later byte would be parsed by the peer as the rest of the torn
	// frame.  (Close's Abort message is subject to the same rule.)
	if err := guard("Conn.Close", func() { conn.Close() }); err != nil {
		return out, err
	}
	select {
	case <-conn.Done():
	case <-time.After(deadline):
		return out, pbt.Fail("hang/done", "Done() not closed after Close returned")
	}
	world.OpenUpTo(1 << 62)
	for i, ac := range calls {
		if ac.ans == nil {
			continue
		}
		if err := guard(fmt.Sprintf("answer %d", i), func() { ac.ans.Struct() }); err != nil {
			return out, err
		}
		if err := guard(fmt.Sprintf("release of answer %d", i), func() { ac.rel() }); err != nil {
			return out, err
		}
		ac.cancel()
	}
	for _, cl := range clients {
		cl := cl
		if err := guard("Client.Release after Close", func() { cl.Release() }); err != nil {
			return out, err
		}
	}
	acc, writes, reads, faulted, atFault, later, closed := p.Snapshot()
	out.writes, out.reads = writes, reads
	if !closed {
		return out, pbt.Fail("stream/not-closed", "the underlying stream was not closed by Conn.Close")
	}
	if fault != nil && fault.Write && faulted && !fault.Stall {
		if ok, where := wholeFrames(acc[:atFault], c.Packed); !ok && later > 0 {
			return out, pbt.Fail("stream/write-after-torn-frame", "Write #%d failed after the stream had accepted %d bytes, ending %s; the connection then wrote %d more bytes into the same stream, which the peer can only misparse (fault %+v)", fault.Index, atFault, where, later, *fault)
		}
	}
	recs, garbage := p.WriteRecs()
	if garbage != "" {
		return out, pbt.Fail("stream/garbage-after-partial-write", "%s (fault %+v)", garbage, *fault)
	}
	for _, r := range recs {
		if r.Cont && r.Accepted > 0 {
			out.conts++
		}
	}
	if err := frameDiscipline(recs, c.Packed); err != nil {
		return out, pbt.Fail("stream/write-after-torn-frame", "%v (fault %+v)", err, fault)
	}
	if fault == nil {
		if ok, _ := wholeFrames(acc, c.Packed); !ok {
			// No fault, and yet the stream ends inside a frame: Close cancels the connection's context, and a frame whose
			// segment table had gone out when that happened is abandoned (the transport then counts as broken and
			// nothing follows - which frameDiscipline above has checked).  Seen once in 19000 scenarios, on a loaded
			// machine; counted, not a violation.
			out.tornByClose++
		}
	}
	st := quietState(conn)
	if !st.MuFree {
		return out, pbt.Fail("lock-held/conn-mutex", "Conn.mu is still locked after Close returned (fault %+v)", fault)
	}
	if !st.SenderFree {
		return out, pbt.Fail("lock-held/sender", "the sender lock is still held after Close returned (fault %+v)", fault)
	}
	t0 := time.Now()
	var left string
	for {
		left = ""
		for id, g := range rpcGoroutines() {
			if _, old := before[id]; !old {
				left += g + "\n\n"
			}
		}
		if left == "" || time.Since(t0) > 10*time.Second {
			break
		}
		time.Sleep(2 * time.Millisecond)
	}
	if left != "" {
		return out, pbt.Fail("goroutine-leak", "goroutines with rpc frames are still alive 10 s after Close (fault %+v):\n%s", fault, left)
	}
	return out, nil
}

func runS(c SCase) (pbt.Result, error) {
	var res pbt.Result
	if c.Only != nil {
		_, err := runStream(c, c.Only)
		return res, err
	}
	base, err := runStream(c, nil)
	if err != nil {
		if v, ok := err.(*pbt.Violation); ok {
			v.Sig = "fault-free/" + v.Sig
		}
		return res, err
	}
	res.Count("base_writes", int64(base.writes))
	res.Count("fault_free_runs_torn_by_close", int64(base.tornByClose))
	res.Count("base_reads", int64(base.reads))
	points, stalls, conts := 0, 0, 0
	pending := base.pending > 0
	try := func(f rpcsim.PipeFault) error {
		o, err := runStream(c, &f)
		points++
		if o != nil && o.pending > 0 {
			pending = true
		}
		if o != nil {
			conts += o.conts
		}
		if v, ok := err.(*pbt.Violation); ok {
			side := "read"
			if f.Write {
				side = "write"
			}
			v.Sig = fmt.Sprintf("%s/at-%s", v.Sig, side)
		}
		return err
	}
	for k := 0; k < base.writes; k++ {
		for _, keep := range c.Keeps {
			if err := try(rpcsim.PipeFault{Write: true, Index: k, Keep: keep}); err != nil {
				return res, err
			}
		}
	}
	if c.Deadline {
		// the k-th Write stalls after taking part of its buffer; the application cancels; the stream recovers at once
		// (the frame can be completed) or stays stuck beyond the partial-write timeout (it cannot)
		for k := 0; k < base.writes; k++ {
			for _, keep := range c.Keeps {
				for _, dead := range []bool{false, true} {
					if err := try(rpcsim.PipeFault{Write: true, Index: k, Keep: keep, Stall: true, Dead: dead}); err != nil {
						return res, err
					}
					stalls++
				}
			}
		}
	}
	for k := 0; k < base.reads; k++ {
		for _, keep := range c.Keeps {
			for _, eof := range []bool{false, true} {
				if err := try(rpcsim.PipeFault{Index: k, Keep: keep, EOF: eof}); err != nil {
					return res, err
				}
			}
		}
	}
	res.Count("fault_points", int64(points))
	res.Count("scenarios_exhaustive", 1)
	res.Count("stall_points", int64(stalls))
	res.Count("interrupted_writes_completed", int64(conts))
	res.Class("packed:%v", c.Packed)
	res.Class("deadline-stream:%v", c.Deadline)
	res.Class("writes:%s", bucket(base.writes))
	res.Nontrivial = pending
	return res, nil
}

var _ = pbt.Register(pbt.Spec[SCase]{
	Property: "C09", Name: "stream-faults",
	Rule:  "the same step vocabulary as fault-enumeration, but over the repository's own stream transports (plain and packed) on a harness-owned byte pipe, half of the cases without and half with SetRead/WriteDeadline (the net.Conn path: cancellation interrupts stream calls through deadlines). The scenario is run fault-free to count the pipe's Write calls W and Read calls R; it is then re-run for EVERY Write index (failing after accepting 0 or a drawn number of bytes, always short of the buffer) and EVERY Read index (delivering 0 or a drawn number of bytes, then an error or EOF). With a deadline-capable stream, EVERY Write index is also re-run as a STALL: the stream takes 0 or the drawn number of bytes and stops; every application context is cancelled; the stream then either recovers at once (the transport completes the frame within its partial-write timeout) or stays stuck beyond that timeout (30 ms). Oracle per run: the termination/cleanup oracle of fault-enumeration, the stream is closed, and once a failed Write left the stream in the middle of a frame (judged by an independent frame/packing parser) no later byte is written into it; bytes written after a partly accepted buffer are exactly the missing rest of that buffer; the Write calls follow the frame grammar (a segment table announcing k segments is followed by exactly those k buffers before the next table), so nothing the peer reads can be garbage. Non-trivial: a call was pending when the stream failed.",
	Quick: 40, Thorough: 120,
	Gen: func(t *rapid.T) SCase {
		c := SCase{Packed: rapid.Bool().Draw(t, "packed"), Deadline: rapid.Bool().Draw(t, "deadline"), Keeps: []int{0, rapid.IntRange(1, 4000).Draw(t, "keep")}}
		for i, n := 0, rapid.IntRange(2, 8).Draw(t, "n"); i < n; i++ {
			kinds := stepKinds
			if i == 0 {
				kinds = firstKinds
			}
			c.Steps = append(c.Steps, Step{K: rapid.SampledFrom(kinds).Draw(t, "k"), A: rapid.IntRange(0, 5).Draw(t, "a")})
		}
		return c
	},
	Run: runS,
})
