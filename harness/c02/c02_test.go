package c02

import (
	"fmt"
	"runtime"
	"runtime/debug"
	"sync"
	"sync/atomic"
	"testing"
	"time"

	capnp "capnproto.org/go/capnp/v3"
	"capnproto.org/go/capnp/v3/encoding/text"
	air "capnproto.org/go/capnp/v3/internal/aircraftlib"
	"capnproto.org/go/capnp/v3/pogs"
	"capnproto.org/go/capnp/v3/verifharness/gen"
	"capnproto.org/go/capnp/v3/verifharness/hx"
	"capnproto.org/go/capnp/v3/verifharness/mirror"
	"capnproto.org/go/capnp/v3/verifharness/pbt"
	"capnproto.org/go/capnp/v3/verifharness/ref"
	"pgregory.net/rapid"
)

func TestProp(t *testing.T)   { pbt.RunProps(t) }
func TestReplay(t *testing.T) { pbt.RunReplay(t) }

func init() { debug.SetMaxStack(256 << 20) }

// ---------------------------------------------------------------------------
// graph generator: objects with arbitrary edges (cycles, sharing)

func genGraph(t *rapid.T, zShaped bool) ref.Graph {
	n := rapid.IntRange(1, 7).Draw(t, "nobj")
	g := ref.Graph{Objs: make([]ref.Obj, n)}
	edge := func(label string) ref.PtrRef {
		switch rapid.IntRange(0, 9).Draw(t, label+"k") {
		case 0:
			return ref.PtrRef{Kind: ref.PNull}
		case 1:
			if !zShaped {
				return ref.PtrRef{Kind: ref.PCap, Cap: 0}
			}
			return ref.PtrRef{Kind: ref.PNull}
		default:
			return ref.PtrRef{Kind: ref.PObj, Obj: rapid.IntRange(0, n-1).Draw(t, label)}
		}
	}
	for i := range g.Objs {
		kind := rapid.IntRange(0, 9).Draw(t, "okind")
		if i == 0 {
			kind = 0 // the root object is a struct
		}
		switch {
		case kind <= 3: // struct
			o := ref.Obj{DW: rapid.IntRange(0, 2).Draw(t, "dw"), PC: rapid.IntRange(1, 3).Draw(t, "pc")}
			if zShaped {
				o.DW, o.PC = 3, 1
			}
			o.Data = make([]byte, o.DW*8)
			for j := 0; j < o.PC; j++ {
				o.Ptrs = append(o.Ptrs, edge("se"))
			}
			g.Objs[i] = o
		case kind <= 5: // pointer list
			cnt := rapid.IntRange(0, 3).Draw(t, "pln")
			o := ref.Obj{IsList: true, LK: ref.LPtr, N: cnt}
			for j := 0; j < cnt; j++ {
				o.Ptrs = append(o.Ptrs, edge("pe"))
			}
			g.Objs[i] = o
		case kind <= 8: // composite list (possibly of zero-sized elements)
			cnt := rapid.IntRange(0, 3).Draw(t, "cln")
			o := ref.Obj{IsList: true, LK: ref.LComposite, N: cnt, DW: rapid.IntRange(0, 1).Draw(t, "cdw"), PC: rapid.IntRange(0, 2).Draw(t, "cpc")}
			if zShaped {
				o.DW, o.PC = 3, 1
			}
			if rapid.IntRange(0, 7).Draw(t, "zerosized") == 0 && !zShaped {
				o.DW, o.PC = 0, 0
				o.N = rapid.SampledFrom([]int{1, 8, 100, 1000}).Draw(t, "zn")
			}
			o.Data = make([]byte, o.N*o.DW*8)
			for j := 0; j < o.N*o.PC; j++ {
				o.Ptrs = append(o.Ptrs, edge("ce"))
			}
			g.Objs[i] = o
		default: // leaf list: text, void or bit list
			switch rapid.IntRange(0, 2).Draw(t, "leaf") {
			case 0:
				g.Objs[i] = ref.Obj{IsList: true, LK: ref.LB1, N: 6, Data: []byte("hello\x00")}
			case 1:
				g.Objs[i] = ref.Obj{IsList: true, LK: ref.LVoid, N: rapid.SampledFrom([]int{0, 1, 9, 500}).Draw(t, "vn")}
			default:
				nb := rapid.SampledFrom([]int{1, 8, 65, 300}).Draw(t, "bn")
				g.Objs[i] = ref.Obj{IsList: true, LK: ref.LBit, N: nb, Data: make([]byte, (nb+7)/8)}
			}
		}
	}
	g.Root = ref.PtrRef{Kind: ref.PObj, Obj: 0}
	if zShaped {
		// make the discriminants agree with what each struct points at, so schema-driven consumers follow the cycle
		setDisc := func(data []byte, r ref.PtrRef) {
			d := uint16(0)
			if r.Kind == ref.PObj {
				to := g.Objs[r.Obj]
				switch {
				case !to.IsList:
					d = 1 // zz
				case to.LK == ref.LComposite:
					d = 25 // zvec
				case to.LK == ref.LPtr:
					d = 26 // zvecvec
				case to.LK == ref.LB1:
					d = 13 // text
				case to.LK == ref.LBit:
					d = 39 // boolvec
				}
			}
			data[0], data[1] = byte(d), byte(d>>8)
		}
		for i := range g.Objs {
			o := &g.Objs[i]
			switch {
			case !o.IsList:
				setDisc(o.Data, o.Ptrs[0])
			case o.LK == ref.LComposite:
				for e := 0; e < o.N; e++ {
					setDisc(o.Data[e*24:], o.Ptrs[e])
				}
			}
		}
	}
	return g
}

func hasCycleOrSharing(g ref.Graph) bool {
	indeg := make([]int, len(g.Objs))
	for _, o := range g.Objs {
		for _, r := range o.Ptrs {
			if r.Kind == ref.PObj {
				indeg[r.Obj]++
			}
		}
	}
	if g.Root.Kind == ref.PObj {
		indeg[g.Root.Obj]++
	}
	for _, d := range indeg {
		if d >= 2 {
			return true
		}
	}
	return false
}

// objSize is the size (bytes) the property charges for a dereferenced object.
func objSize(t ref.Target, segs [][]byte) uint64 {
	p := t.PtrWord
	switch t.Kind {
	case ref.KStruct:
		return uint64(uint16(p>>32))*8 + uint64(uint16(p>>48))*8
	case ref.KList:
		lk := ref.ListKind(p >> 32 & 7)
		n := uint64(p >> 35)
		switch lk {
		case ref.LVoid:
			return 8 * n // a zero-sized element counts as one word
		case ref.LBit:
			return (n + 7) / 8
		case ref.LPtr:
			return 8 * n
		case ref.LComposite:
			d := &ref.Decoder{Segs: segs}
			_ = d
			if t.Word >= 0 && (t.Word+1)*8 <= len(segs[t.Seg]) {
				tag := leU64(segs[t.Seg][t.Word*8:])
				cnt := uint64(uint32(tag) >> 2)
				esz := (uint64(uint16(tag>>32)) + uint64(uint16(tag>>48))) * 8
				if esz == 0 {
					esz = 8
				}
				return cnt * esz
			}
			return 0
		default:
			return n * uint64(lk.ElemBytes())
		}
	}
	return 0
}

func leU64(b []byte) uint64 {
	return uint64(b[0]) | uint64(b[1])<<8 | uint64(b[2])<<16 | uint64(b[3])<<24 | uint64(b[4])<<32 | uint64(b[5])<<40 | uint64(b[6])<<48 | uint64(b[7])<<56
}

// ---------------------------------------------------------------------------
// walker: follows the API in lock step with ref.Resolve to know object sizes

type stats struct {
	handedOut uint64 // sum of sizes of successfully dereferenced objects
	derefs    int
	maxDepth  int
	limitErrs map[string]int
	steps     int
	viaComp   bool
	viaPtrL   bool
}

type walker struct {
	msg   *capnp.Message
	segs  [][]byte
	d     *ref.Decoder
	D     int
	T     uint64
	st    *stats
	maxSt int
	// choices for the random-path mode (nil = DFS)
	choices []int
	ci      int
	hook    bool
	mu      *sync.Mutex
}

func (w *walker) choose(n int) int {
	if w.choices == nil || n <= 0 {
		return -1
	}
	v := w.choices[w.ci%len(w.choices)]
	w.ci++
	return v % n
}

// deref checks one dereference outcome at pointer location (seg, word); depth = successes so far on this path.
func (w *walker) deref(p capnp.Ptr, perr error, seg, word, depth int, path string) error {
	w.st.steps++
	if w.st.steps > w.maxSt {
		return nil
	}
	if perr != nil {
		w.st.limitErrs[classifyErr(perr)]++
		return nil
	}
	if !p.IsValid() {
		return nil
	}
	t, rerr := w.d.Resolve(seg, word)
	if rerr != nil || t.Kind == ref.KNull {
		return nil // not this property's business (C01/C03)
	}
	if t.Kind == ref.KCap {
		return nil
	}
	depth++
	w.st.derefs++
	if depth > w.st.maxDepth {
		w.st.maxDepth = depth
	}
	if depth > w.D {
		return pbt.Fail("depth-limit-exceeded/"+pathShape(path), "pointer successfully dereferenced at level %d with DepthLimit %d (path %s)", depth, w.D, path)
	}
	sz := objSize(t, w.segs)
	w.st.handedOut += sz
	if w.st.handedOut > w.T {
		return pbt.Fail("traversal-limit-exceeded", "objects handed out total %d bytes with TraverseLimit %d (last: %d bytes at %s)", w.st.handedOut, w.T, sz, path)
	}
	switch t.Kind {
	case ref.KStruct:
		s := p.Struct()
		if !s.IsValid() {
			return nil
		}
		dw, pc := int(uint16(t.PtrWord>>32)), int(uint16(t.PtrWord>>48))
		return w.structPtrs(s, t.Seg, t.Word, dw, pc, depth, path)
	case ref.KList:
		l := p.List()
		if !l.IsValid() {
			return nil
		}
		lk := ref.ListKind(t.PtrWord >> 32 & 7)
		cnt := int(t.PtrWord >> 35)
		switch lk {
		case ref.LPtr:
			w.st.viaPtrL = true
			idx := rangeOrChoice(w, cnt)
			for _, i := range idx {
				c, err := capnp.PointerList{List: l}.At(i)
				if e := w.deref(c, err, t.Seg, t.Word+i, depth, fmt.Sprintf("%s[%d]", path, i)); e != nil {
					return e
				}
			}
		case ref.LComposite:
			w.st.viaComp = true
			tag := leU64(w.segs[t.Seg][t.Word*8:])
			n := int(uint32(tag) >> 2)
			dw, pc := int(uint16(tag>>32)), int(uint16(tag>>48))
			if n > l.Len() {
				n = l.Len()
			}
			idx := rangeOrChoice(w, n)
			for _, i := range idx {
				s := l.Struct(i)
				if !s.IsValid() {
					continue
				}
				// projecting an element is not a pointer dereference: depth unchanged
				if e := w.structPtrs(s, t.Seg, t.Word+1+i*(dw+pc), dw, pc, depth, fmt.Sprintf("%s{%d}", path, i)); e != nil {
					return e
				}
				if pc > 0 {
					// the same element through the pointer-list view
					c, err := capnp.PointerList{List: l}.At(i)
					if e := w.deref(c, err, t.Seg, t.Word+1+i*(dw+pc)+dw, depth, fmt.Sprintf("%s{%d}^", path, i)); e != nil {
						return e
					}
				}
			}
		}
	}
	return nil
}

func rangeOrChoice(w *walker, n int) []int {
	if n <= 0 {
		return nil
	}
	if w.choices != nil {
		return []int{w.choose(n)}
	}
	if n > 6 {
		return []int{0, 1, n / 2, n - 1}
	}
	out := make([]int, n)
	for i := range out {
		out[i] = i
	}
	return out
}

func (w *walker) structPtrs(s capnp.Struct, seg, word, dw, pc, depth int, path string) error {
	idx := rangeOrChoice(w, pc)
	for _, i := range idx {
		c, err := s.Ptr(uint16(i))
		if e := w.deref(c, err, seg, word+dw+i, depth, fmt.Sprintf("%s.%d", path, i)); e != nil {
			return e
		}
		if w.st.steps > w.maxSt {
			return nil
		}
	}
	return nil
}

func classifyErr(err error) string {
	s := err.Error()
	switch {
	case contains(s, "depth limit"):
		return "depth"
	case contains(s, "traversal limit"):
		return "traversal"
	}
	return "other"
}

func contains(s, sub string) bool {
	for i := 0; i+len(sub) <= len(s); i++ {
		if s[i:i+len(sub)] == sub {
			return true
		}
	}
	return false
}

func pathShape(path string) string {
	comp, pl := false, false
	for _, c := range path {
		if c == '{' {
			comp = true
		}
		if c == '[' {
			pl = true
		}
	}
	switch {
	case comp && pl:
		return "mixed"
	case comp:
		return "via-struct-list"
	case pl:
		return "via-pointer-list"
	}
	return "struct-fields"
}

// ---------------------------------------------------------------------------

type Case struct {
	Graph   ref.Graph      `json:"graph"`
	Plan    ref.Plan       `json:"plan"`
	T       uint64         `json:"traverse_limit"` // 0 = default
	D       uint           `json:"depth_limit"`    // 0 = default
	Choices [][]int        `json:"choices"`        // one random path script per reader; empty = one DFS
	Conc    bool           `json:"concurrent"`
	Muts    []gen.Mutation `json:"mutations"`
	// Lie > 0: composite list pointers declare fewer words than their tag word implies (1: zero words, 2: one word,
	// 3: half).  The elements are all there, so what is handed out is what the tag describes.
	Lie int `json:"lie,omitempty"`
}

// lieComposite rewrites the word count of every well-formed composite list pointer in the segments.
func lieComposite(segs [][]byte, mode int) int {
	n := 0
	for si, seg := range segs {
		for w := 0; w+1 <= len(seg)/8; w++ {
			p := leU64(seg[w*8:])
			if p&3 != 1 || (p>>32)&7 != 7 {
				continue
			}
			off := int(int32(uint32(p)) >> 2)
			words := int(p >> 35)
			tw := w + 1 + off
			if tw < 0 || (tw+1+words)*8 > len(segs[si]) {
				continue
			}
			tag := leU64(seg[tw*8:])
			cnt := int(uint32(tag) >> 2)
			esz := int(uint16(tag>>32)) + int(uint16(tag>>48))
			if tag&3 != 0 || cnt*esz != words || words == 0 {
				continue
			}
			nw := 0
			switch mode {
			case 2:
				nw = 1
			case 3:
				nw = words / 2
			}
			if nw >= words {
				continue
			}
			p = p&(1<<35-1) | uint64(nw)<<35
			for i := 0; i < 8; i++ {
				seg[w*8+i] = byte(p >> (8 * uint(i)))
			}
			n++
		}
	}
	return n
}

func effT(t uint64) uint64 {
	if t == 0 {
		return 64 << 20
	}
	return t
}
func effD(d uint) int {
	if d == 0 {
		return 64
	}
	return int(d)
}

func run(c Case) (pbt.Result, error) {
	var res pbt.Result
	L, err := ref.Encode(c.Graph, c.Plan)
	if err != nil {
		return res, nil
	}
	raw := L.Segs
	gen.Apply(raw, c.Muts)
	if c.Lie > 0 {
		if lieComposite(raw, c.Lie) > 0 {
			res.Class("lying-composite-pointer")
		}
	}
	segs, _ := hx.Carve(raw)
	msg := &capnp.Message{Arena: capnp.MultiSegment(segs), TraverseLimit: c.T, DepthLimit: c.D}
	T, D := effT(c.T), effD(c.D)
	res.Class("cyclic-or-shared:%v", hasCycleOrSharing(c.Graph))
	res.Class("D-parity:%d", D%2)
	res.Class("concurrent:%v", c.Conc)

	newWalker := func(st *stats, choices []int) *walker {
		return &walker{msg: msg, segs: raw, d: &ref.Decoder{Segs: raw}, D: D, T: T, st: st, maxSt: 6000, choices: choices}
	}
	total := &stats{limitErrs: map[string]int{}}
	if !c.Conc {
		scripts := c.Choices
		if len(scripts) == 0 {
			scripts = [][]int{nil}
		}
		before := msg.VerifReadLimit()
		if before != T {
			return res, pbt.Fail("budget-init", "initial read budget %d, configured %d", before, T)
		}
		for _, sc := range scripts {
			w := newWalker(total, sc)
			// exact accounting with the hook: budget never increases, and drops by at least the size handed out
			b0, h0 := msg.VerifReadLimit(), total.handedOut
			p, perr := msg.Root()
			if e := w.deref(p, perr, 0, 0, 0, "r"); e != nil {
				return res, e
			}
			b1 := msg.VerifReadLimit()
			if b1 > b0 {
				return res, pbt.Fail("budget-increased", "read budget went from %d to %d during a walk", b0, b1)
			}
			if b0-b1 < total.handedOut-h0 {
				return res, pbt.Fail("budget-undercharged", "objects of %d bytes handed out, budget dropped by only %d", total.handedOut-h0, b0-b1)
			}
		}
	} else {
		var wg sync.WaitGroup
		sts := make([]*stats, len(c.Choices))
		errs := make([]error, len(c.Choices))
		// the readers leave a spin gate together: their very first reads of the fresh message (which set up the read
		// budget) overlap as closely as the scheduler allows
		var gate, ready int32
		for i := range c.Choices {
			sts[i] = &stats{limitErrs: map[string]int{}}
			wg.Add(1)
			go func(i int) {
				defer wg.Done()
				w := newWalker(sts[i], c.Choices[i])
				w.T = ^uint64(0) // per-reader sums are checked after the join
				atomic.AddInt32(&ready, 1)
				for spins := 0; atomic.LoadInt32(&gate) == 0; spins++ {
					if spins > 1000 {
						runtime.Gosched()
					}
				}
				for rep := 0; rep < 4; rep++ {
					p, perr := msg.Root()
					if e := w.deref(p, perr, 0, 0, 0, "r"); e != nil {
						errs[i] = e
						return
					}
				}
			}(i)
		}
		for spins := 0; atomic.LoadInt32(&ready) < int32(len(c.Choices)) && spins < 1_000_000; spins++ {
			runtime.Gosched()
		}
		atomic.StoreInt32(&gate, 1)
		if !pbt.WithCPUBudget(120*time.Second, wg.Wait) {
			return res, pbt.Fail("hang/concurrent-readers", "concurrent readers did not finish")
		}
		for i, e := range errs {
			if e != nil {
				return res, e
			}
			total.handedOut += sts[i].handedOut
			total.derefs += sts[i].derefs
			if sts[i].maxDepth > total.maxDepth {
				total.maxDepth = sts[i].maxDepth
			}
			for k, v := range sts[i].limitErrs {
				total.limitErrs[k] += v
			}
			total.viaComp = total.viaComp || sts[i].viaComp
			total.viaPtrL = total.viaPtrL || sts[i].viaPtrL
		}
		if total.handedOut > T {
			return res, pbt.Fail("traversal-limit-exceeded/concurrent", "%d concurrent readers were handed %d bytes in total with TraverseLimit %d", len(c.Choices), total.handedOut, T)
		}
		if b := msg.VerifReadLimit(); b > T || T-b < total.handedOut {
			return res, pbt.Fail("budget-undercharged/concurrent", "budget %d of %d left after handing out %d bytes", b, T, total.handedOut)
		}
	}
	for k := range total.limitErrs {
		res.Class("limit-hit:" + k)
	}
	res.Class("via-struct-list:%v", total.viaComp)
	res.Class("via-pointer-list:%v", total.viaPtrL)
	res.Count("derefs", int64(total.derefs))
	res.Nontrivial = hasCycleOrSharing(c.Graph) && total.maxDepth >= 2 && (total.limitErrs["depth"] > 0 || total.limitErrs["traversal"] > 0)
	return res, nil
}

func genLimits(t *rapid.T, c *Case) {
	c.T = rapid.SampledFrom([]uint64{8, 16, 24, 64, 100, 256, 1024, 4096, 0, 0}).Draw(t, "T")
	c.D = uint(rapid.SampledFrom([]int{1, 2, 3, 4, 5, 6, 7, 8, 9, 12, 63, 64, 0}).Draw(t, "D"))
}

func genScript(t *rapid.T) []int {
	return rapid.SliceOfN(rapid.IntRange(0, 5), 1, 16).Draw(t, "script")
}

var _ = pbt.Register(pbt.Spec[Case]{
	Property: "C02", Name: "limits-sequential",
	Rule:  "object graphs of 1-7 objects (structs, pointer lists, struct lists incl. zero-sized elements x100/1000 and, in 3 of 7 cases, list pointers that declare fewer words than their tag word describes, text/void/bit leaves) with arbitrary edges (back edges = cycles, shared targets), encoded in 1-3 segments with near/far/double-far edges, optionally with hostile word mutations; TraverseLimit in {8..4096, default}, DepthLimit in {1..9,12,63,64,default}; walk = DFS (step cap) or 1-3 random path scripts mixing Struct.Ptr, List.Struct(i)+Ptr, PointerList.At (also on struct lists). Oracle: along every path the number of successful pointer dereferences never exceeds D; the sum of sizes of all objects handed out (struct bytes; list n*elem, zero-sized element = 8, bit list ceil(n/8)) never exceeds T; with the VerifReadLimit hook the budget starts at T, never increases and drops by at least the size handed out. Non-trivial: graph has a cycle/shared node, a dereference succeeded at level >= 2 and a limit fired.",
	Quick: 25000, Thorough: 100000,
	Gen: func(t *rapid.T) Case {
		c := Case{Graph: genGraph(t, false), Plan: gen.Plan(t, 3)}
		genLimits(t, &c)
		c.Lie = rapid.SampledFrom([]int{0, 0, 0, 0, 1, 2, 3}).Draw(t, "lie")
		for i, n := 0, rapid.IntRange(0, 3).Draw(t, "nscripts"); i < n; i++ {
			c.Choices = append(c.Choices, genScript(t))
		}
		if rapid.IntRange(0, 5).Draw(t, "mutate") == 0 {
			if L, err := ref.Encode(c.Graph, c.Plan); err == nil {
				c.Muts = gen.MutateWords(t, L.Segs, 2)
			}
		}
		return c
	},
	Run: run,
})

var _ = pbt.Register(pbt.Spec[Case]{
	Property: "C02", Name: "limits-concurrent",
	Rule:  "same graphs; 2-8 goroutines released together walk the same Message (4 random-path walks each) with a small TraverseLimit; oracle after the join: the sum over all readers of object sizes handed out is <= T and the remaining budget accounts for it; the package is built with the race detector, a reported race kills the run (violation). Non-trivial as above.",
	Quick: 4000, Thorough: 20000,
	Gen: func(t *rapid.T) Case {
		c := Case{Graph: genGraph(t, false), Plan: gen.Plan(t, 3), Conc: true}
		c.T = rapid.SampledFrom([]uint64{8, 16, 24, 32, 64, 100, 256, 1024}).Draw(t, "T")
		c.D = uint(rapid.SampledFrom([]int{2, 3, 5, 8, 64, 0}).Draw(t, "D"))
		for i, n := 0, rapid.SampledFrom([]int{2, 4, 8}).Draw(t, "readers"); i < n; i++ {
			c.Choices = append(c.Choices, genScript(t))
		}
		return c
	},
	Run: run,
})

// ---------------------------------------------------------------------------
// recursive consumers on cyclic graphs terminate within the limits

type consCase struct {
	Graph ref.Graph `json:"graph"`
	Plan  ref.Plan  `json:"plan"`
	T     uint64    `json:"traverse_limit"`
	D     uint      `json:"depth_limit"`
}

func runConsumers(c consCase) (pbt.Result, error) {
	var res pbt.Result
	L, err := ref.Encode(c.Graph, c.Plan)
	if err != nil {
		return res, nil
	}
	segs, _ := hx.Carve(L.Segs)
	T := effT(c.T)
	res.Class("cyclic-or-shared:%v", hasCycleOrSharing(c.Graph))
	type cons struct {
		name string
		f    func(m *capnp.Message) error
	}
	list := []cons{
		{"equal", func(m *capnp.Message) error {
			p, err := m.Root()
			if err != nil {
				return err
			}
			_, err = capnp.Equal(p, p)
			return err
		}},
		{"canonicalize", func(m *capnp.Message) error {
			p, err := m.Root()
			if err != nil {
				return err
			}
			_, err = capnp.Canonicalize(p.Struct())
			return err
		}},
		{"setroot", func(m *capnp.Message) error {
			p, err := m.Root()
			if err != nil {
				return err
			}
			d, _, err := capnp.NewMessage(capnp.SingleSegment(nil))
			if err != nil {
				return err
			}
			return d.SetRoot(p)
		}},
		{"text", func(m *capnp.Message) error {
			p, err := m.Root()
			if err != nil {
				return err
			}
			_, err = text.Marshal(air.Z_TypeID, p.Struct())
			return err
		}},
		{"pogs", func(m *capnp.Message) error {
			p, err := m.Root()
			if err != nil {
				return err
			}
			var z mirror.Z
			return pogs.Extract(&z, air.Z_TypeID, p.Struct())
		}},
	}
	anyErr := false
	for _, cn := range list {
		msg := &capnp.Message{Arena: capnp.MultiSegment(segs), TraverseLimit: c.T, DepthLimit: c.D}
		var cerr error
		var pv interface{}
		ok := pbt.WithCPUBudget(120*time.Second, func() {
			defer func() { pv = recover() }()
			cerr = cn.f(msg)
		})
		if !ok {
			return res, pbt.Fail("hang/"+cn.name, "%s did not terminate on a cyclic graph (T=%d D=%d)", cn.name, T, effD(c.D))
		}
		if pv != nil {
			return res, pbt.Fail("panic/"+cn.name, "%s panicked: %v", cn.name, pv)
		}
		if b := msg.VerifReadLimit(); b > T {
			return res, pbt.Fail("budget-increased/"+cn.name, "budget %d > T %d after %s", b, T, cn.name)
		}
		if cerr != nil {
			anyErr = true
			res.Class("consumer-error:" + cn.name)
		} else {
			res.Class("consumer-ok:" + cn.name)
		}
	}
	res.Nontrivial = hasCycleOrSharing(c.Graph) && anyErr
	return res, nil
}

var _ = pbt.Register(pbt.Spec[consCase]{
	Property: "C02", Name: "consumers-terminate",
	Rule:  "Z-shaped cyclic graphs (every struct is an aircraftlib.Z whose discriminant matches what its pointer targets: zz / zvec / zvecvec / text / boolvec, so text and pogs follow the cycles) with TraverseLimit in {64..64Ki, default} and DepthLimit in {1..64}; oracle: Equal, Canonicalize, SetRoot, text.Marshal and pogs.Extract each terminate (result or error) without panic or process death (a stack not bounded by D overflows the 256 MiB cap and is journalled) and never raise the budget. Non-trivial: cyclic/shared graph on which at least one consumer stopped with an error.",
	Quick: 2500, Thorough: 12000,
	Gen: func(t *rapid.T) consCase {
		c := consCase{Graph: genGraph(t, true), Plan: gen.Plan(t, 3)}
		c.T = rapid.SampledFrom([]uint64{64, 256, 1024, 4096, 64 << 10, 0}).Draw(t, "T")
		c.D = uint(rapid.SampledFrom([]int{1, 2, 3, 4, 5, 7, 8, 16, 63, 64, 0}).Draw(t, "D"))
		return c
	},
	Run: runConsumers,
})
