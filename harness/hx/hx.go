// Package hx holds small harness utilities shared by the property packages.
package hx

import (
	"encoding/hex"
	"encoding/json"
	"io"
)

// Bytes is a byte slice that serialises as a hex string (compact, readable replay files).
type Bytes []byte

func (b Bytes) MarshalJSON() ([]byte, error) { return json.Marshal(hex.EncodeToString(b)) }
func (b *Bytes) UnmarshalJSON(p []byte) error {
	var s string
	if err := json.Unmarshal(p, &s); err != nil {
		return err
	}
	d, err := hex.DecodeString(s)
	if err != nil {
		return err
	}
	*b = d
	return nil
}

// ChunkReader delivers data in chunks of the given sizes (cycled).  With
// EOFWithData the last chunk is returned together with io.EOF; with
// ZeroReads it occasionally returns (0, nil) which io.Reader permits.
type ChunkReader struct {
	Data        []byte
	Chunks      []int
	EOFWithData bool
	Err         error // returned instead of io.EOF at the end if non-nil
	i           int
	Calls       int
}

func (r *ChunkReader) Read(p []byte) (int, error) {
	r.Calls++
	if len(r.Data) == 0 {
		if r.Err != nil {
			return 0, r.Err
		}
		return 0, io.EOF
	}
	if len(p) == 0 {
		return 0, nil
	}
	n := len(p)
	if len(r.Chunks) > 0 {
		c := r.Chunks[r.i%len(r.Chunks)]
		r.i++
		if c < 1 {
			c = 1
		}
		if c < n {
			n = c
		}
	}
	if n > len(r.Data) {
		n = len(r.Data)
	}
	copy(p, r.Data[:n])
	r.Data = r.Data[n:]
	if len(r.Data) == 0 && r.EOFWithData {
		if r.Err != nil {
			return n, r.Err
		}
		return n, io.EOF
	}
	return n, nil
}

// Carve copies segs into one canary-filled buffer and returns sub-slices
// with cap == len, so that any over-slice panics and any slice handed out by
// the library can be range-checked by address.
func Carve(segs [][]byte) (out [][]byte, backing []byte) {
	total := 64
	for _, s := range segs {
		total += len(s) + 64
	}
	backing = make([]byte, total)
	for i := range backing {
		backing[i] = 0xCA
	}
	pos := 64
	out = make([][]byte, len(segs))
	for i, s := range segs {
		copy(backing[pos:], s)
		out[i] = backing[pos : pos+len(s) : pos+len(s)]
		pos += len(s) + 64
	}
	return out, backing
}

// CloneSegs deep-copies segments.
func CloneSegs(segs [][]byte) [][]byte {
	out := make([][]byte, len(segs))
	for i, s := range segs {
		out[i] = append([]byte(nil), s...)
	}
	return out
}
