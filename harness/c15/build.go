package c15

import (
	"bytes"
	"fmt"
	"math"
	"strings"

	capnp "capnproto.org/go/capnp/v3"
	"capnproto.org/go/capnp/v3/std/capnp/schema"
)

const (
	annPackage = 0xbea97f1023792be0
	annImport  = 0xe130b601260e44b5
	annName    = 0xc2b96012172f8df1
	markerWord = 0x1122334455667788
)

// Request serialises the model as the CodeGeneratorRequest the capnp compiler would hand to capnpc-go.
func Request(m Model, pkgImport string) ([]byte, error) {
	msg, seg, err := capnp.NewMessage(capnp.SingleSegment(nil))
	if err != nil {
		return nil, err
	}
	req, err := schema.NewRootCodeGeneratorRequest(seg)
	if err != nil {
		return nil, err
	}
	nodes, err := req.NewNodes(int32(1 + len(m.Enums) + len(m.Ifaces) + len(m.Structs)))
	if err != nil {
		return nil, err
	}
	const file = "gen.capnp"
	// file node
	fn := nodes.At(0)
	fn.SetId(m.FileID)
	fn.SetDisplayName(file)
	fn.SetDisplayNamePrefixLength(0)
	fn.SetFile()
	ntop := len(m.Enums) + len(m.Ifaces)
	for _, s := range m.Structs {
		if !s.IsGroup {
			ntop++
		}
	}
	nn, err := fn.NewNestedNodes(int32(ntop))
	if err != nil {
		return nil, err
	}
	k := 0
	for _, e := range m.Enums {
		nn.At(k).SetName(e.Name)
		nn.At(k).SetId(e.ID)
		k++
	}
	for _, ifc := range m.Ifaces {
		nn.At(k).SetName(ifc.Name)
		nn.At(k).SetId(ifc.ID)
		k++
	}
	for _, s := range m.Structs {
		if !s.IsGroup {
			nn.At(k).SetName(s.Short)
			nn.At(k).SetId(s.ID)
			k++
		}
	}
	anns, err := fn.NewAnnotations(2)
	if err != nil {
		return nil, err
	}
	for i, a := range []struct {
		id uint64
		v  string
	}{{annPackage, "gen"}, {annImport, pkgImport}} {
		anns.At(i).SetId(a.id)
		v, err := anns.At(i).NewValue()
		if err != nil {
			return nil, err
		}
		if err := v.SetText(a.v); err != nil {
			return nil, err
		}
	}
	// enums
	idx := 1
	for _, e := range m.Enums {
		n := nodes.At(idx)
		idx++
		n.SetId(e.ID)
		n.SetDisplayName(file + ":" + e.Name)
		n.SetDisplayNamePrefixLength(uint32(len(file) + 1))
		n.SetScopeId(m.FileID)
		n.SetEnum()
		es, err := n.Enum().NewEnumerants(int32(len(e.Values)))
		if err != nil {
			return nil, err
		}
		for i, v := range e.Values {
			es.At(i).SetName(v)
			es.At(i).SetCodeOrder(uint16(i))
			if i < len(e.GoVals) && e.GoVals[i] != "" {
				if err := nameAnnotation(es.At(i).NewAnnotations, e.GoVals[i]); err != nil {
					return nil, err
				}
			}
		}
	}
	// interfaces (no methods, no superclasses: only their capability type is of interest here)
	for _, ifc := range m.Ifaces {
		n := nodes.At(idx)
		idx++
		n.SetId(ifc.ID)
		n.SetDisplayName(file + ":" + ifc.Name)
		n.SetDisplayNamePrefixLength(uint32(len(file) + 1))
		n.SetScopeId(m.FileID)
		n.SetInterface()
		if _, err := n.Interface().NewMethods(0); err != nil {
			return nil, err
		}
		if _, err := n.Interface().NewSuperclasses(0); err != nil {
			return nil, err
		}
	}
	// structs and groups
	display := func(i int) string {
		var parts []string
		for j := i; j >= 0; j = m.Structs[j].Parent {
			parts = append([]string{m.Structs[j].Short}, parts...)
		}
		return file + ":" + strings.Join(parts, ".")
	}
	for i, s := range m.Structs {
		n := nodes.At(idx)
		idx++
		n.SetId(s.ID)
		dn := display(i)
		n.SetDisplayName(dn)
		n.SetDisplayNamePrefixLength(uint32(len(dn) - len(s.Short)))
		if s.IsGroup {
			n.SetScopeId(m.Structs[s.Parent].ID)
		} else {
			n.SetScopeId(m.FileID)
		}
		if s.Renamed {
			if err := nameAnnotation(n.NewAnnotations, s.Name); err != nil {
				return nil, err
			}
		}
		n.SetStructNode()
		sn := n.StructNode()
		sn.SetDataWordCount(uint16(s.DataWords))
		sn.SetPointerCount(uint16(s.Ptrs))
		sn.SetPreferredListEncoding(schema.ElementSize_inlineComposite)
		sn.SetIsGroup(s.IsGroup)
		sn.SetDiscriminantCount(uint16(s.DiscCount))
		sn.SetDiscriminantOffset(uint32(s.DiscOff))
		fs, err := sn.NewFields(int32(len(s.Fields)))
		if err != nil {
			return nil, err
		}
		for fi, f := range s.Fields {
			sf := fs.At(fi)
			sf.SetName(f.Name)
			sf.SetCodeOrder(uint16(fi))
			if f.GoName != "" {
				if err := nameAnnotation(sf.NewAnnotations, f.GoName); err != nil {
					return nil, err
				}
			}
			if f.Disc >= 0 {
				sf.SetDiscriminantValue(uint16(f.Disc))
			} else {
				sf.SetDiscriminantValue(schema.Field_noDiscriminant)
			}
			if f.Kind == "group" {
				sf.SetGroup()
				sf.Group().SetTypeId(m.Structs[f.Ref].ID)
				continue
			}
			sf.SetSlot()
			sl := sf.Slot()
			sl.SetOffset(uint32(f.Off))
			sl.SetHadExplicitDefault(f.Default != 0 || f.HasDef)
			t, err := sl.NewType()
			if err != nil {
				return nil, err
			}
			v, err := sl.NewDefaultValue()
			if err != nil {
				return nil, err
			}
			if err := setType(m, t, f.Kind, f.Ref, f.Elem, f.ElemRef); err != nil {
				return nil, err
			}
			if err := setDefault(m, v, f); err != nil {
				return nil, err
			}
		}
	}
	rfs, err := req.NewRequestedFiles(1)
	if err != nil {
		return nil, err
	}
	rfs.At(0).SetId(m.FileID)
	rfs.At(0).SetFilename(file)
	if _, err := rfs.At(0).NewImports(0); err != nil {
		return nil, err
	}
	var buf bytes.Buffer
	if err := capnp.NewEncoder(&buf).Encode(msg); err != nil {
		return nil, err
	}
	return buf.Bytes(), nil
}

// defWord is the first data word of the default value of struct field f.
func defWord(f Field) uint64 {
	if f.DefWord != 0 {
		return f.DefWord
	}
	return markerWord
}

// defaultList builds the default value of list field f: DefLen elements (zero-valued; text/data entries null).
func defaultList(m Model, seg *capnp.Segment, f Field) (capnp.List, error) {
	n := int32(f.DefLen)
	switch f.Elem {
	case "void":
		return capnp.NewVoidList(seg, n).List, nil
	case "bool":
		l, err := capnp.NewBitList(seg, n)
		return l.List, err
	case "int8", "uint8":
		l, err := capnp.NewUInt8List(seg, n)
		return l.List, err
	case "int16", "uint16", "enum":
		l, err := capnp.NewUInt16List(seg, n)
		return l.List, err
	case "int32", "uint32", "float32":
		l, err := capnp.NewUInt32List(seg, n)
		return l.List, err
	case "int64", "uint64", "float64":
		l, err := capnp.NewUInt64List(seg, n)
		return l.List, err
	case "struct":
		t := m.Structs[f.ElemRef]
		return capnp.NewCompositeList(seg, capnp.ObjectSize{DataSize: capnp.Size(t.DataWords * 8), PointerCount: uint16(t.Ptrs)}, n)
	default: // text, data, list
		l, err := capnp.NewPointerList(seg, n)
		return l.List, err
	}
}

// nameAnnotation writes a one-element annotation list holding $Go.name(name).
func nameAnnotation(newList func(int32) (schema.Annotation_List, error), name string) error {
	anns, err := newList(1)
	if err != nil {
		return err
	}
	anns.At(0).SetId(annName)
	v, err := anns.At(0).NewValue()
	if err != nil {
		return err
	}
	return v.SetText(name)
}

func setType(m Model, t schema.Type, kind string, ref int, elem string, elemRef int) error {
	switch kind {
	case "void":
		t.SetVoid()
	case "bool":
		t.SetBool()
	case "int8":
		t.SetInt8()
	case "int16":
		t.SetInt16()
	case "int32":
		t.SetInt32()
	case "int64":
		t.SetInt64()
	case "uint8":
		t.SetUint8()
	case "uint16":
		t.SetUint16()
	case "uint32":
		t.SetUint32()
	case "uint64":
		t.SetUint64()
	case "float32":
		t.SetFloat32()
	case "float64":
		t.SetFloat64()
	case "text":
		t.SetText()
	case "data":
		t.SetData()
	case "enum":
		t.SetEnum()
		t.Enum().SetTypeId(m.Enums[ref].ID)
	case "struct":
		t.SetStructType()
		t.StructType().SetTypeId(m.Structs[ref].ID)
	case "interface":
		t.SetInterface()
		t.Interface().SetTypeId(m.Ifaces[ref].ID)
	case "anyptr":
		t.SetAnyPointer()
		t.AnyPointer().SetUnconstrained()
		t.AnyPointer().Unconstrained().SetAnyKind()
	case "list":
		t.SetList()
		et, err := t.List().NewElementType()
		if err != nil {
			return err
		}
		if elem == "list" {
			// List(List(UInt16))
			return setType(m, et, "list", 0, "uint16", 0)
		}
		return setType(m, et, elem, elemRef, "", 0)
	default:
		return fmt.Errorf("unknown kind %q", kind)
	}
	return nil
}

func setDefault(m Model, v schema.Value, f Field) error {
	d := f.Default
	switch f.Kind {
	case "void":
		v.SetVoid()
	case "bool":
		v.SetBool(d != 0)
	case "int8":
		v.SetInt8(int8(d))
	case "int16":
		v.SetInt16(int16(d))
	case "int32":
		v.SetInt32(int32(d))
	case "int64":
		v.SetInt64(int64(d))
	case "uint8":
		v.SetUint8(uint8(d))
	case "uint16":
		v.SetUint16(uint16(d))
	case "uint32":
		v.SetUint32(uint32(d))
	case "uint64":
		v.SetUint64(d)
	case "float32":
		v.SetFloat32(math.Float32frombits(uint32(d)))
	case "float64":
		v.SetFloat64(math.Float64frombits(d))
	case "enum":
		v.SetEnum(uint16(d))
	case "text":
		if f.HasDef {
			return v.SetText(f.DefText)
		}
		return v.SetText("")
	case "data":
		if f.HasDef {
			return v.SetData([]byte(f.DefText))
		}
		return v.SetData(nil)
	case "struct":
		if f.HasDef {
			t := m.Structs[f.Ref]
			st, err := capnp.NewStruct(v.Segment(), capnp.ObjectSize{DataSize: capnp.Size(t.DataWords * 8), PointerCount: uint16(t.Ptrs)})
			if err != nil {
				return err
			}
			if t.DataWords > 0 {
				st.SetUint64(0, defWord(f))
			}
			return v.SetStructValue(st.ToPtr())
		}
		return v.SetStructValue(capnp.Ptr{})
	case "list":
		if f.HasDef && f.DefLen > 0 {
			l, err := defaultList(m, v.Segment(), f)
			if err != nil {
				return err
			}
			return v.SetList(l.ToPtr())
		}
		return v.SetList(capnp.Ptr{})
	case "anyptr":
		return v.SetAnyPointer(capnp.Ptr{})
	case "interface":
		v.SetInterface()
	}
	return nil
}

// ---------------------------------------------------------------------------------------------------------
// the check file

func title(s string) string { return strings.ToUpper(s[:1]) + s[1:] }

var goType = map[string]string{"bool": "bool", "int8": "int8", "int16": "int16", "int32": "int32", "int64": "int64", "uint8": "uint8", "uint16": "uint16", "uint32": "uint32", "uint64": "uint64", "float32": "float32", "float64": "float64"}

var listType = map[string]string{"void": "capnp.VoidList", "bool": "capnp.BitList", "int8": "capnp.Int8List", "int16": "capnp.Int16List", "int32": "capnp.Int32List", "int64": "capnp.Int64List",
	"uint8": "capnp.UInt8List", "uint16": "capnp.UInt16List", "uint32": "capnp.UInt32List", "uint64": "capnp.UInt64List", "float32": "capnp.Float32List", "float64": "capnp.Float64List",
	"text": "capnp.TextList", "data": "capnp.DataList", "list": "capnp.PointerList"}

// CheckFile emits the Go test that compares every generated accessor of the model with the layout oracle.
func CheckFile(m Model) string {
	var b strings.Builder
	p := func(format string, args ...interface{}) { fmt.Fprintf(&b, format+"\n", args...) }
	p("package gen")
	p("")
	p("import (")
	p("\t\"errors\"")
	p("\t\"math\"")
	p("\t\"testing\"")
	p("")
	p("\tcapnp \"capnproto.org/go/capnp/v3\"")
	p("\trt \"capnproto.org/go/capnp/v3/verifharness/c15rt\"")
	p(")")
	p("")
	p("var _ = math.Float32bits")
	p("var errCap = errors.New(\"c15 capability\")")
	p("func b2u(b bool) uint64 { if b { return 1 }; return 0 }")
	p("")
	p("func TestLayout(t *testing.T) {")
	// expression that reaches struct i from the root's capnp.Struct
	var reach func(i int) string
	reach = func(i int) string {
		s := m.Structs[i]
		if !s.IsGroup {
			return fmt.Sprintf("%s{Struct: st}", s.Name)
		}
		return fmt.Sprintf("%s.%s()", reach(s.Parent), title(s.Short))
	}
	// the same path through the _Future wrappers, starting from the *capnp.Future fut of the root struct
	var reachFuture func(i int) string
	reachFuture = func(i int) string {
		s := m.Structs[i]
		if !s.IsGroup {
			return fmt.Sprintf("%s_Future{Future: fut}", s.Name)
		}
		return fmt.Sprintf("%s.%s()", reachFuture(s.Parent), title(s.Short))
	}
	for i, s := range m.Structs {
		root := m.Structs[s.Root]
		if !s.IsGroup {
			p("\t// ---- %s", s.Name)
			p("\tif %s_TypeID != %#x { rt.Fail(t, \"type-id\", \"%s_TypeID = %%#x, the schema says %#x\", uint64(%s_TypeID)) }", s.Name, s.ID, s.Name, s.ID, s.Name)
			p("\t{")
			p("\t\t_, seg, _ := capnp.NewMessage(capnp.SingleSegment(nil))")
			p("\t\tr, err := NewRoot%s(seg); if err != nil { t.Fatal(err) }", s.Name)
			p("\t\trt.CheckSize(t, \"NewRoot%s\", r.Struct, %d, %d)", s.Name, s.DataWords, s.Ptrs)
			p("\t\tn, err := New%s(seg); if err != nil { t.Fatal(err) }", s.Name)
			p("\t\trt.CheckSize(t, \"New%s\", n.Struct, %d, %d)", s.Name, s.DataWords, s.Ptrs)
			p("\t\tl, err := New%s_List(seg, 3); if err != nil { t.Fatal(err) }", s.Name)
			p("\t\tif l.Len() != 3 { rt.Fail(t, \"list-wrapper\", \"New%s_List(3).Len() = %%d\", l.Len()) }", s.Name)
			p("\t\trt.CheckSize(t, \"element of New%s_List\", l.At(2).Struct, %d, %d)", s.Name, s.DataWords, s.Ptrs)
			p("\t}")
		}
		which := "nil"
		if s.DiscCount > 0 {
			which = fmt.Sprintf("func(st capnp.Struct) int { return int(%s.Which()) }", reach(i))
		}
		for _, f := range s.Fields {
			name := s.Name + "." + f.Name
			discOff := -1
			if s.DiscCount > 0 {
				discOff = s.DiscOff
			}
			layout := fmt.Sprintf("rt.Layout{Name: %q, DataWords: %d, Ptrs: %d, DiscOff: %d, DiscVal: %d, DiscCount: %d}", name, root.DataWords, root.Ptrs, discOff, f.Disc, s.DiscCount)
			E := reach(i)
			F := title(f.Name)
			if f.GoName != "" {
				F = title(f.GoName)
			}
			switch {
			case f.Kind == "group":
				if f.Disc >= 0 {
					// the group as a union member: Set<G>() selects it
					p("\trt.CheckData(t, rt.DataSpec{Layout: %s}, func(st capnp.Struct, v uint64) { %s.Set%s() }, nil, %s)", layout, E, F, which)
				}
			case f.Kind == "void":
				p("\trt.CheckData(t, rt.DataSpec{Layout: %s}, func(st capnp.Struct, v uint64) { %s.Set%s() }, nil, %s)", layout, E, F, which)
			case IsData(f.Kind):
				bits := dataBits[f.Kind]
				var conv, raw string
				switch f.Kind {
				case "bool":
					conv, raw = "v != 0", fmt.Sprintf("b2u(%s.%s())", E, F)
				case "float32":
					conv, raw = "math.Float32frombits(uint32(v))", fmt.Sprintf("uint64(math.Float32bits(%s.%s()))", E, F)
				case "float64":
					conv, raw = "math.Float64frombits(v)", fmt.Sprintf("math.Float64bits(%s.%s())", E, F)
				case "enum":
					conv, raw = fmt.Sprintf("%s(v)", m.Enums[f.Ref].Name), fmt.Sprintf("uint64(%s.%s())", E, F)
				case "int8", "int16", "int32", "int64":
					conv, raw = fmt.Sprintf("%s(v)", f.Kind), fmt.Sprintf("uint64(u%s(%s.%s()))", f.Kind, E, F)
				default:
					conv, raw = fmt.Sprintf("%s(v)", f.Kind), fmt.Sprintf("uint64(%s.%s())", E, F)
				}
				p("\trt.CheckData(t, rt.DataSpec{Layout: %s, BitOff: %d, Bits: %d, Default: %#x},", layout, f.Off*bits, bits, f.Default)
				p("\t\tfunc(st capnp.Struct, v uint64) { %s.Set%s(%s) },", E, F, conv)
				p("\t\tfunc(st capnp.Struct) uint64 { return %s },", raw)
				p("\t\t%s)", which)
			default:
				spec := fmt.Sprintf("rt.PtrSpec{Layout: %s, Index: %d}", layout, f.Off)
				nullStore := ""
				switch f.Kind {
				case "text":
					p("\trt.CheckPtr(t, %s, rt.PtrOps{", spec)
					p("\t\tSet: func(st capnp.Struct) (string, error) { return %q, %s.Set%s(%q) },", "txt-"+name, E, F, "txt-"+name)
					p("\t\tGet: func(st capnp.Struct) (string, error) { return %s.%s() },", E, F)
					p("\t\tHas: func(st capnp.Struct) bool { return %s.Has%s() },", E, F)
					p("\t\tHasDefault: true, Default: %q}, %s)", f.DefText, which)
					// the []byte form of the getter (no discriminant check is generated for it)
					p("\trt.CheckPtr(t, %s, rt.PtrOps{Lenient: true,", strings.Replace(spec, name, name+"/Bytes", 1))
					p("\t\tSet: func(st capnp.Struct) (string, error) { return %q, %s.Set%s(%q) },", "txt-"+name, E, F, "txt-"+name)
					p("\t\tGet: func(st capnp.Struct) (string, error) { b, err := %s.%sBytes(); return string(b), err },", E, F)
					p("\t\tHasDefault: true, Default: %q}, %s)", f.DefText, which)
					if f.HasDef && f.DefText != "" {
						// the empty string is a value of its own: it must not read back as the schema's default
						p("\trt.CheckPtr(t, %s, rt.PtrOps{", strings.Replace(spec, name, name+"/empty", 1))
						p("\t\tSet: func(st capnp.Struct) (string, error) { return \"\", %s.Set%s(\"\") },", E, F)
						p("\t\tGet: func(st capnp.Struct) (string, error) { return %s.%s() }}, %s)", E, F, which)
					}
				case "data":
					if !f.HasDef {
						// (with a default declared, Set(nil) stores an empty, non-null value - as Text does for "")
						nullStore = fmt.Sprintf("%s.Set%s(nil)", E, F)
					}
					p("\trt.CheckPtr(t, %s, rt.PtrOps{", spec)
					p("\t\tSet: func(st capnp.Struct) (string, error) { v := []byte(%q); return string(v), %s.Set%s(v) },", "dat-\x00\xff"+name, E, F)
					p("\t\tGet: func(st capnp.Struct) (string, error) { v, err := %s.%s(); return string(v), err },", E, F)
					p("\t\tHas: func(st capnp.Struct) bool { return %s.Has%s() },", E, F)
					p("\t\tHasDefault: true, Default: %q}, %s)", f.DefText, which)
				case "struct":
					t := m.Structs[f.Ref]
					nullStore = fmt.Sprintf("%s.Set%s(%s{})", E, F, t.Name)
					mark := ""
					if t.DataWords > 0 {
						mark = fmt.Sprintf("c.Struct.SetUint64(0, %#x); ", uint64(0xabcdef0123456789))
					}
					def := "null"
					if f.HasDef {
						w0 := uint64(0)
						if t.DataWords > 0 {
							w0 = defWord(f)
						}
						def = fmt.Sprintf("struct data=%d ptrs=%d w0=%#x", t.DataWords*8, t.Ptrs, w0)
					}
					p("\trt.CheckPtr(t, %s, rt.PtrOps{", spec)
					p("\t\tSet: func(st capnp.Struct) (string, error) { c, err := %s.New%s(); if err != nil { return \"\", err }; rt.CheckSize(t, %q, c.Struct, %d, %d); %sreturn rt.DescStruct(c.Struct), nil },", E, F, "New"+F+" of "+name, t.DataWords, t.Ptrs, mark)
					p("\t\tGet: func(st capnp.Struct) (string, error) { c, err := %s.%s(); return rt.DescStruct(c.Struct), err },", E, F)
					p("\t\tHas: func(st capnp.Struct) bool { return %s.Has%s() },", E, F)
					p("\t\tHasDefault: true, Default: %q}, %s)", def, which)
					p("\trt.CheckPtr(t, %s, rt.PtrOps{", strings.Replace(spec, name, name+"/Set", 1))
					p("\t\tSet: func(st capnp.Struct) (string, error) { c, err := New%s(st.Segment()); if err != nil { return \"\", err }; %sreturn rt.DescStruct(c.Struct), %s.Set%s(c) },", t.Name, mark, E, F)
					p("\t\tGet: func(st capnp.Struct) (string, error) { c, err := %s.%s(); return rt.DescStruct(c.Struct), err }}, %s)", E, F, which)
					// the promise (pipelining) accessor reads the same slot and applies this field's default - and only this
					// field's: union members share pointer slots
					FE := reachFuture(i)
					p("\t{")
					p("\t\t_, seg, _ := capnp.NewMessage(capnp.SingleSegment(nil))")
					p("\t\tr, err := NewRoot%s(seg); if err != nil { t.Fatal(err) }", root.Name)
					p("\t\tst := r.Struct")
					p("\t\tfut := capnp.ImmediateAnswer(capnp.Method{}, st).Future()")
					p("\t\tc, err := %s.%s().Struct()", FE, F)
					p("\t\tif got := rt.DescStruct(c.Struct); err != nil || got != %q { rt.Fail(t, \"future-default\", \"%s: the _Future accessor on a null slot yields %%s (err %%v), the schema's default for this field is %s\", got, err) }", def, name, def)
					p("\t\tn, err := %s.New%s(); if err != nil { t.Fatal(err) }", E, F)
					p("\t\t%s_ = n", strings.Replace(mark, "c.Struct", "n.Struct", 1))
					p("\t\tc, err = %s.%s().Struct()", FE, F)
					p("\t\tif err != nil || !capnp.SamePtr(c.ToPtr(), n.ToPtr()) { rt.Fail(t, \"future-slot\", \"%s: the _Future accessor does not yield the struct stored in pointer slot %d (err %%v)\", err) }", name, f.Off)
					p("\t\trt.Checks += 2")
					p("\t}")
				case "list":
					lt := listType[f.Elem]
					extra := ""
					switch f.Elem {
					case "struct":
						t := m.Structs[f.ElemRef]
						lt = t.Name + "_List"
						extra = fmt.Sprintf("rt.CheckSize(t, %q, l.At(1).Struct, %d, %d); ", "element of New"+F+" of "+name, t.DataWords, t.Ptrs)
					case "enum":
						lt = m.Enums[f.ElemRef].Name + "_List"
					}
					nullStore = fmt.Sprintf("%s.Set%s(%s{})", E, F, lt)
					p("\trt.CheckPtr(t, %s, rt.PtrOps{", spec)
					p("\t\tSet: func(st capnp.Struct) (string, error) { var l %s; l, err := %s.New%s(3); if err != nil { return \"\", err }; %sreturn rt.DescList(l.List), nil },", lt, E, F, extra)
					p("\t\tGet: func(st capnp.Struct) (string, error) { l, err := %s.%s(); return rt.DescList(l.List), err },", E, F)
					p("\t\tHas: func(st capnp.Struct) bool { return %s.Has%s() },", E, F)
					ldef := "null"
					if f.HasDef && f.DefLen > 0 {
						ldef = fmt.Sprintf("list len=%d", f.DefLen)
					}
					p("\t\tHasDefault: true, Default: %q}, %s)", ldef, which)
				case "interface":
					it := m.Ifaces[f.Ref].Name
					p("\trt.CheckPtr(t, %s, rt.PtrOps{", spec)
					p("\t\tSet: func(st capnp.Struct) (string, error) { return \"cap\", %s.Set%s(%s{Client: capnp.ErrorClient(errCap)}) },", E, F, it)
					p("\t\tGet: func(st capnp.Struct) (string, error) { c := %s.%s(); if c.Client == nil { return \"null\", nil }; return \"cap\", nil },", E, F)
					p("\t\tHas: func(st capnp.Struct) bool { return %s.Has%s() },", E, F)
					p("\t\tHasDefault: true, Default: \"null\"}, %s)", which)
					nullStore = fmt.Sprintf("%s.Set%s(%s{})", E, F, it)
					{
						FE := reachFuture(i)
						p("\t{")
						p("\t\t_, seg, _ := capnp.NewMessage(capnp.SingleSegment(nil))")
						p("\t\tr, err := NewRoot%s(seg); if err != nil { t.Fatal(err) }", root.Name)
						p("\t\tst := r.Struct")
						p("\t\tfut := capnp.ImmediateAnswer(capnp.Method{}, st).Future()")
						p("\t\tc := %s.%s(); if c.Client.IsValid() { rt.Fail(t, \"future-slot\", \"%s: the _Future accessor yields a capability although pointer slot %d is null\") }", FE, F, name, f.Off)
						p("\t\tcl := capnp.ErrorClient(errCap)")
						p("\t\terr = %s.Set%s(%s{Client: cl}); if err != nil { t.Fatal(err) }", E, F, it)
						p("\t\tc = %s.%s(); if !c.Client.IsValid() || !c.Client.IsSame(cl) { rt.Fail(t, \"future-slot\", \"%s: the _Future accessor does not yield the capability stored in pointer slot %d\") }", FE, F, name, f.Off)
						p("\t\trt.Checks += 2")
						p("\t}")
					}
				case "anyptr":
					nullStore = fmt.Sprintf("%s.Set%s(capnp.Ptr{})", E, F)
					{
						FE := reachFuture(i)
						p("\t{")
						p("\t\t_, seg, _ := capnp.NewMessage(capnp.SingleSegment(nil))")
						p("\t\tr, err := NewRoot%s(seg); if err != nil { t.Fatal(err) }", root.Name)
						p("\t\tst := r.Struct")
						p("\t\tfut := capnp.ImmediateAnswer(capnp.Method{}, st).Future()")
						p("\t\tc, err := %s.%s().Struct(); if err != nil || c.IsValid() { rt.Fail(t, \"future-slot\", \"%s: the _Future accessor yields something although pointer slot %d is null (err %%v)\", err) }", FE, F, name, f.Off)
						p("\t\tn, err := capnp.NewStruct(seg, capnp.ObjectSize{DataSize: 8}); if err != nil { t.Fatal(err) }")
						p("\t\terr = %s.Set%s(n.ToPtr()); if err != nil { t.Fatal(err) }", E, F)
						p("\t\tc, err = %s.%s().Struct(); if err != nil || !capnp.SamePtr(c.ToPtr(), n.ToPtr()) { rt.Fail(t, \"future-slot\", \"%s: the _Future accessor does not yield what is stored in pointer slot %d (err %%v)\", err) }", FE, F, name, f.Off)
						p("\t\trt.Checks += 2")
						p("\t}")
					}
					p("\trt.CheckPtr(t, %s, rt.PtrOps{", spec)
					p("\t\tSet: func(st capnp.Struct) (string, error) { x, err := capnp.NewText(st.Segment(), \"any\"); if err != nil { return \"\", err }; return \"any\", %s.Set%s(x.ToPtr()) },", E, F)
					p("\t\tGet: func(st capnp.Struct) (string, error) { x, err := %s.%s(); return x.Text(), err },", E, F)
					p("\t\tHas: func(st capnp.Struct) bool { return %s.Has%s() }}, %s)", E, F, which)
				}
				if nullStore != "" {
					// storing "nothing" through the setter is still a store: it selects the union member and leaves the
					// slot null
					p("\trt.CheckPtr(t, %s, rt.PtrOps{NullStore: true,", strings.Replace(spec, name, name+"/null", 1))
					p("\t\tSet: func(st capnp.Struct) (string, error) { return \"null\", %s }}, %s)", nullStore, which)
				}
			}
		}
	}
	for _, e := range m.Enums {
		for i, v := range e.Values {
			if i < len(e.GoVals) && e.GoVals[i] != "" {
				v = e.GoVals[i]
			}
			p("\tif uint16(%s_%s) != %d { rt.Fail(t, \"enum-value\", \"%s_%s = %%d, the schema says %d\", uint16(%s_%s)) }", e.Name, v, i, e.Name, v, i, e.Name, v)
		}
	}
	p("\tt.Logf(\"C15CHECKS %%d\", rt.Checks)")
	p("}")
	return b.String()
}
