package c15

import (
	"fmt"
	"math"

	"pgregory.net/rapid"
)

// Schema model.  Offsets are in units of the field's own size (data fields) or pointer indices, exactly as in
// schema.capnp's Field.slot.offset; they are assigned here, not by the capnp compiler, so holes, out-of-order
// layouts and overlapping union members all occur.
type Field struct {
	Name    string `json:"name"`
	Kind    string `json:"kind"` // void bool int8..int64 uint8..uint64 float32 float64 enum text data struct list anyptr interface group
	Off     int    `json:"off"`
	Default uint64 `json:"default,omitempty"` // bit pattern of the default (data kinds)
	DefText string `json:"def_text,omitempty"`
	HasDef  bool   `json:"has_def,omitempty"`  // pointer kinds: a non-null default is declared
	DefWord uint64 `json:"def_word,omitempty"` // struct defaults: first data word of the default value (distinct per field)
	DefLen  int    `json:"def_len,omitempty"`  // list defaults: number of elements of the default value
	Disc    int    `json:"disc"`               // discriminant value, -1 = not a union member
	Ref     int    `json:"ref"`                // enum / struct / group index
	GoName  string `json:"go_name,omitempty"`  // $Go.name annotation: the accessors are named after this instead of Name
	Elem    string `json:"elem,omitempty"`     // list element kind
	ElemRef int    `json:"elem_ref,omitempty"`
}

type Struct struct {
	Name      string  `json:"name"`              // Go name the generator must derive (S3, S3_g1, ...; the $Go.name annotation's value if Renamed)
	Renamed   bool    `json:"renamed,omitempty"` // top-level structs: Name comes from a $Go.name annotation, Short is the schema name
	Short     string  `json:"short"`
	ID        uint64  `json:"id"`
	DataWords int     `json:"data_words"`
	Ptrs      int     `json:"ptrs"`
	DiscCount int     `json:"disc_count"`
	DiscOff   int     `json:"disc_off"`
	Fields    []Field `json:"fields"`
	IsGroup   bool    `json:"is_group,omitempty"`
	Parent    int     `json:"parent"` // groups: index of the enclosing struct/group
	Root      int     `json:"root"`   // index of the top-level struct whose words it lives in
}

type Enum struct {
	Name   string   `json:"name"`
	ID     uint64   `json:"id"`
	Values []string `json:"values"`
	GoVals []string `json:"go_values,omitempty"` // per value: $Go.name annotation ("" = none)
}

// Iface: an interface node without methods; fields of kind "interface" hold capabilities of that type.
type Iface struct {
	Name string `json:"name"`
	ID   uint64 `json:"id"`
}

type Model struct {
	FileID  uint64   `json:"file_id"`
	Structs []Struct `json:"structs"`
	Enums   []Enum   `json:"enums"`
	Ifaces  []Iface  `json:"ifaces,omitempty"`
}

var dataBits = map[string]int{"void": 0, "bool": 1, "int8": 8, "uint8": 8, "int16": 16, "uint16": 16, "enum": 16, "int32": 32, "uint32": 32, "float32": 32, "int64": 64, "uint64": 64, "float64": 64}

func IsData(kind string) bool { _, ok := dataBits[kind]; return ok }

var dataKinds = []string{"void", "bool", "bool", "int8", "uint8", "int16", "uint16", "enum", "int32", "int32", "uint32", "float32", "int64", "uint64", "float64"}
var ptrKinds = []string{"text", "text", "data", "struct", "struct", "list", "list", "anyptr", "interface"}
var elemKinds = []string{"void", "bool", "int8", "uint8", "int16", "uint16", "int32", "uint32", "int64", "uint64", "float32", "float64", "text", "data", "struct", "enum", "list"}

type space struct {
	bits []bool // data section occupancy
	ptrs []bool
}

func (s *space) clone() *space {
	return &space{bits: append([]bool(nil), s.bits...), ptrs: append([]bool(nil), s.ptrs...)}
}

// alloc finds a free, naturally aligned range of n bits; sel picks among the candidates.
func (s *space) alloc(t *rapid.T, n int) (int, bool) {
	if n == 0 {
		return 0, true
	}
	var cands []int
	for o := 0; (o+1)*n <= len(s.bits); o++ {
		free := true
		for b := o * n; b < (o+1)*n; b++ {
			if s.bits[b] {
				free = false
				break
			}
		}
		if free {
			cands = append(cands, o)
		}
	}
	if len(cands) == 0 {
		return 0, false
	}
	// mostly compact, sometimes anywhere
	i := 0
	if rapid.IntRange(0, 3).Draw(t, "scatter") == 0 {
		i = rapid.IntRange(0, len(cands)-1).Draw(t, "cand")
	}
	o := cands[i]
	for b := o * n; b < (o+1)*n; b++ {
		s.bits[b] = true
	}
	return o, true
}

func (s *space) allocPtr(t *rapid.T) (int, bool) {
	var cands []int
	for i, u := range s.ptrs {
		if !u {
			cands = append(cands, i)
		}
	}
	if len(cands) == 0 {
		return 0, false
	}
	i := 0
	if rapid.IntRange(0, 3).Draw(t, "pscatter") == 0 {
		i = rapid.IntRange(0, len(cands)-1).Draw(t, "pcand")
	}
	s.ptrs[cands[i]] = true
	return cands[i], true
}

// lowestPtr takes the lowest free pointer slot (every member of a union starts from the same free space, so two
// members that ask this way share the slot).
func (s *space) lowestPtr() (int, bool) {
	for i, u := range s.ptrs {
		if !u {
			s.ptrs[i] = true
			return i, true
		}
	}
	return 0, false
}

func (s *space) extent() (words, ptrs int) {
	for b, u := range s.bits {
		if u {
			words = b/64 + 1
		}
	}
	for i, u := range s.ptrs {
		if u {
			ptrs = i + 1
		}
	}
	return
}

func (s *space) merge(o *space) {
	for i, u := range o.bits {
		if u {
			s.bits[i] = true
		}
	}
	for i, u := range o.ptrs {
		if u {
			s.ptrs[i] = true
		}
	}
}

type gen struct {
	t   *rapid.T
	m   *Model
	ids map[uint64]bool
}

func (g *gen) id() uint64 {
	for {
		id := rapid.Uint64().Draw(g.t, "id") | 1<<63
		if !g.ids[id] {
			g.ids[id] = true
			return id
		}
	}
}

func defaultBits(t *rapid.T, kind string, nenum int) uint64 {
	bits := dataBits[kind]
	if bits == 0 || rapid.IntRange(0, 2).Draw(t, "hasdef") == 0 {
		return 0
	}
	switch kind {
	case "bool":
		return 1
	case "enum":
		return uint64(rapid.IntRange(0, nenum-1).Draw(t, "edef"))
	case "float32":
		return uint64(math.Float32bits(rapid.SampledFrom([]float32{1, -1, 3.25, -0.5, 1e30, float32(math.Inf(1)), float32(math.Copysign(0, -1)), float32(math.NaN())}).Draw(t, "f32")))
	case "float64":
		return math.Float64bits(rapid.SampledFrom([]float64{1, -1, 3.25, -0.5, 1e300, math.Inf(-1), math.Copysign(0, -1), math.NaN()}).Draw(t, "f64"))
	}
	m := uint64(1)<<uint(bits) - 1
	if bits == 64 {
		m = ^uint64(0)
	}
	// boundary patterns matter for sign handling and mask truncation
	return rapid.SampledFrom([]uint64{1, m, m >> 1, (m >> 1) + 1, 0x55aa55aa55aa55aa & m, rapid.Uint64().Draw(t, "rnd") & m}).Draw(t, "idef")
}

// fields fills struct si (top-level or group) with n fields allocated in sp.
func (g *gen) fields(si int, sp *space, depth int) {
	t := g.t
	n := rapid.IntRange(1, 9).Draw(t, "nfields")
	// the first top-level struct of every schema has a union whose first two members are struct pointers with
	// different defaults in one pointer slot
	forced := si == 0 && depth == 0
	if forced && n < 3 {
		n = 3
	}
	// union?
	members := 0
	if n >= 2 && (forced || rapid.IntRange(0, 1).Draw(t, "union") == 1) {
		members = rapid.IntRange(2, min(n, 5)).Draw(t, "members")
		off, ok := sp.alloc(t, 16)
		if !ok {
			members = 0
		} else {
			g.m.Structs[si].DiscCount, g.m.Structs[si].DiscOff = members, off
		}
	}
	// which field positions are union members
	isMember := make([]bool, n)
	for k, left := 0, members; left > 0 && k < n; k++ {
		if n-k <= left || rapid.IntRange(0, 1).Draw(t, "ismember") == 1 {
			isMember[k] = true
			left--
		}
	}
	// in a third of the unions most members are pointers, half of them structs with or without a default: members
	// share pointer slots, and what one member declares (a default, a type) must not show through another
	ptrHeavy := members > 0 && (forced || rapid.IntRange(0, 2).Draw(t, "ptrheavy") == 0)
	overlay := (*space)(nil)
	disc := 0
	// fields outside the union are placed first: union members may then share storage with each other, but with
	// nothing else
	var order []int
	for k := 0; k < n; k++ {
		if !isMember[k] {
			order = append(order, k)
		}
	}
	for k := 0; k < n; k++ {
		if isMember[k] {
			order = append(order, k)
		}
	}
	result := (*space)(nil)
	for _, k := range order {
		f := Field{Name: fmt.Sprintf("f%d", k), Disc: -1, Ref: -1}
		target := sp
		if isMember[k] {
			if result == nil {
				result = sp.clone()
			}
			// union members may share storage with each other, never with anything else
			overlay = sp.clone()
			target = overlay
			f.Disc = disc
			disc++
		}
		choice := rapid.IntRange(0, 9).Draw(t, "kind")
		heavy := ptrHeavy && isMember[k] && rapid.IntRange(0, 3).Draw(t, "heavy") != 0
		twin := forced && isMember[k] && f.Disc < 2
		if heavy || twin {
			choice = 7
		}
		switch {
		case choice <= 5:
			f.Kind = rapid.SampledFrom(dataKinds).Draw(t, "dkind")
			if f.Kind == "void" && f.Disc < 0 {
				f.Kind = "bool" // a void field outside a union has no accessors
			}
			if f.Kind == "enum" {
				f.Ref = rapid.IntRange(0, len(g.m.Enums)-1).Draw(t, "enum")
			}
			off, ok := target.alloc(t, dataBits[f.Kind])
			if !ok {
				f.Kind, off = "text", 0
				p, ok := target.allocPtr(t)
				if !ok {
					continue
				}
				off = p
			} else if IsData(f.Kind) {
				nen := 1
				if f.Kind == "enum" {
					nen = len(g.m.Enums[f.Ref].Values)
				}
				f.Default = defaultBits(t, f.Kind, nen)
			}
			f.Off = off
		case choice <= 8:
			f.Kind = rapid.SampledFrom(ptrKinds).Draw(t, "pkind")
			if heavy {
				switch rapid.IntRange(0, 3).Draw(t, "heavykind") {
				case 0, 1:
					f.Kind = "struct"
				case 2:
					f.Kind = "interface"
				case 3:
					f.Kind = "list"
				}
			}
			if f.Kind == "interface" && len(g.m.Ifaces) == 0 {
				f.Kind = "anyptr"
			}
			if twin {
				f.Kind = "struct"
			}
			var p int
			var ok bool
			if twin {
				p, ok = target.lowestPtr()
			} else {
				p, ok = target.allocPtr(t)
			}
			if !ok {
				continue
			}
			f.Off = p
			switch f.Kind {
			case "text", "data":
				if rapid.IntRange(0, 2).Draw(t, "pdef") == 0 {
					f.HasDef, f.DefText = true, rapid.SampledFrom([]string{"dflt", "a default with spaces", "\x01bin\xff"}).Draw(t, "deftext")
					if f.Kind == "text" && f.DefText[0] == 1 {
						f.DefText = "text default"
					}
				}
			case "struct":
				f.Ref = g.topLevel(rapid.IntRange(0, 1<<20).Draw(t, "sref"))
				f.HasDef = rapid.IntRange(0, 3).Draw(t, "sdef") == 0
				if heavy {
					f.HasDef = rapid.Bool().Draw(t, "heavydef")
				}
				if twin {
					f.HasDef = true
				}
				if f.HasDef {
					f.DefWord = rapid.Uint64().Draw(t, "defword") | 1
				}
			case "interface":
				f.Ref = rapid.IntRange(0, len(g.m.Ifaces)-1).Draw(t, "iref")
			case "list":
				f.Elem = rapid.SampledFrom(elemKinds).Draw(t, "elem")
				if rapid.IntRange(0, 3).Draw(t, "ldef") == 0 || heavy && rapid.Bool().Draw(t, "heavyldef") {
					f.HasDef, f.DefLen = true, rapid.IntRange(1, 5).Draw(t, "deflen")
				}
				switch f.Elem {
				case "struct":
					f.ElemRef = g.topLevel(rapid.IntRange(0, 1<<20).Draw(t, "eref"))
				case "enum":
					f.ElemRef = rapid.IntRange(0, len(g.m.Enums)-1).Draw(t, "eenum")
				}
			}
		default:
			if depth >= 2 {
				f.Kind = "bool"
				off, ok := target.alloc(t, 1)
				if !ok {
					continue
				}
				f.Off = off
				break
			}
			f.Kind = "group"
			parent := g.m.Structs[si]
			gi := len(g.m.Structs)
			g.m.Structs = append(g.m.Structs, Struct{Name: parent.Name + "_" + f.Name, Short: f.Name, ID: g.id(), IsGroup: true, Parent: si, Root: parent.Root, DiscOff: 0})
			f.Ref = gi
			g.fields(gi, target, depth+1)
		}
		if isMember[k] {
			result.merge(overlay)
		}
		if f.Kind != "group" && rapid.IntRange(0, 7).Draw(t, "rename") == 0 {
			f.GoName = fmt.Sprintf("rn%d", k) // $Go.name: nothing else in the struct is called rn<k>
		}
		g.m.Structs[si].Fields = append(g.m.Structs[si].Fields, f)
	}
	if result != nil {
		*sp = *result
	}
	// a union needs at least two members to be a union; renumber what was actually emitted
	cnt := 0
	for i := range g.m.Structs[si].Fields {
		if g.m.Structs[si].Fields[i].Disc >= 0 {
			g.m.Structs[si].Fields[i].Disc = cnt
			cnt++
		}
	}
	g.m.Structs[si].DiscCount = cnt
	if cnt == 0 {
		g.m.Structs[si].DiscOff = 0
	}
}

func min(a, b int) int {
	if a < b {
		return a
	}
	return b
}

// topLevel maps a draw to the index of a top-level struct.
func (g *gen) topLevel(sel int) int {
	var tops []int
	for i, s := range g.m.Structs {
		if !s.IsGroup {
			tops = append(tops, i)
		}
	}
	return tops[sel%len(tops)]
}

// GenModel draws a schema.
func GenModel(t *rapid.T) Model {
	m := Model{}
	g := &gen{t: t, m: &m, ids: map[uint64]bool{}}
	m.FileID = g.id()
	for i, n := 0, rapid.IntRange(1, 3).Draw(t, "nenums"); i < n; i++ {
		e := Enum{Name: fmt.Sprintf("E%d", i), ID: g.id()}
		for k, nv := 0, rapid.IntRange(1, 6).Draw(t, "nvals"); k < nv; k++ {
			e.Values = append(e.Values, fmt.Sprintf("v%d", k))
			gn := ""
			if rapid.IntRange(0, 5).Draw(t, "vrename") == 0 {
				gn = fmt.Sprintf("named%d", k)
			}
			e.GoVals = append(e.GoVals, gn)
		}
		m.Enums = append(m.Enums, e)
	}
	for i, n := 0, (rapid.IntRange(0, 3).Draw(t, "nifaces")+1)/2; i < n; i++ {
		m.Ifaces = append(m.Ifaces, Iface{Name: fmt.Sprintf("I%d", i), ID: g.id()})
	}
	nstructs := rapid.IntRange(3, 10).Draw(t, "nstructs")
	// declare the top-level structs first so that fields can refer to any of them
	for i := 0; i < nstructs; i++ {
		st := Struct{Name: fmt.Sprintf("S%d", i), Short: fmt.Sprintf("S%d", i), ID: g.id(), Parent: -1, Root: i}
		if rapid.IntRange(0, 5).Draw(t, "srename") == 0 {
			st.Name, st.Renamed = fmt.Sprintf("Renamed%d", i), true // groups inside are named after the new name
		}
		m.Structs = append(m.Structs, st)
	}
	hugeAt := -1
	if rapid.IntRange(0, 5).Draw(t, "huge") == 0 {
		hugeAt = rapid.IntRange(0, nstructs-1).Draw(t, "hugeat")
	}
	for i := 0; i < nstructs; i++ {
		words := rapid.IntRange(1, 5).Draw(t, "words")
		if i == hugeAt {
			// a data section around 2^16 bytes: sizes computed in 16 bits wrap here
			words = rapid.SampledFrom([]int{8191, 8192, 8193}).Draw(t, "hugewords")
		}
		sp := &space{bits: make([]bool, words*64), ptrs: make([]bool, rapid.IntRange(1, 6).Draw(t, "ptrs"))}
		g.fields(i, sp, 0)
		if i == hugeAt {
			free := true
			for b := (words - 1) * 64; b < words*64; b++ {
				free = free && !sp.bits[b]
			}
			if free {
				for b := (words - 1) * 64; b < words*64; b++ {
					sp.bits[b] = true
				}
				m.Structs[i].Fields = append(m.Structs[i].Fields, Field{Name: "flast", Kind: "uint64", Off: words - 1, Disc: -1, Ref: -1})
			}
		}
		dw, pc := sp.extent()
		// the compiler never leaves trailing unused words, but a struct that lost fields in an upgrade may have them
		if rapid.IntRange(0, 4).Draw(t, "slack") == 0 {
			dw++
		}
		if rapid.IntRange(0, 4).Draw(t, "pslack") == 0 {
			pc++
		}
		for k := range m.Structs {
			if m.Structs[k].Root == i {
				m.Structs[k].DataWords, m.Structs[k].Ptrs = dw, pc
			}
		}
	}
	return m
}
