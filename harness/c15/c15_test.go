package c15

import (
	"bytes"
	"fmt"
	"os"
	"os/exec"
	"path/filepath"
	"regexp"
	"strconv"
	"strings"
	"sync"
	"sync/atomic"
	"testing"
	"time"

	"capnproto.org/go/capnp/v3/verifharness/pbt"
)

func TestProp(t *testing.T)   { pbt.RunProps(t) }
func TestReplay(t *testing.T) { pbt.RunReplay(t) }

var (
	buildOnce sync.Once
	genBin    string
	buildErr  error
	seq       int64
)

func harnessDir() string {
	wd, _ := os.Getwd() // .../harness/c15
	return filepath.Dir(wd)
}

func goEnv() []string {
	env := os.Environ()
	if os.Getenv("GOFLAGS") == "" {
		// (the driver sets GOFLAGS itself; in its development mode it carries a -modfile that must survive)
		env = append(env, "GOFLAGS=-mod=mod")
	}
	return append(env, "GOPROXY=off", "GOSUMDB=off", "GOTOOLCHAIN=local")
}

// buildGenerator compiles capnpc-go from the repository's current working tree.
func buildGenerator() (string, error) {
	buildOnce.Do(func() {
		work := filepath.Join(harnessDir(), "c15work")
		// generator binaries of earlier runs (a test process has no place to remove its own when it ends)
		if ents, err := os.ReadDir(work); err == nil {
			for _, e := range ents {
				if fi, err := e.Info(); err == nil && e.IsDir() && time.Since(fi.ModTime()) > 2*time.Hour {
					os.RemoveAll(filepath.Join(work, e.Name()))
				}
			}
		}
		dir := filepath.Join(work, fmt.Sprintf("bin%d", os.Getpid()))
		if err := os.MkdirAll(dir, 0o755); err != nil {
			buildErr = err
			return
		}
		genBin = filepath.Join(dir, "capnpc-go")
		args := []string{"build", "-o", genBin}
		if os.Getenv("VERIF_C15_COVER") != "" {
			// development aid: with GOCOVERDIR set, the generator leaves coverage data of its own code there
			args = append(args, "-cover")
		}
		cmd := exec.Command("go", append(args, "capnproto.org/go/capnp/v3/capnpc-go")...)
		cmd.Dir, cmd.Env = harnessDir(), goEnv()
		if out, err := cmd.CombinedOutput(); err != nil {
			buildErr = fmt.Errorf("building capnpc-go: %v\n%s", err, out)
		}
	})
	return genBin, buildErr
}

var failLine = regexp.MustCompile(`C15FAIL sig=(\S+) \| (.*)`)
var checksLine = regexp.MustCompile(`C15CHECKS (\d+)`)

func run(m Model) (pbt.Result, error) {
	var res pbt.Result
	bin, err := buildGenerator()
	if err != nil {
		return res, fmt.Errorf("infrastructure: %v", err)
	}
	n := atomic.AddInt64(&seq, 1)
	rel := filepath.Join("c15work", fmt.Sprintf("p%d_%d", os.Getpid(), n), "gen")
	dir := filepath.Join(harnessDir(), rel)
	if err := os.MkdirAll(dir, 0o755); err != nil {
		return res, fmt.Errorf("infrastructure: %v", err)
	}
	defer os.RemoveAll(filepath.Dir(dir))
	req, err := Request(m, "capnproto.org/go/capnp/v3/verifharness/"+filepath.ToSlash(rel))
	if err != nil {
		return res, fmt.Errorf("infrastructure: building the request: %v", err)
	}
	// the generator, three times: it must succeed and always produce the same bytes
	var first []byte
	for i := 0; i < 3; i++ {
		cmd := exec.Command(bin)
		cmd.Dir, cmd.Stdin = dir, bytes.NewReader(req)
		out, err := cmd.CombinedOutput()
		if err != nil {
			return res, pbt.Fail("generator-fails", "capnpc-go rejects a request the compiler could have produced: %v\n%s", err, out)
		}
		src, err := os.ReadFile(filepath.Join(dir, "gen.capnp.go"))
		if err != nil {
			return res, pbt.Fail("generator-no-output", "capnpc-go wrote no gen.capnp.go: %v", err)
		}
		if i == 0 {
			first = src
		} else if !bytes.Equal(first, src) {
			return res, pbt.Fail("generator-nondeterministic", "two runs of capnpc-go on the same request differ (%d vs %d bytes)", len(first), len(src))
		}
	}
	if err := os.WriteFile(filepath.Join(dir, "layout_test.go"), []byte(CheckFile(m)), 0o644); err != nil {
		return res, fmt.Errorf("infrastructure: %v", err)
	}
	cmd := exec.Command("go", "test", "-count=1", "-vet=off", "-run", "TestLayout", "-v", "./"+filepath.ToSlash(rel))
	cmd.Dir, cmd.Env = harnessDir(), goEnv()
	out, err := cmd.CombinedOutput()
	text := string(out)
	if strings.Contains(text, "[build failed]") || strings.Contains(text, "[setup failed]") {
		// is it the generated file or the check file that does not compile?
		lines := ""
		gen := false
		for _, l := range strings.Split(text, "\n") {
			if strings.Contains(l, ".go:") {
				lines += l + "\n"
				if strings.Contains(l, "gen.capnp.go") {
					gen = true
				}
			}
		}
		if gen {
			return res, pbt.Fail("generated-code-does-not-compile", "the generated code does not compile:\n%s", lines)
		}
		return res, pbt.Fail("accessor-missing-or-mistyped", "the check file, which calls every accessor the schema implies, does not compile against the generated code:\n%s", lines)
	}
	fails := failLine.FindAllStringSubmatch(text, -1)
	if len(fails) > 0 {
		msg := ""
		for i, f := range fails {
			if i < 8 {
				msg += f[2] + "\n"
			}
		}
		return res, pbt.Fail(fails[0][1], "%d accessor checks failed; first:\n%s", len(fails), msg)
	}
	if err != nil {
		return res, pbt.Fail("check-run-crashed", "the layout test did not complete: %v\n%s", err, tail(text, 40))
	}
	cm := checksLine.FindStringSubmatch(text)
	if cm == nil {
		return res, fmt.Errorf("infrastructure: no check count in the test output:\n%s", tail(text, 20))
	}
	checks, _ := strconv.Atoi(cm[1])
	nfields, groups, unions, defaults := 0, 0, 0, 0
	for _, s := range m.Structs {
		nfields += len(s.Fields)
		if s.IsGroup {
			groups++
		}
		if s.DiscCount > 0 {
			unions++
		}
		for _, f := range s.Fields {
			if f.Default != 0 || f.HasDef {
				defaults++
			}
		}
	}
	res.Count("programs", 1)
	res.Count("disagreements_checked", int64(checks))
	res.Count("structs", int64(len(m.Structs)))
	res.Count("fields", int64(nfields))
	res.Count("groups", int64(groups))
	res.Count("unions", int64(unions))
	res.Count("fields_with_defaults", int64(defaults))
	res.Count("generated_bytes", int64(len(first)))
	res.Class("structs:%d", len(m.Structs)/5*5)
	res.Nontrivial = unions > 0 && groups > 0 && defaults > 0
	return res, nil
}

func tail(s string, n int) string {
	l := strings.Split(s, "\n")
	if len(l) > n {
		l = l[len(l)-n:]
	}
	return strings.Join(l, "\n")
}

var _ = pbt.Register(pbt.Spec[Model]{
	Property: "C15", Name: "schemagen",
	Rule:  "program = a drawn schema (1-3 enums, 3-10 top-level structs with 1-9 fields each over every data type, text, data, struct, list of every element type incl. nested lists, AnyPointer, capabilities of 0-2 method-less interfaces, groups nested up to depth 2, unions at struct and group level whose members share storage (a third of the unions consist mostly of pointer members - structs with and without defaults, interfaces - sharing pointer slots), defaults on a third of the fields incl. boundary bit patterns, text/data/struct pointer defaults, $Go.name annotations on some fields, enumerants and top-level structs), with offsets assigned by the model rather than by the compiler's packing (holes, scattered and overlapping union members, slack words); it is serialised as a CodeGeneratorRequest, run through capnpc-go built from the working tree three times (byte-identical output required), compiled together with an emitted test that calls every accessor the schema implies. Per field ~20 random backgrounds/values are compared bit-for-bit with the layout oracle; pointer setters are also given null values (the member is selected, the slot stays null); the _Future accessor of every struct field must yield the stored struct or exactly that field's default. Non-trivial: the schema has a union, a group and a defaulted field.",
	Quick: 4, Thorough: 12,
	Gen:       GenModel,
	Run:       run,
	NoJournal: false,
})
