// Package ref holds independent reference implementations written from the
// Cap'n Proto encoding specification (https://capnproto.org/encoding.html).
// It imports nothing from the repository under test.
package ref

import (
	"errors"
)

// ErrTruncated is returned by Unpack when the packed input stops in the
// middle of a word, before a run-count byte, or inside a literal run.
var ErrTruncated = errors.New("ref: truncated packed input")

// TruncError says where the packed input stopped.
type TruncError struct{ Where string } // "word-bytes" | "zero-count" | "literal-count" | "literal-run"

func (e *TruncError) Error() string { return "ref: truncated packed input at " + e.Where }
func (e *TruncError) Is(t error) bool { return t == ErrTruncated }

// Unpack decodes a packed byte string per the spec.  It is strict: every
// tag must be followed by exactly popcount(tag) bytes, a 0x00 tag by a count
// byte, a 0xff tag by a count byte N and N*8 literal bytes.  Every complete
// packed string is acceptable; the only rejection reason is truncation.
// On error the words fully decoded so far are returned.
func Unpack(in []byte) ([]byte, error) {
	var out []byte
	i := 0
	for i < len(in) {
		tag := in[i]
		i++
		var w [8]byte
		for b := 0; b < 8; b++ {
			if tag&(1<<uint(b)) != 0 {
				if i >= len(in) {
					return out, &TruncError{"word-bytes"}
				}
				w[b] = in[i]
				i++
			}
		}
		switch tag {
		case 0x00:
			if i >= len(in) {
				return out, &TruncError{"zero-count"}
			}
			n := int(in[i])
			i++
			out = append(out, w[:]...)
			out = append(out, make([]byte, 8*n)...)
		case 0xff:
			if i >= len(in) {
				return out, &TruncError{"literal-count"}
			}
			n := int(in[i])
			i++
			if i+8*n > len(in) {
				if (len(in)-i)%8 == 0 {
					return out, &TruncError{"literal-run-word-boundary"}
				}
				return out, &TruncError{"literal-run-mid-word"}
			}
			out = append(out, w[:]...)
			out = append(out, in[i:i+8*n]...)
			i += 8 * n
		default:
			out = append(out, w[:]...)
		}
	}
	return out, nil
}

// Pack encodes src (len multiple of 8) per the spec.  The spec leaves two
// choices to the encoder: how many following zero words a 0x00 tag absorbs
// (0..min(available,255)) and how many following words a 0xff tag carries
// as a literal run (0..min(remaining,255), whatever their content).
// choose(max) must return a value in [0,max]; choose==nil takes the maximum
// zero run and an empty literal run.
func Pack(src []byte, choose func(kind byte, max int) int) []byte {
	if len(src)%8 != 0 {
		panic("ref.Pack: not word aligned")
	}
	var out []byte
	for len(src) > 0 {
		var tag byte
		var nz []byte
		for b := 0; b < 8; b++ {
			if src[b] != 0 {
				tag |= 1 << uint(b)
				nz = append(nz, src[b])
			}
		}
		out = append(out, tag)
		out = append(out, nz...)
		src = src[8:]
		switch tag {
		case 0x00:
			max := 0
			for max < 255 && (max+1)*8 <= len(src) && allZero(src[max*8:max*8+8]) {
				max++
			}
			n := max
			if choose != nil {
				n = choose(0x00, max)
			}
			out = append(out, byte(n))
			src = src[8*n:]
		case 0xff:
			max := len(src) / 8
			if max > 255 {
				max = 255
			}
			n := 0
			if choose != nil {
				n = choose(0xff, max)
			}
			out = append(out, byte(n))
			out = append(out, src[:8*n]...)
			src = src[8*n:]
		}
	}
	return out
}

func allZero(b []byte) bool {
	for _, x := range b {
		if x != 0 {
			return false
		}
	}
	return true
}
