package ref

import (
	"encoding/binary"
	"errors"
)

// Frame serialises segments with the standard stream framing:
// (nsegs-1) uint32, nsegs x size-in-words uint32, padding to a word, segments.
func Frame(segs [][]byte) []byte {
	n := len(segs)
	hdr := make([]byte, 4*(n+1))
	binary.LittleEndian.PutUint32(hdr, uint32(n-1))
	for i, s := range segs {
		binary.LittleEndian.PutUint32(hdr[4*(i+1):], uint32(len(s)/8))
	}
	if len(hdr)%8 != 0 {
		hdr = append(hdr, 0, 0, 0, 0)
	}
	out := hdr
	for _, s := range segs {
		out = append(out, s...)
	}
	return out
}

var ErrShort = errors.New("ref.Unframe: short input")

// Unframe parses one framed message from b and returns its segments and the
// number of bytes consumed.  strict additionally requires zero header padding.
func Unframe(b []byte) (segs [][]byte, n int, err error) {
	if len(b) < 8 {
		return nil, 0, ErrShort
	}
	nsegs := int(binary.LittleEndian.Uint32(b)) + 1
	hdr := (4*(nsegs+1) + 7) &^ 7
	if len(b) < hdr {
		return nil, 0, ErrShort
	}
	pos := hdr
	for i := 0; i < nsegs; i++ {
		w := int(binary.LittleEndian.Uint32(b[4*(i+1):]))
		if len(b)-pos < w*8 {
			return nil, 0, ErrShort
		}
		segs = append(segs, b[pos:pos+w*8])
		pos += w * 8
	}
	return segs, pos, nil
}
