package ref

import (
	"encoding/binary"
	"fmt"
)

// Extent is a word range inside a segment that an object (or landing pad) occupies.
type Extent struct {
	Seg, Start, End int // words, [Start,End)
	What            string
}

// Decoder is an independent implementation of the pointer-resolution rules of
// https://capnproto.org/encoding.html.  It never touches memory outside the
// supplied segments: every access is bounds-checked first and violations are
// reported as errors.
type Decoder struct {
	Segs     [][]byte
	Strict   bool // additionally enforce what a conforming producer must emit
	MaxDepth int  // recursion guard for (hostile) cyclic input; default 200
	MaxNodes int  // guard against amplification; default 1<<20

	Extents []Extent // filled while decoding (objects and pads reached)
	nodes   int
}

// DecodeError carries a stable reason.
type DecodeError struct{ Reason string }

func (e *DecodeError) Error() string { return "ref.Decode: " + e.Reason }

func derr(format string, args ...interface{}) error {
	return &DecodeError{fmt.Sprintf(format, args...)}
}

func (d *Decoder) word(seg, w int) (uint64, bool) {
	if seg < 0 || seg >= len(d.Segs) || w < 0 || (w+1)*8 > len(d.Segs[seg]) {
		return 0, false
	}
	return binary.LittleEndian.Uint64(d.Segs[seg][w*8:]), true
}

func (d *Decoder) segWords(seg int) int { return len(d.Segs[seg]) / 8 }

// Root decodes the message's root pointer (segment 0, word 0).
func (d *Decoder) Root() (Value, error) {
	if len(d.Segs) == 0 || len(d.Segs[0]) < 8 {
		return Value{}, derr("no root word")
	}
	return d.Ptr(0, 0, 0)
}

// Target describes where a resolved pointer lands.
type Target struct {
	Kind        Kind
	Seg, Word   int    // object body start (for composite: the tag word)
	PtrWord     uint64 // the (near-form) pointer word describing the object
	Cap         uint32
	Far, Double bool
}

// Resolve follows the pointer stored at (seg, w) through far/double-far
// indirections and returns the object's location and describing word.
func (d *Decoder) Resolve(seg, w int) (Target, error) {
	p, ok := d.word(seg, w)
	if !ok {
		return Target{}, derr("pointer word out of bounds")
	}
	if p == 0 {
		return Target{Kind: KNull}, nil
	}
	base := w + 1
	var t Target
	if p&3 == 2 {
		padWord := int(uint32(p) >> 3)
		padSeg := int(p >> 32)
		if padSeg >= len(d.Segs) {
			return Target{}, derr("far pointer: segment %d out of range", padSeg)
		}
		if p&4 == 0 {
			pad, ok := d.word(padSeg, padWord)
			if !ok {
				return Target{}, derr("far pointer: landing pad out of bounds")
			}
			d.Extents = append(d.Extents, Extent{padSeg, padWord, padWord + 1, "pad"})
			t.Far = true
			if pad&3 == 2 {
				return Target{}, derr("far pointer: landing pad is a far pointer")
			}
			if pad == 0 {
				if d.Strict {
					return Target{}, derr("far pointer: null landing pad")
				}
				return Target{Kind: KNull, Far: true}, nil
			}
			seg, base, p = padSeg, padWord+1, pad
		} else {
			f, ok1 := d.word(padSeg, padWord)
			tag, ok2 := d.word(padSeg, padWord+1)
			if !ok1 || !ok2 {
				return Target{}, derr("double-far pointer: landing pad out of bounds")
			}
			d.Extents = append(d.Extents, Extent{padSeg, padWord, padWord + 2, "pad2"})
			if f&7 != 2 {
				return Target{}, derr("double-far pointer: first pad word is not a (single) far pointer")
			}
			if tag&3 > 1 || uint32(tag)>>2 != 0 {
				return Target{}, derr("double-far pointer: tag word is not a struct/list pointer with zero offset")
			}
			tseg := int(f >> 32)
			if tseg >= len(d.Segs) {
				return Target{}, derr("double-far pointer: target segment out of range")
			}
			t.Far, t.Double = true, true
			// object starts at word offset of f in tseg; emulate a pointer whose base is that offset
			seg, base, p = tseg, int(uint32(f)>>3), tag
		}
	}
	switch p & 3 {
	case 0, 1:
		off := int(int32(uint32(p)) >> 2)
		t.Seg, t.Word, t.PtrWord = seg, base+off, p
		if p&3 == 0 {
			t.Kind = KStruct
		} else {
			t.Kind = KList
		}
		return t, nil
	case 3:
		if uint32(p)>>2 != 0 {
			return Target{}, derr("unknown 'other' pointer")
		}
		t.Kind, t.Cap = KCap, uint32(p>>32)
		return t, nil
	}
	return Target{}, derr("unreachable")
}

// Ptr decodes the pointer stored at (seg, w).
func (d *Decoder) Ptr(seg, w, depth int) (Value, error) {
	maxd := d.MaxDepth
	if maxd == 0 {
		maxd = 200
	}
	if depth > maxd {
		return Value{}, derr("depth guard exceeded")
	}
	maxn := d.MaxNodes
	if maxn == 0 {
		maxn = 1 << 20
	}
	d.nodes++
	if d.nodes > maxn {
		return Value{}, derr("node guard exceeded")
	}
	t, err := d.Resolve(seg, w)
	if err != nil {
		return Value{}, err
	}
	switch t.Kind {
	case KNull:
		return Value{}, nil
	case KCap:
		return Value{Kind: KCap, Cap: t.Cap}, nil
	case KStruct:
		dw, pc := int(uint16(t.PtrWord>>32)), int(uint16(t.PtrWord>>48))
		return d.structAt(t.Seg, t.Word, dw, pc, depth, "struct")
	default:
		return d.listAt(t, depth)
	}
}

func (d *Decoder) structAt(seg, word, dw, pc, depth int, what string) (Value, error) {
	if word < 0 || word+dw+pc > d.segWords(seg) {
		return Value{}, derr("%s body out of bounds (seg %d words [%d,%d) of %d)", what, seg, word, word+dw+pc, d.segWords(seg))
	}
	if what == "struct" && dw+pc > 0 {
		d.Extents = append(d.Extents, Extent{seg, word, word + dw + pc, "struct"})
	}
	v := Value{Kind: KStruct, Data: append([]byte(nil), d.Segs[seg][word*8:(word+dw)*8]...)}
	v.Ptrs = make([]Value, pc)
	for i := 0; i < pc; i++ {
		c, err := d.Ptr(seg, word+dw+i, depth+1)
		if err != nil {
			return Value{}, err
		}
		v.Ptrs[i] = c
	}
	return v, nil
}

func (d *Decoder) listAt(t Target, depth int) (Value, error) {
	seg, word := t.Seg, t.Word
	lk := ListKind(t.PtrWord >> 32 & 7)
	count := int(t.PtrWord >> 35)
	v := Value{Kind: KList, LK: lk}
	inb := func(words int) error {
		if word < 0 || word+words > d.segWords(seg) || words < 0 {
			return derr("list body out of bounds")
		}
		return nil
	}
	switch lk {
	case LVoid:
		v.N = count
		if err := inb(0); err != nil {
			return Value{}, err
		}
	case LBit:
		v.N = count
		words := (count + 63) / 64
		if err := inb(words); err != nil {
			return Value{}, err
		}
		d.ext(seg, word, words, "bitlist")
		v.Bits = make([]bool, count)
		for i := 0; i < count; i++ {
			v.Bits[i] = d.Segs[seg][word*8+i/8]&(1<<uint(i%8)) != 0
		}
		if d.Strict {
			if err := d.zeroPad(seg, word*8+(count+7)/8, (word+words)*8, count%8, word*8+count/8); err != nil {
				return Value{}, err
			}
		}
	case LB1, LB2, LB4, LB8:
		v.N = count
		nb := count * lk.ElemBytes()
		words := (nb + 7) / 8
		if err := inb(words); err != nil {
			return Value{}, err
		}
		d.ext(seg, word, words, "primlist")
		v.Prim = append([]byte(nil), d.Segs[seg][word*8:word*8+nb]...)
		if d.Strict {
			if err := d.zeroPad(seg, word*8+nb, (word+words)*8, 0, 0); err != nil {
				return Value{}, err
			}
		}
	case LPtr:
		v.N = count
		if err := inb(count); err != nil {
			return Value{}, err
		}
		d.ext(seg, word, count, "ptrlist")
		if count > (1<<20) {
			return Value{}, derr("node guard exceeded")
		}
		v.Elems = make([]Value, count)
		for i := 0; i < count; i++ {
			c, err := d.Ptr(seg, word+i, depth+1)
			if err != nil {
				return Value{}, err
			}
			v.Elems[i] = c
		}
	case LComposite:
		if err := inb(count + 1); err != nil {
			return Value{}, err
		}
		tag, _ := d.word(seg, word)
		if tag&3 != 0 {
			return Value{}, derr("composite tag is not a struct pointer")
		}
		n := int(int32(uint32(tag)) >> 2)
		dw, pc := int(uint16(tag>>32)), int(uint16(tag>>48))
		if n < 0 {
			return Value{}, derr("composite tag: negative element count")
		}
		if n*(dw+pc) > count {
			return Value{}, derr("composite list: elements overrun the word count")
		}
		if d.Strict && n*(dw+pc) != count {
			return Value{}, derr("composite list: word count %d != n*(d+p) = %d", count, n*(dw+pc))
		}
		d.ext(seg, word, count+1, "composite")
		v.N, v.DW, v.PC = n, dw, pc
		if n > (1<<20) {
			return Value{}, derr("node guard exceeded")
		}
		v.Elems = make([]Value, n)
		for i := 0; i < n; i++ {
			e, err := d.structAt(seg, word+1+i*(dw+pc), dw, pc, depth, "element")
			if err != nil {
				return Value{}, err
			}
			v.Elems[i] = e
		}
	}
	return v, nil
}

func (d *Decoder) ext(seg, word, words int, what string) {
	if words > 0 {
		d.Extents = append(d.Extents, Extent{seg, word, word + words, what})
	}
}

// zeroPad checks list padding [from,to) bytes is zero; for bit lists also the
// unused high bits of the last partial byte.
func (d *Decoder) zeroPad(seg, from, to, usedBits, partialByte int) error {
	for i := from; i < to; i++ {
		if d.Segs[seg][i] != 0 {
			return derr("list padding not zero")
		}
	}
	if usedBits != 0 {
		if d.Segs[seg][partialByte]>>uint(usedBits) != 0 {
			return derr("bit list padding bits not zero")
		}
	}
	return nil
}

// Decode decodes the root of a message.
func Decode(segs [][]byte, strict bool) (Value, error) {
	d := &Decoder{Segs: segs, Strict: strict}
	return d.Root()
}

// CheckDisjoint verifies that all extents recorded are pairwise disjoint and
// do not cover the root pointer word.
func CheckDisjoint(ext []Extent) error {
	type key struct{ seg, w int }
	seen := map[key]string{{0, 0}: "root"}
	for _, e := range ext {
		for w := e.Start; w < e.End; w++ {
			k := key{e.Seg, w}
			if prev, ok := seen[k]; ok {
				return derr("word %d of segment %d used by both %s and %s", w, e.Seg, prev, e.What)
			}
			seen[k] = e.What
		}
	}
	return nil
}
