package ref

import (
	"encoding/binary"
	"fmt"
	"sort"
)

// ---- object graphs --------------------------------------------------------
//
// A Graph is a set of objects whose pointer slots reference other objects
// by index; unlike a Value tree it can express sharing and cycles.

type PtrKind int

const (
	PNull PtrKind = iota
	PObj
	PCap
	PRaw // a raw 64-bit word, written as is (hostile input)
)

type PtrRef struct {
	Kind PtrKind `json:"k"`
	Obj  int     `json:"o,omitempty"`
	Cap  uint32  `json:"c,omitempty"`
	Raw  uint64  `json:"r,omitempty"`
}

type Obj struct {
	IsList bool     `json:"l,omitempty"`
	LK     ListKind `json:"lk,omitempty"`
	N      int      `json:"n,omitempty"`  // list element count
	DW     int      `json:"dw,omitempty"` // struct / composite element data words
	PC     int      `json:"pc,omitempty"` // struct / composite element pointer count
	Data   Bytes    `json:"d,omitempty"`  // struct: DW*8 bytes; prim/bit list: raw content (padded with zeros to words by the encoder); composite: N*DW*8 bytes
	Ptrs   []PtrRef `json:"p,omitempty"`  // struct: PC; LPtr: N; composite: N*PC (element-major)
}

type Graph struct {
	Objs []Obj  `json:"objs"`
	Root PtrRef `json:"root"`
}

// Words returns the size of the object body in words (incl. composite tag).
func (o *Obj) Words() int {
	if !o.IsList {
		return o.DW + o.PC
	}
	switch o.LK {
	case LVoid:
		return 0
	case LBit:
		return (o.N + 63) / 64
	case LB1, LB2, LB4, LB8:
		return (o.N*o.LK.ElemBytes() + 7) / 8
	case LPtr:
		return o.N
	default:
		return 1 + o.N*(o.DW+o.PC)
	}
}

// slotWord returns the word index (inside the body) of pointer slot j.
func (o *Obj) slotWord(j int) int {
	if !o.IsList {
		return o.DW + j
	}
	if o.LK == LPtr {
		return j
	}
	// composite
	e, k := j/o.PC, j%o.PC
	return 1 + e*(o.DW+o.PC) + o.DW + k
}

// FromValue flattens a tree into a graph (objects in preorder).
func FromValue(v Value) Graph {
	var g Graph
	g.Root = g.add(v)
	return g
}

func (g *Graph) add(v Value) PtrRef {
	switch v.Kind {
	case KNull:
		return PtrRef{Kind: PNull}
	case KCap:
		return PtrRef{Kind: PCap, Cap: v.Cap}
	case KStruct:
		idx := len(g.Objs)
		g.Objs = append(g.Objs, Obj{DW: len(v.Data) / 8, PC: len(v.Ptrs), Data: v.Data})
		ptrs := make([]PtrRef, len(v.Ptrs))
		for i, p := range v.Ptrs {
			ptrs[i] = g.add(p)
		}
		g.Objs[idx].Ptrs = ptrs
		return PtrRef{Kind: PObj, Obj: idx}
	case KList:
		idx := len(g.Objs)
		o := Obj{IsList: true, LK: v.LK, N: v.N}
		switch v.LK {
		case LBit:
			o.Data = make([]byte, (v.N+7)/8)
			for i, b := range v.Bits {
				if b {
					o.Data[i/8] |= 1 << uint(i%8)
				}
			}
		case LB1, LB2, LB4, LB8:
			o.Data = v.Prim
		case LComposite:
			o.DW, o.PC = v.DW, v.PC
		}
		g.Objs = append(g.Objs, o)
		switch v.LK {
		case LPtr:
			ptrs := make([]PtrRef, v.N)
			for i, e := range v.Elems {
				ptrs[i] = g.add(e)
			}
			g.Objs[idx].Ptrs = ptrs
		case LComposite:
			var data []byte
			var ptrs []PtrRef
			for _, e := range v.Elems {
				if len(e.Data) != v.DW*8 || len(e.Ptrs) != v.PC {
					panic("ref.FromValue: composite element size mismatch")
				}
				data = append(data, e.Data...)
				for _, p := range e.Ptrs {
					ptrs = append(ptrs, g.add(p))
				}
			}
			g.Objs[idx].Data = data
			g.Objs[idx].Ptrs = ptrs
		}
		return PtrRef{Kind: PObj, Obj: idx}
	}
	panic("unreachable")
}

// ---- plans ------------------------------------------------------------------

// Plan fixes every choice the spec leaves to an encoder.  All slices are
// indexed modulo their length, and every value is reduced modulo its legal
// range, so any Plan is executable.
type Plan struct {
	NSegs    int   `json:"nsegs"`
	ObjSeg   []int `json:"obj_seg,omitempty"`   // object i lives in segment ObjSeg[i] % NSegs
	Order    []int `json:"order,omitempty"`     // sort key of object i inside its segment
	EdgeKind []int `json:"edge_kind,omitempty"` // per pointer slot (global slot counter): 0 near if same segment else far; 1 far; 2 double-far
	PadSeg   []int `json:"pad_seg,omitempty"`   // per double-far edge: segment holding the 2-word pad
	Gap      []int `json:"gap,omitempty"`       // unreachable junk words placed before object i (0..3)
	ZeroOff  []int `json:"zero_off,omitempty"`  // zero-sized struct pointer: 0 => offset -1; else some other in-bounds non-zero offset
	Junk     byte  `json:"junk,omitempty"`      // fill byte of junk words
	PadFill  byte  `json:"pad_fill,omitempty"`  // bit/primitive lists: unused bits of the last byte and the bytes up to the word boundary are filled from this byte (opt-in; gen.Plan leaves it zero)
}

func pick(s []int, i int) int {
	if len(s) == 0 {
		return 0
	}
	v := s[i%len(s)]
	if v < 0 {
		v = -v
	}
	return v
}

// Layout is the result of encoding: segments plus where everything went.
type Layout struct {
	Segs    [][]byte
	ObjSeg  []int // segment of object i
	ObjWord []int // word offset of object i's body
	Stats   LayoutStats
}

type LayoutStats struct {
	Near, Far, DoubleFar int
	ZeroSizedStructs     int
}

type item struct {
	key   int
	seq   int
	words int
	obj   int // >=0 object; -1 pad
	edge  int // for pads
	gap   int
	addr  int
}

type edge struct {
	fromObj  int // -1 = root
	slot     int
	to       int
	kind     int // 0 near 1 far 2 dfar
	padSeg   int
	padAddr  int
}

// Encode lays the graph out according to plan.
func Encode(g Graph, plan Plan) (*Layout, error) {
	nsegs := plan.NSegs
	if nsegs < 1 {
		nsegs = 1
	}
	L := &Layout{ObjSeg: make([]int, len(g.Objs)), ObjWord: make([]int, len(g.Objs))}
	for i := range g.Objs {
		L.ObjSeg[i] = pick(plan.ObjSeg, i) % nsegs
	}
	// collect edges
	var edges []edge
	addEdge := func(from, slot int, r PtrRef) {
		if r.Kind != PObj {
			return
		}
		if r.Obj < 0 || r.Obj >= len(g.Objs) {
			panic("ref.Encode: dangling object reference")
		}
		e := edge{fromObj: from, slot: slot, to: r.Obj}
		idx := len(edges)
		k := pick(plan.EdgeKind, idx) % 3
		srcSeg := 0
		if from >= 0 {
			srcSeg = L.ObjSeg[from]
		}
		to := &g.Objs[r.Obj]
		if !to.IsList && to.DW == 0 && to.PC == 0 {
			k = 0 // zero-sized struct: placement irrelevant, always a near pointer
		} else if k == 0 && srcSeg != L.ObjSeg[r.Obj] {
			k = 1
		}
		e.kind = k
		if k == 2 {
			e.padSeg = pick(plan.PadSeg, idx) % nsegs
		}
		edges = append(edges, e)
	}
	addEdge(-1, 0, g.Root)
	for i := range g.Objs {
		for j, r := range g.Objs[i].Ptrs {
			addEdge(i, j, r)
		}
	}
	// items per segment
	perSeg := make([][]item, nsegs)
	seq := 0
	for i := range g.Objs {
		o := &g.Objs[i]
		if !o.IsList && o.DW == 0 && o.PC == 0 {
			L.ObjSeg[i] = -1 // not placed
			continue
		}
		s := L.ObjSeg[i]
		perSeg[s] = append(perSeg[s], item{key: pick(plan.Order, i), seq: seq, words: o.Words(), obj: i, gap: pick(plan.Gap, i) % 4})
		seq++
	}
	for ei := range edges {
		e := &edges[ei]
		switch e.kind {
		case 1:
			s := L.ObjSeg[e.to]
			perSeg[s] = append(perSeg[s], item{key: pick(plan.Order, e.to+ei+1), seq: seq, words: 1, obj: -1, edge: ei})
			seq++
		case 2:
			perSeg[e.padSeg] = append(perSeg[e.padSeg], item{key: pick(plan.Order, e.to+ei+2), seq: seq, words: 2, obj: -1, edge: ei})
			seq++
		}
	}
	segWords := make([]int, nsegs)
	for s := range perSeg {
		sort.SliceStable(perSeg[s], func(a, b int) bool {
			if perSeg[s][a].key != perSeg[s][b].key {
				return perSeg[s][a].key < perSeg[s][b].key
			}
			return perSeg[s][a].seq < perSeg[s][b].seq
		})
		pos := 0
		if s == 0 {
			pos = 1 // root pointer
		}
		for k := range perSeg[s] {
			it := &perSeg[s][k]
			pos += it.gap
			it.addr = pos
			pos += it.words
			if it.obj >= 0 {
				L.ObjWord[it.obj] = it.addr
			} else {
				edges[it.edge].padAddr = it.addr
			}
		}
		segWords[s] = pos
		if pos >= 1<<28 {
			return nil, fmt.Errorf("segment too large")
		}
	}
	L.Segs = make([][]byte, nsegs)
	for s := range L.Segs {
		L.Segs[s] = make([]byte, segWords[s]*8)
		// junk in gaps
		if plan.Junk != 0 {
			for i := range L.Segs[s] {
				L.Segs[s][i] = plan.Junk
			}
			pos := 0
			if s == 0 {
				zero(L.Segs[0][:8])
			}
			_ = pos
			for _, it := range perSeg[s] {
				zero(L.Segs[s][it.addr*8 : (it.addr+it.words)*8])
			}
		}
	}
	put := func(seg, word int, v uint64) {
		binary.LittleEndian.PutUint64(L.Segs[seg][word*8:], v)
	}
	// object bodies (without pointers)
	for i := range g.Objs {
		o := &g.Objs[i]
		s := L.ObjSeg[i]
		if s < 0 {
			continue
		}
		base := L.ObjWord[i] * 8
		switch {
		case !o.IsList:
			copy(L.Segs[s][base:], o.Data)
		case o.LK == LComposite:
			put(s, L.ObjWord[i], structPtrWord(int32(o.N), o.DW, o.PC))
			for e := 0; e < o.N; e++ {
				copy(L.Segs[s][base+8+e*(o.DW+o.PC)*8:], o.Data[e*o.DW*8:(e+1)*o.DW*8])
			}
		case o.LK == LPtr || o.LK == LVoid:
		default:
			copy(L.Segs[s][base:], o.Data)
			if plan.PadFill != 0 {
				body := L.Segs[s][base : base+o.Words()*8]
				for k := len(o.Data); k < len(body); k++ {
					body[k] = plan.PadFill
				}
				if o.LK == LBit && o.N%8 != 0 {
					mask := byte(0xff) << uint(o.N%8)
					body[o.N/8] |= plan.PadFill & mask
				}
			}
		}
	}
	// pointers
	ei := 0
	writeRef := func(from, slot int, r PtrRef, seg, word int) {
		switch r.Kind {
		case PNull:
			put(seg, word, 0)
		case PCap:
			put(seg, word, 3|uint64(r.Cap)<<32)
		case PRaw:
			put(seg, word, r.Raw)
		case PObj:
			e := edges[ei]
			slotIdx := ei
			ei++
			to := &g.Objs[r.Obj]
			if !to.IsList && to.DW == 0 && to.PC == 0 {
				L.Stats.ZeroSizedStructs++
				off := int32(-1)
				if z := pick(plan.ZeroOff, slotIdx); z != 0 {
					// any in-bounds, non-zero offset denotes the same (empty) struct
					target := z % (len(L.Segs[seg])/8 + 1) // word index 0..len
					off = int32(target - (word + 1))
					if off == 0 {
						off = -1
					}
				}
				put(seg, word, structPtrWord(off, 0, 0))
				return
			}
			tseg, tword := L.ObjSeg[r.Obj], L.ObjWord[r.Obj]
			switch e.kind {
			case 0:
				L.Stats.Near++
				put(seg, word, nearPtrWord(to, int32(tword-(word+1))))
			case 1:
				L.Stats.Far++
				put(tseg, e.padAddr, nearPtrWord(to, int32(tword-(e.padAddr+1))))
				put(seg, word, 2|uint64(e.padAddr)<<3|uint64(tseg)<<32)
			case 2:
				L.Stats.DoubleFar++
				put(e.padSeg, e.padAddr, 2|uint64(tword)<<3|uint64(tseg)<<32)
				put(e.padSeg, e.padAddr+1, nearPtrWord(to, 0))
				put(seg, word, 2|4|uint64(e.padAddr)<<3|uint64(e.padSeg)<<32)
			}
		}
	}
	writeRef(-1, 0, g.Root, 0, 0)
	for i := range g.Objs {
		o := &g.Objs[i]
		for j, r := range o.Ptrs {
			if L.ObjSeg[i] < 0 {
				continue
			}
			writeRef(i, j, r, L.ObjSeg[i], L.ObjWord[i]+o.slotWord(j))
		}
	}
	return L, nil
}

func zero(b []byte) {
	for i := range b {
		b[i] = 0
	}
}

func structPtrWord(off int32, dw, pc int) uint64 {
	return uint64(uint32(off)<<2) | uint64(dw&0xffff)<<32 | uint64(pc&0xffff)<<48
}

func listPtrWord(off int32, lk ListKind, count int) uint64 {
	return 1 | uint64(uint32(off)<<2) | uint64(lk)<<32 | uint64(count)<<35
}

func nearPtrWord(o *Obj, off int32) uint64 {
	if !o.IsList {
		return structPtrWord(off, o.DW, o.PC)
	}
	if o.LK == LComposite {
		return listPtrWord(off, LComposite, o.N*(o.DW+o.PC))
	}
	return listPtrWord(off, o.LK, o.N)
}
