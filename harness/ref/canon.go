package ref

import "encoding/binary"

// Truncate returns the value-level canonical form of v: trailing zero data
// words and trailing null pointers removed from every struct; in a struct
// list, the data/pointer sections are cut to the largest truncated size of
// any element.  Two encodings denote the "same value regardless of padding
// or version" iff their Truncate forms are Identical.
func Truncate(v Value) Value {
	switch v.Kind {
	case KStruct:
		dw, pc := truncSize(v)
		return cutStruct(v, dw, pc)
	case KList:
		out := v
		switch v.LK {
		case LPtr:
			out.Elems = make([]Value, len(v.Elems))
			for i, e := range v.Elems {
				out.Elems[i] = Truncate(e)
			}
		case LComposite:
			dw, pc := 0, 0
			for _, e := range v.Elems {
				d, p := truncSize(e)
				if d > dw {
					dw = d
				}
				if p > pc {
					pc = p
				}
			}
			out.DW, out.PC = dw, pc
			out.Elems = make([]Value, len(v.Elems))
			for i, e := range v.Elems {
				out.Elems[i] = cutStruct(e, dw, pc)
			}
		}
		return out
	}
	return v
}

func truncSize(v Value) (dw, pc int) {
	dw = len(v.Data) / 8
	for dw > 0 && allZero(v.Data[(dw-1)*8:dw*8]) {
		dw--
	}
	pc = len(v.Ptrs)
	for pc > 0 && v.Ptrs[pc-1].Kind == KNull {
		pc--
	}
	return
}

func cutStruct(v Value, dw, pc int) Value {
	out := Value{Kind: KStruct, Data: append(Bytes(nil), v.Data[:dw*8]...)}
	if len(out.Data) == 0 {
		out.Data = nil
	}
	for i := 0; i < pc; i++ {
		out.Ptrs = append(out.Ptrs, Truncate(v.Ptrs[i]))
	}
	return out
}

// HasCap reports whether the tree contains a capability pointer.
func HasCap(v Value) bool {
	switch v.Kind {
	case KCap:
		return true
	case KStruct:
		for _, p := range v.Ptrs {
			if HasCap(p) {
				return true
			}
		}
	case KList:
		for _, e := range v.Elems {
			if HasCap(e) {
				return true
			}
		}
	}
	return false
}

// CheckCanonical verifies that seg (a single segment without segment table)
// is in the canonical form of the encoding spec: preorder layout without
// gaps, no far pointers, no capabilities, every struct truncated, struct lists
// commonly truncated, zero-sized struct pointers with offset -1, zero list
// padding and nothing after the last object.
func CheckCanonical(seg []byte) error {
	if len(seg)%8 != 0 || len(seg) < 8 {
		return derr("canonical: not whole words / no root")
	}
	c := &canonChecker{seg: seg, cursor: 1}
	if err := c.ptr(0, true); err != nil {
		return err
	}
	if c.cursor != len(seg)/8 {
		return derr("canonical: %d trailing words after the last object", len(seg)/8-c.cursor)
	}
	return nil
}

type canonChecker struct {
	seg    []byte
	cursor int
	depth  int
}

func (c *canonChecker) w(i int) (uint64, error) {
	if i < 0 || (i+1)*8 > len(c.seg) {
		return 0, derr("canonical: word %d out of bounds", i)
	}
	return binary.LittleEndian.Uint64(c.seg[i*8:]), nil
}

func (c *canonChecker) ptr(at int, root bool) error {
	c.depth++
	defer func() { c.depth-- }()
	if c.depth > 300 {
		return derr("canonical: too deep")
	}
	p, err := c.w(at)
	if err != nil {
		return err
	}
	if p == 0 {
		if root {
			return nil
		}
		return nil
	}
	switch p & 3 {
	case 2:
		return derr("canonical: far pointer at word %d", at)
	case 3:
		return derr("canonical: capability/other pointer at word %d", at)
	}
	off := int(int32(uint32(p)) >> 2)
	target := at + 1 + off
	if p&3 == 0 {
		dw, pc := int(uint16(p>>32)), int(uint16(p>>48))
		if dw == 0 && pc == 0 {
			if off != -1 {
				return derr("canonical: zero-sized struct pointer with offset %d (want -1)", off)
			}
			return nil
		}
		if target != c.cursor {
			return derr("canonical: struct at word %d is not in preorder position %d", target, c.cursor)
		}
		return c.structBody(target, dw, pc, true)
	}
	// list
	lk := ListKind(p >> 32 & 7)
	count := int(p >> 35)
	words := 0
	switch lk {
	case LVoid:
		return nil
	case LBit:
		words = (count + 63) / 64
	case LB1, LB2, LB4, LB8:
		words = (count*lk.ElemBytes() + 7) / 8
	case LPtr:
		words = count
	case LComposite:
		words = count + 1
	}
	if words > 0 && target != c.cursor {
		return derr("canonical: list at word %d is not in preorder position %d", target, c.cursor)
	}
	if target < 0 || (target+words)*8 > len(c.seg) {
		return derr("canonical: list out of bounds")
	}
	c.cursor += words
	switch lk {
	case LBit:
		for i := target*8 + (count+7)/8; i < (target+words)*8; i++ {
			if c.seg[i] != 0 {
				return derr("canonical: bit list padding not zero")
			}
		}
		if count%8 != 0 && c.seg[target*8+count/8]>>uint(count%8) != 0 {
			return derr("canonical: bit list padding bits not zero")
		}
	case LB1, LB2, LB4, LB8:
		for i := target*8 + count*lk.ElemBytes(); i < (target+words)*8; i++ {
			if c.seg[i] != 0 {
				return derr("canonical: list padding not zero")
			}
		}
	case LPtr:
		for i := 0; i < count; i++ {
			if err := c.ptr(target+i, false); err != nil {
				return err
			}
		}
	case LComposite:
		tag, _ := c.w(target)
		if tag&3 != 0 {
			return derr("canonical: bad composite tag")
		}
		n := int(int32(uint32(tag)) >> 2)
		dw, pc := int(uint16(tag>>32)), int(uint16(tag>>48))
		if n < 0 || n*(dw+pc) != count {
			return derr("canonical: composite word count %d != %d*(%d+%d)", count, n, dw, pc)
		}
		// common truncation: some element must use the last data word / last pointer
		lastData, lastPtr := dw == 0, pc == 0
		for i := 0; i < n; i++ {
			base := target + 1 + i*(dw+pc)
			if dw > 0 {
				if x, _ := c.w(base + dw - 1); x != 0 {
					lastData = true
				}
			}
			if pc > 0 {
				if x, _ := c.w(base + dw + pc - 1); x != 0 {
					lastPtr = true
				}
			}
		}
		if !lastData {
			return derr("canonical: struct list has a trailing data word that is zero in all elements")
		}
		if !lastPtr {
			return derr("canonical: struct list has a trailing pointer that is null in all elements")
		}
		for i := 0; i < n; i++ {
			base := target + 1 + i*(dw+pc)
			for j := 0; j < pc; j++ {
				if err := c.ptr(base+dw+j, false); err != nil {
					return err
				}
			}
		}
	}
	return nil
}

func (c *canonChecker) structBody(target, dw, pc int, standalone bool) error {
	if target < 0 || (target+dw+pc)*8 > len(c.seg) {
		return derr("canonical: struct out of bounds")
	}
	c.cursor += dw + pc
	if dw > 0 {
		if x, _ := c.w(target + dw - 1); x == 0 {
			return derr("canonical: struct at word %d has a trailing zero data word", target)
		}
	}
	if pc > 0 {
		if x, _ := c.w(target + dw + pc - 1); x == 0 {
			return derr("canonical: struct at word %d has a trailing null pointer", target)
		}
	}
	for j := 0; j < pc; j++ {
		if err := c.ptr(target+dw+j, false); err != nil {
			return err
		}
	}
	return nil
}
