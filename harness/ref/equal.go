package ref

// Tri is the verdict of the documented equality: some pairs are not
// determined by the documentation and are reported as Unspecified so that a
// check never asserts more than the property says.
type Tri int

const (
	NotEqual Tri = iota
	IsEqual
	Unspecified
)

func (t Tri) String() string { return [...]string{"not-equal", "equal", "unspecified"}[t] }

// Equal implements the doc comment of capnp.Equal on decoded trees:
//   - structs: field by field, missing trailing data is zero, missing trailing pointers are null
//   - lists: same length and element-wise equal; a primitive list is treated as a
//     list of structs holding the value as sole field when compared with a struct list
//   - capabilities by identity (sameCap(i,j); nil means same index)
//   - null only equals null; all other combinations are unequal.
//
// Unspecified: list pairs of different element kinds where the documentation's
// two sentences ("element-wise" vs "all other combinations") do not settle the
// answer: zero-length lists of different kinds, void vs bit lists, and bit lists
// vs struct lists.
func Equal(a, b Value, sameCap func(i, j uint32) bool) Tri {
	if a.Kind == KNull && b.Kind == KNull {
		return IsEqual
	}
	if a.Kind != b.Kind {
		return NotEqual
	}
	switch a.Kind {
	case KCap:
		if sameCap == nil {
			if a.Cap == b.Cap {
				return IsEqual
			}
			return NotEqual
		}
		if sameCap(a.Cap, b.Cap) {
			return IsEqual
		}
		return NotEqual
	case KStruct:
		return equalStruct(a, b, sameCap)
	case KList:
		return equalList(a, b, sameCap)
	}
	return NotEqual
}

func equalStruct(a, b Value, sameCap func(i, j uint32) bool) Tri {
	da, db := a.Data, b.Data
	n := len(da)
	if len(db) < n {
		n = len(db)
	}
	if string(da[:n]) != string(db[:n]) || !allZero(da[n:]) || !allZero(db[n:]) {
		return NotEqual
	}
	res := IsEqual
	m := len(a.Ptrs)
	if len(b.Ptrs) < m {
		m = len(b.Ptrs)
	}
	for i := 0; i < m; i++ {
		switch Equal(a.Ptrs[i], b.Ptrs[i], sameCap) {
		case NotEqual:
			return NotEqual
		case Unspecified:
			res = Unspecified
		}
	}
	for _, p := range a.Ptrs[m:] {
		if p.Kind != KNull {
			return NotEqual
		}
	}
	for _, p := range b.Ptrs[m:] {
		if p.Kind != KNull {
			return NotEqual
		}
	}
	return res
}

// elemStruct views element i of a list as a struct (the upgrade rule).
func elemStruct(l Value, i int) (Value, bool) {
	switch l.LK {
	case LVoid:
		return Value{Kind: KStruct}, true
	case LB1, LB2, LB4, LB8:
		sz := l.LK.ElemBytes()
		d := make([]byte, 8)
		copy(d, l.Prim[i*sz:(i+1)*sz])
		return Value{Kind: KStruct, Data: d}, true
	case LPtr:
		return Value{Kind: KStruct, Ptrs: []Value{l.Elems[i]}}, true
	case LComposite:
		return l.Elems[i], true
	}
	return Value{}, false // bit lists are not upgradable
}

func equalList(a, b Value, sameCap func(i, j uint32) bool) Tri {
	if a.N != b.N {
		return NotEqual
	}
	if a.LK == b.LK {
		switch a.LK {
		case LVoid:
			return IsEqual
		case LBit:
			for i := range a.Bits {
				if a.Bits[i] != b.Bits[i] {
					return NotEqual
				}
			}
			return IsEqual
		case LB1, LB2, LB4, LB8:
			if string(a.Prim) == string(b.Prim) {
				return IsEqual
			}
			return NotEqual
		}
	}
	if a.LK != b.LK {
		if a.N == 0 {
			return Unspecified
		}
		if a.LK == LBit || b.LK == LBit {
			if a.LK == LVoid || b.LK == LVoid || a.LK == LComposite || b.LK == LComposite {
				return Unspecified
			}
			return NotEqual
		}
		if a.LK != LComposite && b.LK != LComposite {
			// two different primitive kinds: "all other combinations"
			return NotEqual
		}
	}
	res := IsEqual
	for i := 0; i < a.N; i++ {
		ea, _ := elemStruct(a, i)
		eb, _ := elemStruct(b, i)
		switch equalStruct(ea, eb, sameCap) {
		case NotEqual:
			return NotEqual
		case Unspecified:
			res = Unspecified
		}
	}
	return res
}
