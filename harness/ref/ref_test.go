package ref_test

import (
	"bytes"
	"encoding/hex"
	"testing"

	"capnproto.org/go/capnp/v3/verifharness/gen"
	"capnproto.org/go/capnp/v3/verifharness/ref"
	"pgregory.net/rapid"
)

// Encode∘Decode identity on generated trees, every plan; produced layouts are strict-valid and disjoint.
func TestEncodeDecodeIdentity(t *testing.T) {
	rapid.Check(t, func(t *rapid.T) {
		v := gen.ValueTree(t, gen.TreeOpts{MaxDepth: 3, Caps: true, MaxCap: 3})
		plan := gen.Plan(t, 4)
		L, err := ref.Encode(ref.FromValue(v), plan)
		if err != nil {
			t.Fatalf("encode: %v", err)
		}
		d := &ref.Decoder{Segs: L.Segs, Strict: true}
		got, err := d.Root()
		if err != nil {
			t.Fatalf("decode: %v\nvalue=%v\nplan=%+v", err, v, plan)
		}
		if !ref.Identical(got, v) {
			t.Fatalf("mismatch\nwant=%v\ngot =%v\nplan=%+v", v, got, plan)
		}
		if err := ref.CheckDisjoint(d.Extents); err != nil {
			t.Fatalf("%v", err)
		}
		// framing round trip
		fr := ref.Frame(L.Segs)
		segs, n, err := ref.Unframe(fr)
		if err != nil || n != len(fr) || len(segs) != len(L.Segs) {
			t.Fatalf("frame round trip: %v", err)
		}
		for i := range segs {
			if !bytes.Equal(segs[i], L.Segs[i]) {
				t.Fatalf("segment %d differs after framing", i)
			}
		}
	})
}

// The worked example of the packing section of the encoding spec.
func TestPackSpecExample(t *testing.T) {
	in, _ := hex.DecodeString("08000000030002000000000000000000" + "0000000000000000" + "0000000000000000" + "0000000000000000" + "8a9cd2e8e8f4ab3e" /* dense */)
	_ = in
	// unpacked (hex), 10 words: 08 00 00 00 03 00 02 00 | 19 00 00 00 aa 01 00 00
	x, _ := hex.DecodeString("0800000003000200" + "19000000aa010000")
	want, _ := hex.DecodeString("510803" + "02" + "3119aa01")
	got := ref.Pack(x, nil)
	if !bytes.Equal(got, want) {
		t.Fatalf("spec example: got %x want %x", got, want)
	}
	back, err := ref.Unpack(want)
	if err != nil || !bytes.Equal(back, x) {
		t.Fatalf("spec example unpack: %x %v", back, err)
	}
}

// The repository's TestPack vectors (internal/packed/packed_test.go), copied as data: ref must agree.
var packVectors = []struct{ unpacked, packed string }{
	{"", ""},
	{"0000000000000000", "0000"},
	{"00000000000000000000000000000000", "0001"},
	{"000000000c000000" + "0000000000000000", "100c" + "0000"},
	{"0123456789abcdef", "ff0123456789abcdef00"},
	{"0123456789abcdef" + "1111111111111111", "ff0123456789abcdef011111111111111111"},
	{"0100000000000000", "0101"},
	{"0000000000000001", "8001"},
}

func TestPackVectors(t *testing.T) {
	for _, v := range packVectors {
		u, _ := hex.DecodeString(v.unpacked)
		p, _ := hex.DecodeString(v.packed)
		got, err := ref.Unpack(p)
		if err != nil || !bytes.Equal(got, u) {
			t.Errorf("Unpack(%s) = %x, %v; want %s", v.packed, got, err, v.unpacked)
		}
	}
}

func TestCanonicalChecker(t *testing.T) {
	rapid.Check(t, func(t *rapid.T) {
		v := gen.ValueTree(t, gen.TreeOpts{MaxDepth: 3, RootStruct: true})
		tv := ref.Truncate(v)
		// a single-segment, near-only, preorder, gap-free encoding of the truncated value is canonical
		L, err := ref.Encode(ref.FromValue(tv), ref.Plan{NSegs: 1})
		if err != nil {
			t.Fatal(err)
		}
		if err := ref.CheckCanonical(L.Segs[0]); err != nil {
			t.Fatalf("preorder encoding of truncated value rejected: %v\n%v", err, tv)
		}
		if !ref.Identical(ref.Truncate(tv), tv) {
			t.Fatalf("Truncate not idempotent")
		}
		if ref.Equal(v, tv, nil) == ref.NotEqual {
			t.Fatalf("value not Equal to its truncation\n%v\n%v", v, tv)
		}
	})
}

// Expected outputs of the repository's TestCanonicalize (canonical_test.go), copied as data:
// the canonical-form validator must accept every one of them.
var canonVectors = [][]byte{
	{0, 0, 0, 0, 0, 0, 0, 0},
	{0xfc, 0xff, 0xff, 0xff, 0, 0, 0, 0},
	{0, 0, 0, 0, 1, 0, 0, 0, 0xef, 0xbe, 0, 0, 0, 0, 0, 0},
	{0, 0, 0, 0, 0, 0, 2, 0, 0xfc, 0xff, 0xff, 0xff, 0, 0, 0, 0, 0xfc, 0xff, 0xff, 0xff, 0, 0, 0, 0},
	{0, 0, 0, 0, 0, 0, 1, 0, 0x01, 0, 0, 0, 0x2a, 0, 0, 0, 1, 2, 3, 4, 5, 0, 0, 0},
	{0, 0, 0, 0, 0, 0, 1, 0, 0x01, 0, 0, 0, 0x2a, 0, 0, 0, 0, 0, 0, 0, 0, 0, 0, 0},
	{0, 0, 0, 0, 0, 0, 1, 0, 0x01, 0, 0, 0, 0x27, 0, 0, 0, 0x08, 0, 0, 0, 1, 0, 1, 0,
		0xef, 0xbe, 0xad, 0xde, 0, 0, 0, 0, 0, 0, 0, 0, 0, 0, 0, 0,
		0, 0, 0, 0, 0, 0, 0, 0, 0x01, 0, 0, 0, 0x32, 0, 0, 0, 'x', 'y', 'z', 'z', 'y', 0, 0, 0},
	{0, 0, 0, 0, 0, 0, 1, 0, 0x01, 0, 0, 0, 0x07, 0, 0, 0, 0x0c, 0, 0, 0, 0, 0, 0, 0},
	{0, 0, 0, 0, 0, 0, 1, 0, 0x01, 0, 0, 0, 0x07, 0, 0, 0, 0, 0, 0, 0, 0, 0, 0, 0},
}

func TestCanonVectors(t *testing.T) {
	for i, v := range canonVectors {
		if err := ref.CheckCanonical(v); err != nil {
			t.Errorf("vector %d rejected: %v", i, err)
		}
		if _, err := ref.Decode([][]byte{v}, true); err != nil {
			t.Errorf("vector %d not strictly decodable: %v", i, err)
		}
	}
}
