package ref

import (
	"fmt"
)

// TV is a parsed Cap'n Proto text value.
type TV struct {
	Kind   byte // 's' struct, 'l' list, 'q' quoted string, 'a' atom
	Names  []string
	Fields []TV // struct: field values (parallel to Names); list: elements
	Str    []byte
	Atom   string
}

type textParser struct {
	b   []byte
	pos int
}

// ParseText parses the Cap'n Proto text value grammar used for struct
// rendering: '(' name '=' value, ... ')', '[' value, ... ']', double-quoted
// string literals with C escapes, and bare atoms (numbers, true/false/void,
// enumerant names, <...> markers).  It is strict: the whole input must be
// one value, string literals may contain only printable ASCII besides escape
// sequences, and every escape sequence must be known.
func ParseText(b []byte) (TV, error) {
	p := &textParser{b: b}
	v, err := p.value()
	if err != nil {
		return TV{}, err
	}
	if p.pos != len(p.b) {
		return TV{}, fmt.Errorf("text: trailing input at byte %d: %q", p.pos, clipStr(p.b[p.pos:]))
	}
	return v, nil
}

func clipStr(b []byte) string {
	if len(b) > 40 {
		b = b[:40]
	}
	return string(b)
}

func (p *textParser) peek() int {
	if p.pos >= len(p.b) {
		return -1
	}
	return int(p.b[p.pos])
}

func (p *textParser) lit(s string) bool {
	if len(p.b)-p.pos >= len(s) && string(p.b[p.pos:p.pos+len(s)]) == s {
		p.pos += len(s)
		return true
	}
	return false
}

func (p *textParser) value() (TV, error) {
	switch c := p.peek(); {
	case c == '(':
		p.pos++
		v := TV{Kind: 's'}
		if p.lit(")") {
			return v, nil
		}
		for {
			start := p.pos
			for p.pos < len(p.b) && isIdent(p.b[p.pos]) {
				p.pos++
			}
			if p.pos == start {
				return TV{}, fmt.Errorf("text: field name expected at byte %d: %q", p.pos, clipStr(p.b[p.pos:]))
			}
			name := string(p.b[start:p.pos])
			if !p.lit(" = ") {
				return TV{}, fmt.Errorf("text: ' = ' expected after field %s at byte %d", name, p.pos)
			}
			fv, err := p.value()
			if err != nil {
				return TV{}, err
			}
			v.Names = append(v.Names, name)
			v.Fields = append(v.Fields, fv)
			if p.lit(", ") {
				continue
			}
			if p.lit(")") {
				return v, nil
			}
			return TV{}, fmt.Errorf("text: ', ' or ')' expected at byte %d: %q", p.pos, clipStr(p.b[p.pos:]))
		}
	case c == '[':
		p.pos++
		v := TV{Kind: 'l'}
		if p.lit("]") {
			return v, nil
		}
		for {
			ev, err := p.value()
			if err != nil {
				return TV{}, err
			}
			v.Fields = append(v.Fields, ev)
			if p.lit(", ") {
				continue
			}
			if p.lit("]") {
				return v, nil
			}
			return TV{}, fmt.Errorf("text: ', ' or ']' expected at byte %d: %q", p.pos, clipStr(p.b[p.pos:]))
		}
	case c == '"':
		p.pos++
		v := TV{Kind: 'q', Str: []byte{}}
		for {
			if p.pos >= len(p.b) {
				return TV{}, fmt.Errorf("text: unterminated string literal")
			}
			ch := p.b[p.pos]
			p.pos++
			switch {
			case ch == '"':
				return v, nil
			case ch == '\\':
				if p.pos >= len(p.b) {
					return TV{}, fmt.Errorf("text: dangling backslash")
				}
				e := p.b[p.pos]
				p.pos++
				switch e {
				case 'a':
					v.Str = append(v.Str, '\a')
				case 'b':
					v.Str = append(v.Str, '\b')
				case 'f':
					v.Str = append(v.Str, '\f')
				case 'n':
					v.Str = append(v.Str, '\n')
				case 'r':
					v.Str = append(v.Str, '\r')
				case 't':
					v.Str = append(v.Str, '\t')
				case 'v':
					v.Str = append(v.Str, '\v')
				case '\'', '"', '\\':
					v.Str = append(v.Str, e)
				case 'x':
					if p.pos+2 > len(p.b) {
						return TV{}, fmt.Errorf("text: short \\x escape")
					}
					h, ok1 := unhex(p.b[p.pos])
					l, ok2 := unhex(p.b[p.pos+1])
					if !ok1 || !ok2 {
						return TV{}, fmt.Errorf("text: bad \\x escape")
					}
					p.pos += 2
					v.Str = append(v.Str, h<<4|l)
				default:
					return TV{}, fmt.Errorf("text: unknown escape \\%c", e)
				}
			case ch < 0x20 || ch >= 0x7f:
				return TV{}, fmt.Errorf("text: unescaped non-printable byte %#02x inside a string literal", ch)
			default:
				v.Str = append(v.Str, ch)
			}
		}
	case c == '<':
		start := p.pos
		for p.pos < len(p.b) && p.b[p.pos] != '>' {
			p.pos++
		}
		if p.pos >= len(p.b) {
			return TV{}, fmt.Errorf("text: unterminated <...> marker")
		}
		p.pos++
		return TV{Kind: 'a', Atom: string(p.b[start:p.pos])}, nil
	case c < 0:
		return TV{}, fmt.Errorf("text: value expected at end of input")
	default:
		start := p.pos
		for p.pos < len(p.b) && isAtom(p.b[p.pos]) {
			p.pos++
		}
		if p.pos == start {
			return TV{}, fmt.Errorf("text: value expected at byte %d: %q", p.pos, clipStr(p.b[p.pos:]))
		}
		return TV{Kind: 'a', Atom: string(p.b[start:p.pos])}, nil
	}
}

func isIdent(c byte) bool {
	return c >= 'a' && c <= 'z' || c >= 'A' && c <= 'Z' || c >= '0' && c <= '9' || c == '_'
}

func isAtom(c byte) bool {
	return isIdent(c) || c == '+' || c == '-' || c == '.'
}

func unhex(c byte) (byte, bool) {
	switch {
	case c >= '0' && c <= '9':
		return c - '0', true
	case c >= 'a' && c <= 'f':
		return c - 'a' + 10, true
	case c >= 'A' && c <= 'F':
		return c - 'A' + 10, true
	}
	return 0, false
}
