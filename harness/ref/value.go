package ref

import (
	"encoding/hex"
	"encoding/json"
	"fmt"
	"strings"
)

// Bytes serialises as a hex string.
type Bytes []byte

func (b Bytes) MarshalJSON() ([]byte, error) { return json.Marshal(hex.EncodeToString(b)) }
func (b *Bytes) UnmarshalJSON(p []byte) error {
	var s string
	if err := json.Unmarshal(p, &s); err != nil {
		return err
	}
	d, err := hex.DecodeString(s)
	if err != nil {
		return err
	}
	*b = d
	return nil
}

// Kind of a pointer value.
type Kind int

const (
	KNull Kind = iota
	KStruct
	KList
	KCap
)

// ListKind is the 3-bit element size code of the encoding spec.
type ListKind int

const (
	LVoid      ListKind = 0
	LBit       ListKind = 1
	LB1        ListKind = 2
	LB2        ListKind = 3
	LB4        ListKind = 4
	LB8        ListKind = 5
	LPtr       ListKind = 6
	LComposite ListKind = 7
)

// ElemBytes returns the element size in bytes of a primitive list kind (0 for void/bit/ptr/composite).
func (k ListKind) ElemBytes() int {
	switch k {
	case LB1:
		return 1
	case LB2:
		return 2
	case LB4:
		return 4
	case LB8:
		return 8
	}
	return 0
}

// Value is the tree a pointer denotes according to the encoding spec.
type Value struct {
	Kind Kind `json:"k"`

	// KStruct (also elements of composite lists)
	Data Bytes   `json:"d,omitempty"` // data section, whole words
	Ptrs []Value `json:"p,omitempty"` // pointer section

	// KList
	LK    ListKind `json:"lk,omitempty"`
	N     int      `json:"n,omitempty"`  // element count
	Bits  []bool   `json:"bits,omitempty"`
	Prim  Bytes    `json:"prim,omitempty"` // LB1..LB8: N*size bytes
	Elems []Value  `json:"e,omitempty"`    // LPtr: N pointers; LComposite: N structs (Kind KStruct)
	DW    int      `json:"dw,omitempty"`   // composite: data words per element
	PC    int      `json:"pc,omitempty"`   // composite: pointers per element

	// KCap
	Cap uint32 `json:"cap,omitempty"`
}

func Null() Value { return Value{} }

func StructV(data []byte, ptrs ...Value) Value {
	if len(data)%8 != 0 {
		panic("ref.StructV: data not whole words")
	}
	return Value{Kind: KStruct, Data: data, Ptrs: ptrs}
}

func TextV(s string) Value {
	b := append([]byte(s), 0)
	return Value{Kind: KList, LK: LB1, N: len(b), Prim: b}
}

func DataV(b []byte) Value {
	return Value{Kind: KList, LK: LB1, N: len(b), Prim: append([]byte(nil), b...)}
}

func CapV(i uint32) Value { return Value{Kind: KCap, Cap: i} }

// IsText reports whether v is a byte list ending in NUL and returns the text bytes.
func (v Value) IsText() ([]byte, bool) {
	if v.Kind != KList || v.LK != LB1 || v.N == 0 || v.Prim[v.N-1] != 0 {
		return nil, false
	}
	return v.Prim[:v.N-1], true
}

// Depth returns the height of the tree (null/cap = 0, struct/list = 1 + max child).
func (v Value) Depth() int {
	switch v.Kind {
	case KStruct:
		d := 0
		for _, p := range v.Ptrs {
			if x := p.Depth(); x > d {
				d = x
			}
		}
		return 1 + d
	case KList:
		d := 0
		for _, e := range v.Elems {
			var x int
			if v.LK == LComposite {
				x = e.Depth() - 1 // elements are not pointers
			} else {
				x = e.Depth()
			}
			if x > d {
				d = x
			}
		}
		return 1 + d
	}
	return 0
}

// String renders a compact debugging form.
func (v Value) String() string {
	var b strings.Builder
	v.write(&b)
	return b.String()
}

func (v Value) write(b *strings.Builder) {
	switch v.Kind {
	case KNull:
		b.WriteString("null")
	case KCap:
		fmt.Fprintf(b, "cap(%d)", v.Cap)
	case KStruct:
		fmt.Fprintf(b, "struct{d=%x p=[", []byte(v.Data))
		for i, p := range v.Ptrs {
			if i > 0 {
				b.WriteString(",")
			}
			p.write(b)
		}
		b.WriteString("]}")
	case KList:
		switch v.LK {
		case LVoid:
			fmt.Fprintf(b, "void[%d]", v.N)
		case LBit:
			fmt.Fprintf(b, "bit[%d]{", v.N)
			for _, x := range v.Bits {
				if x {
					b.WriteByte('1')
				} else {
					b.WriteByte('0')
				}
			}
			b.WriteString("}")
		case LB1, LB2, LB4, LB8:
			fmt.Fprintf(b, "b%d[%d]{%x}", v.LK.ElemBytes(), v.N, []byte(v.Prim))
		case LPtr:
			fmt.Fprintf(b, "ptr[%d]{", v.N)
			for i, e := range v.Elems {
				if i > 0 {
					b.WriteString(",")
				}
				e.write(b)
			}
			b.WriteString("}")
		case LComposite:
			fmt.Fprintf(b, "comp[%d;dw=%d,pc=%d]{", v.N, v.DW, v.PC)
			for i, e := range v.Elems {
				if i > 0 {
					b.WriteString(",")
				}
				e.write(b)
			}
			b.WriteString("}")
		}
	}
}

// Identical reports exact tree identity (same kinds, sizes and bytes) — stricter than Equal.
func Identical(a, b Value) bool {
	if a.Kind != b.Kind {
		return false
	}
	switch a.Kind {
	case KNull:
		return true
	case KCap:
		return a.Cap == b.Cap
	case KStruct:
		if string(a.Data) != string(b.Data) || len(a.Ptrs) != len(b.Ptrs) {
			return false
		}
		for i := range a.Ptrs {
			if !Identical(a.Ptrs[i], b.Ptrs[i]) {
				return false
			}
		}
		return true
	case KList:
		if a.LK != b.LK || a.N != b.N {
			return false
		}
		switch a.LK {
		case LVoid:
			return true
		case LBit:
			for i := range a.Bits {
				if a.Bits[i] != b.Bits[i] {
					return false
				}
			}
			return true
		case LB1, LB2, LB4, LB8:
			return string(a.Prim) == string(b.Prim)
		case LComposite:
			if a.DW != b.DW || a.PC != b.PC {
				return false
			}
			fallthrough
		case LPtr:
			for i := range a.Elems {
				if !Identical(a.Elems[i], b.Elems[i]) {
					return false
				}
			}
			return true
		}
	}
	return false
}
