#!/usr/bin/env python3
"""sensitivity.py [name-substring]: break each property on purpose with a small, realistic edit of /repo, run the
quick check(s) that should notice, and revert.  Writes sensitivity.md.  /repo must be clean."""
import subprocess, sys, os, json, time

M = []  # (name, property ids, file, old, new)
def mut(name, props, file, old, new): M.append((name, props, file, old, new))

# ---- encoding layer
mut("C03: struct field read at offset+1", ["C03"], "struct.go", "func (p Struct) Uint16(off DataOffset) uint16 {", "func (p Struct) Uint16(off DataOffset) uint16 {\n\toff ^= 2")
mut("C13: zero-run count off by one", ["C13"], "internal/packed/packed.go", "\t\t\tif z > 255 {", "\t\t\tif z > 254 {")
mut("C01: double-far landing pad checked for one word only", ["C01"], "segment.go", "\t\tif !padSeg.regionInBounds(padAddr, wordSize*2) {", "\t\tif !padSeg.regionInBounds(padAddr, wordSize) {")
mut("C01: far pointer landing pad address not bounds-checked", ["C01", "C03"], "segment.go", "\t\tif !dst.regionInBounds(padAddr, wordSize) {", "\t\tif false {")
mut("C02: lists do not consume the depth limit", ["C02"], "segment.go", "\t\tlp.depthLimit = depthLimit - 1", "\t\tlp.depthLimit = depthLimit")
mut("C02: structs are not charged to the traversal limit", ["C02"], "segment.go", "\t\tif !s.msg.canRead(sp.readSize()) {", "\t\tif false {")
mut("C13: literal run limit 256 words", ["C13"], "internal/packed/packed.go", "\t\t\tend := min(len(src), 0xff*wordSize)", "\t\t\tend := min(len(src), 0x100*wordSize)")
mut("C14: too many segments accepted by the decoder", ["C14"], "message.go", "\tif maxSeg > maxStreamSegments {\n\t\treturn nil, newError(\"decode: too many segments to decode\")\n\t}", "")
mut("C17: struct data compared over the shorter length only", ["C17"], "pointer.go", "XXXX-not-present", "")
# ---- rpc: C06
mut("C06: no embargo when a pipelined path resolves to a local capability", ["C06"], "rpc/rpc.go",
    "\t\t\tvar id embargoID\n\t\t\tid, mtab[i] = c.embargo(mtab[i])", "\t\t\tcontinue\n\t\t\tvar id embargoID\n\t\t\tid, mtab[i] = c.embargo(mtab[i])")
mut("C06: pipelined call on a returned answer always uses result capability 0", ["C06"], "rpc/rpc.go",
    "\t\t\t\ttgt = tgtAns.resultCapTable[iface.Capability()]", "\t\t\t\ttgt = tgtAns.resultCapTable[0]")
mut("C06: queueCaller basis off by one (reverts 8c45c21)", ["C06", "C12"], "server/answer.go",
    "\t\tbasis := len(qc.aq.q) // bases[i+1] belongs to queue entry i", "\t\tbasis := len(qc.aq.q) - 1")
mut("C06: question id freed when the Return arrives, before the Finish is sent", ["C06"], "rpc/rpc.go",
    "\tpr := c.parseReturn(ret, q.called) // fills in CapTable", "\tc.questionID.remove(uint32(qid))\n\tpr := c.parseReturn(ret, q.called) // fills in CapTable")
mut("C06: exception Returns lose their reason", ["C06"], "rpc/answer.go",
    "\t\t\tif err := exc.SetReason(e.Error()); err != nil {", "\t\t\tif err := exc.SetReason(\"failed\"); err != nil {")
mut("C06: answer.Return extracts the capability table before blocking pipelined calls (reverts 9e72899 partly)", ["C06"], "rpc/answer.go",
    "\tans.pcalls.Wait()\n\n\tvar cstates []capnp.ClientState", "\n\tvar cstates []capnp.ClientState")
# ---- C07
mut("C07: re-sending an exported capability does not count the new reference", ["C07"], "rpc/export.go",
    "\t\tif ent.client.IsSame(client) {\n\t\t\tent.wireRefs++", "\t\tif ent.client.IsSame(client) {")
mut("C07: a partial Release drops the export", ["C07"], "rpc/export.go",
    "\tcase count == ent.wireRefs:", "\tcase count <= ent.wireRefs:")
mut("C07: Finish ignores releaseResultCaps", ["C07"], "rpc/rpc.go",
    "\tif releaseResultCaps {\n\t\tans.flags |= releaseResultCapsFlag\n\t}", "")
mut("C07: import Release always carries count 1", ["C07"], "rpc/import.go",
    "\t\trel.SetReferenceCount(uint32(ent.wireRefs))", "\t\trel.SetReferenceCount(1)")
mut("C07: shutdown forgets to release the exports", ["C07"], "rpc/rpc.go",
    "\tfor _, e := range exports {\n\t\tif e != nil {\n\t\t\te.client.Release()\n\t\t}\n\t}", "\t_ = exports")
mut("C07: releaseParamCaps ignored (reverts 537afc4 in effect)", ["C07"], "rpc/rpc.go",
    "\tif ret.ReleaseParamCaps() && len(q.paramRefs) > 0 {", "\tif false && len(q.paramRefs) > 0 {")
mut("C07: answers keep their result capabilities after Finish", ["C07"], "rpc/answer.go",
    "\tdelete(ans.c.answers, ans.id)\n\trl := releaseList(ans.resultCapTable)", "\tdelete(ans.c.answers, ans.id)\n\trl := releaseList(nil)")
# ---- added with the third round
mut("C04: NewInt16List allocates 4-byte elements", ["C04"], "list.go",
    "func NewInt16List(s *Segment, n int32) (Int16List, error) {\n\tl, err := newPrimitiveList(s, 2, n)", "func NewInt16List(s *Segment, n int32) (Int16List, error) {\n\tl, err := newPrimitiveList(s, 4, n)")
mut("C03: ListDefault treats an empty list as absent", ["C03"], "pointer.go",
    "\tl := p.List()\n\tif l.seg == nil {\n\t\tif def == nil {\n\t\t\treturn List{}, nil", "\tl := p.List()\n\tif l.seg == nil || l.length == 0 {\n\t\tif def == nil {\n\t\t\treturn List{}, nil")
mut("C10: Resolve reports success when its context ends first", ["C10"], "capability.go",
    "\t\tcase <-h.resolved:\n\t\tcase <-ctx.Done():\n\t\t\treturn ctx.Err()", "\t\tcase <-h.resolved:\n\t\tcase <-ctx.Done():\n\t\t\treturn nil")
mut("C12: a call that waited for a slot is started although Shutdown has begun", ["C12"], "server/server.go",
    "\t\tid = srv.nextID()\n\t\tif srv.drain != nil {", "\t\tid = srv.nextID()\n\t\tif false && srv.drain != nil {")
# ---- C09
mut("C09: sendMessage keeps the sender lock when building the message fails", ["C09"], "rpc/rpc.go",
    "\t\trelease()\n\t\tc.mu.Lock()\n\t\tc.unlockSender()\n\t\treturn errorf(\"build message: %v\", err)", "\t\trelease()\n\t\tc.mu.Lock()\n\t\treturn errorf(\"build message: %v\", err)")
mut("C09: partial writes are never detected (reverts 0637955 in effect)", ["C09"], "rpc/transport.go",
    "\tif err != nil && c.wc.written > 0 {", "\tif err != nil && c.wc.written < 0 {")
mut("C09: Close does not wait for Done", ["C09"], "rpc/rpc.go", "XXXX-not-present", "")
mut("C09: importClient.Send keeps the sender lock when the send fails", ["C09"], "rpc/import.go",
    "\tic.c.mu.Lock()\n\tic.c.unlockSender()\n\tif err != nil {\n\t\tic.c.questions[q.id] = nil", "\tic.c.mu.Lock()\n\tif err != nil {\n\t\tic.c.questions[q.id] = nil")
# ---- C15
mut("C15: 64-bit fields placed at slot offset x 4", ["C15"], "capnpc-go/templateparams.go",
    "\treturn p.Field.Slot().Offset() * uint32(p.Bits/8)", "\tif p.Bits == 64 {\n\t\treturn p.Field.Slot().Offset() * 4\n\t}\n\treturn p.Field.Slot().Offset() * uint32(p.Bits/8)")
mut("C15: discriminant offset not converted to bytes", ["C15"], "capnpc-go/nodes.go",
    "\treturn n.StructNode().DiscriminantOffset() * 2, nil", "\treturn n.StructNode().DiscriminantOffset(), nil")
mut("C15: object size drops the last pointer", ["C15"], "capnpc-go/capnpc-go.go",
    "\t\tn.StructNode().PointerCount()), nil", "\t\tn.StructNode().PointerCount()-n.StructNode().PointerCount()/4), nil")
mut("C15: bool default not applied by the setter", ["C15"], "capnpc-go/templates.go", "XXXX-not-present", "")

def sh(cmd, **kw):
    return subprocess.run(cmd, shell=True, capture_output=True, text=True, **kw)

def main():
    flt = sys.argv[1] if len(sys.argv) > 1 else ""
    if sh("git -C /repo status --short").stdout.strip():
        print("/repo is not clean"); sys.exit(3)
    rows = []
    env = dict(os.environ, VERIF_FAST_DEADLINE="1", VERIF_SEED=os.environ.get("VERIF_SEED", "0"))
    for name, props, file, old, new in M:
        if flt and flt not in name: continue
        path = os.path.join("/repo", file)
        src = open(path).read()
        if old not in src:
            if not old.startswith("XXXX"):
                rows.append((name, "-", "SITE NOT FOUND", ""))
            continue
        open(path, "w").write(src.replace(old, new, 1))
        try:
            b = sh("cd /repo && GOFLAGS=-mod=mod go build ./... 2>&1 | head -5")
            if b.stdout.strip():
                rows.append((name, "-", "does not compile", b.stdout.strip()[:200])); continue
            for p in props:
                t0 = time.time()
                r = subprocess.run(f"cd /verif && bin/vcheck run {p} quick", shell=True, capture_output=True, text=True, env=env)
                sigs = sorted(set(l.split("sig=")[1].split()[0] for l in r.stdout.splitlines() if "VIOLATION-CANDIDATE" in l and "sig=" in l))
                crash = [l for l in r.stdout.splitlines() if l.startswith("process crash")]
                verdict = {0: "MISSED", 1: "detected", 2: "inconclusive"}.get(r.returncode, str(r.returncode))
                rows.append((name, p, verdict, ", ".join(sigs[:3]) or (crash[0][:80] if crash else "")))
                print(name, p, verdict, sigs[:3], f"{time.time()-t0:.0f}s", flush=True)
        finally:
            sh("git -C /repo checkout -- .")
            sh("git -C /verif checkout -- evidence")
    with open("/verif/sensitivity.md", "a") as f:
        f.write(f"\n## run at VERIF_SEED={env['VERIF_SEED']} ({time.strftime('%Y-%m-%d %H:%M')})\n\n| deliberate break | check | verdict | signature |\n|---|---|---|---|\n")
        for r in rows:
            f.write("| " + " | ".join(r) + " |\n")

main()
