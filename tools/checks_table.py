add("C13", "exploration",
    "Generated payloads (run lengths around the 255-word limits), spec-valid packings from an independent encoder with non-maximal runs, arbitrary/grammar/mutated packed strings and every prefix of short packings are checked against an independent spec packer/unpacker (differential in both directions), one-shot vs streaming agreement on output and acceptability, and the 1024x growth bound; MarshalPacked/UnmarshalPacked/PackedDecoder/schemas.Registry are driven through the same oracle. Held on everything generated; not a proof.",
    "Trusted: harness/ref packed codec (written from the packing spec); rapid's generators. Go's native fuzzer adds coverage-guided inputs in the thorough tier only.",
    "property-based differential testing against a reference codec (rapid) + native fuzzing",
    "DESIGN.md section 3, C13")
add("C03", "exploration",
    "Generated value trees are encoded by an independent encoder under drawn layout plans (segment placement, near/far/double-far per edge, junk gaps, composite/primitive list kinds, zero-sized structs) and every accessor result of the public API is compared in lock step with an independent spec decoder (all widths/offsets incl. past-the-end, upgrade views of lists); on hostile mutations of such encodings every successful dereference must land inside the segments according to the independent bounds rules. Held on all generated cases.",
    "Trusted: harness/ref encoder+decoder (self-tested by Encode/Decode identity and strict validation of its own output). Only in-memory 64-bit platforms; 32-bit int overflow branches are not explored.",
    "property-based differential testing against an independent spec decoder (rapid), lock-step walk",
    "DESIGN.md section 3, C03")
add("C04", "exploration",
    "Generated build programs (all object kinds, data/pointer sets at every width, moves, documented copies, overwrites, re-rooting, capabilities, allocations from 0 to >4 KiB) are interpreted against the public builder API in five arena configurations (incl. an exact-capacity arena that forces double-far pointers and dirty spare capacity) next to a reference model; the tree read back through the getters must equal the model after every mutating step and at the end, for attached and unattached objects, and again after each of the four serialisation paths with drawn reader chunkings.",
    "Trusted: the model in harness/build (mirrors only documented semantics), rapid. Aliasing between a moved object's old handle and its new location is never relied upon.",
    "model-based property testing of the builder API (rapid op scripts vs reference model), round trips",
    "DESIGN.md section 3, C04/C05")
add("C05", "exploration",
    "The same generated build programs; the Marshal() output is checked by an independent unframer and an independent STRICT spec decoder (bounds, landing-pad shapes, composite word counts, zero padding), the decoded tree must equal the model, all reached objects and pads must be pairwise disjoint, unset storage must read zero also on dirty arenas, and MarshalPacked must be decodable by the independent unpacker.",
    "Trusted: harness/ref strict decoder/unframer/unpacker and the build model.",
    "model-based property testing with an independent strict decoder as validity oracle (rapid)",
    "DESIGN.md section 3, C04/C05")
add("C17", "exploration",
    "Generated pairs - one value in two layouts/paddings/list-upgrade forms (expected equal), a value and a one-change mutant (expected unequal), independent values, capability pointers with drawn client identities within and across messages - are compared with capnp.Equal in both directions and against an executable transcription of its doc comment (iff wherever the comment decides the pair), plus reflexivity.",
    "Trusted: ref.Equal (transcription of the documented rules) and ref.Encode. Pairs the documentation does not decide (empty lists of different kinds, void vs bit list, bit vs struct list, nil clients across messages) are only checked for symmetry and absence of errors.",
    "property-based metamorphic + differential testing against an executable specification (rapid)",
    "DESIGN.md section 4, C17")
add("C18", "exploration",
    "Generated capability-free root structs (and members of struct lists / primitive lists) in drawn encodings are canonicalised; the output must pass an independent validator of the spec's canonical form, decode (strictly) to the truncated input value, be byte-identical for a second encoding of the same value with different padding/layout, and be a fixpoint; any capability pointer must be rejected.",
    "Trusted: ref.CheckCanonical / ref.Truncate / ref.Decode. The pointer offset of zero-length lists, which the spec leaves open, is deliberately not constrained.",
    "property-based testing with a validity predicate + metamorphic relations (layout independence, idempotence) (rapid)",
    "DESIGN.md section 4, C18")
add("C16", "exploration",
    "Generated source trees in drawn encodings (incl. members of struct lists and of primitive lists, capability pointers with counted hooks) are assigned into fresh destination messages over five arena kinds through SetRoot, SetPtr, PointerList.Set, List.SetStruct and Struct.CopyFrom with smaller/equal/larger struct sizes, followed by same-message copy stages; the destination is decoded by the independent strict decoder and must equal the source under the documented version rule, all reachable objects must be pairwise disjoint, the source bytes must be untouched and are then scribbled over, and re-homed capabilities must index fresh table entries that hold their own reference (Shutdown counted across Reset of both messages).",
    "Trusted: harness/ref encoder/decoder; CountingHook. Independence is asserted only for operations that are copies by documentation/implementation (cross-message, list members, SetStruct, CopyFrom), not for same-message SetPtr of a standalone object (which aliases).",
    "property-based testing with independent decoder + structural disjointness invariant (rapid)",
    "DESIGN.md section 4, C16")
add("C01", "exploration",
    "Hostile messages from five generators (pointer-word grammar with boundary targets/sizes/counts, mutated valid typed messages, mutated reference-encoded trees, byte streams through the framing/packing layers, sparse 0.5-1 MiB segments with counts around 2^22/2^29) are opened through seven arena/framing paths (incl. an arena that fails) under drawn traversal/depth limits and capability tables; every accessor and every whole-tree consumer (Equal, Canonicalize, deep copy, text.Marshal for 5 schemas, pogs.Extract, generated accessors/String) must return without panic within the watchdog, the process must survive (crash journal), the lock-step reference decoder must confirm each successful dereference inside its segment, and Text/Data slices must alias a supplied segment by address.",
    "Trusted: harness/ref bounds rules; cap==len carving turns over-reads into panics. Consumers with a high per-element cost only run when the traversal budget is <=1 MiB or the walk was small, so amplification up to the default 64 MiB budget is exercised only by the O(1)-per-element consumers. 64-bit only.",
    "grammar-based + mutation-based property testing with crash journal, lock-step reference decoder and watchdog (rapid); native fuzzing in the thorough tier",
    "DESIGN.md section 3, C01")
add("C02", "exploration",
    "Generated object graphs with cycles and shared targets (incl. lists of 100-1000 zero-sized elements) are encoded in drawn layouts and walked through the public API by DFS and random path scripts mixing struct fields, struct-list elements and pointer-list elements, under drawn traversal and depth limits: successes along a path never exceed D, the sizes handed out never exceed T, the budget (observed through a build-tag hook) starts at T, never rises and accounts for every object; 2-8 concurrent readers of one message are summed after the join under the race detector; Equal/Canonicalize/SetRoot/text/pogs must terminate on Z-shaped cyclic graphs without panic or stack exhaustion.",
    "Trusted: harness/ref for object sizes; the VerifReadLimit observer (build tag verif). Concurrent interleavings are sampled by the Go scheduler, not enumerated; the race detector covers non-atomic updates, the sum-after-join oracle covers lost updates.",
    "property-based testing over cyclic graph generators with invariant oracles, concurrency stress under -race (rapid)",
    "DESIGN.md section 3, C02")
add("C14", "exploration",
    "Generated message sequences (1-513 segments, empty segments, run-structured contents) are written by plain and packed encoders and read back through decoders with and without buffer reuse over drawn reader chunkings; the stream must parse with an independent unframer/unpacker; for drawn cuts and, on small streams, EVERY cut position the decoded messages are a prefix and io.EOF is reported iff the cut is a frame boundary. Hostile headers x MaxMessageSize values: no panic, measured allocation within the limit, <= 513 segments, acceptance identical to the independent unframer; Unmarshal of arbitrary bytes: no panic, allocation proportional to input.",
    "Trusted: ref.Unframe/ref.Unpack. Allocation is a process-wide counter that advances in span-sized steps: min of three attempts, 64 KiB slack, so only gross over-allocation (the attack the property is about) is detectable.",
    "property-based round-trip + exhaustive cut enumeration + differential against an independent unframer, allocation metering (rapid)",
    "DESIGN.md section 3, C14")
add("C20", "exploration",
    "Generated aircraftlib.Z values over every union member (numeric extremes, NaN/Inf, out-of-range enums, nested lists, groups, arbitrary bytes in Text/Data) and Defaults structs with fields set/unset are rendered by text.Marshal, generated String() and the typed List.String() methods; a strict parser of the text grammar must consume the output, every shown value must be recovered exactly and equal what the generated accessors return, and the text must be identical on a fresh encoder, on a second rendering and on an encoder that has served up to 15000 earlier Encode calls.",
    "Trusted: ref.ParseText, the expected-tree builders in harness/mirror (field names/order transcribed from aircraft.capnp). Only the aircraftlib schemas are exercised; spelling of inf/nan is not constrained.",
    "property-based round-trip through an independent parser + metamorphic history independence (rapid)",
    "DESIGN.md section 4, C20")
add("C19", "exploration",
    "Generated Go values of mirror types for aircraftlib (every Z union member, nested lists, groups, nil pointers, renamed/omitted/embedded fields up to three levels, Text as []byte, Defaults) are inserted and extracted: Extract(Insert(v)) equals v modulo nil/empty, the generated accessors show exactly the inserted values, Insert changes only the discriminant and the active member's bit range (taken from the schema node) in a pre-filled struct, Extract leaves inactive Go fields untouched; messages re-encoded independently in other layouts and newer/older struct sizes, with re-pointed discriminants, must extract to exactly what the generated accessors return.",
    "Trusted: harness/mirror types (follow pogs/doc.go), mirror.FromGenerated (generated accessors as reference), ref encoder. Only aircraftlib schemas; capability-typed members are excluded from the agreement check.",
    "property-based round-trip + differential against generated accessors (rapid), recorded-tape replay of Go values",
    "DESIGN.md section 4, C19")
add("C10", "exploration",
    "Sequential model-based op scripts over clients, weak references and promises (incl. promise chains, calls held open inside an instrumented hook, blocking last Release/Fulfill synchronised through a build-tag yield hook) are compared after every step with a reference model of reference counts, open calls and resolution: a hook is shut down iff unreferenced (or a resolved promise) with no open call, exactly once; calls go to the hook the client resolves to or fail on released/null clients; weak upgrades succeed iff a strong reference remains; every op returns. A concurrent variant runs 2-6 goroutines that own their handles, with Gosched injected at the library's wait/lock points, under the race detector, and checks log invariants (no shutdown while a certainly-referring handle is unreleased, none during a call, exactly once at the end, no deadlock).",
    "Trusted: the reference model; capsim hooks; the VerifYield hook points (build tag verif). Concurrent schedules are sampled by the Go scheduler plus injected yields; the sequential variant is deterministic.",
    "stateful model-based property testing (rapid op scripts) + concurrent stress with yield-point perturbation and log invariants under -race",
    "DESIGN.md section 5, C10")
