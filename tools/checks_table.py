add("C13", "exploration",
    "Generated payloads (run lengths around the 255-word limits), spec-valid packings from an independent encoder with non-maximal runs, arbitrary/grammar/mutated packed strings and every prefix of short packings are checked against an independent spec packer/unpacker (differential in both directions), one-shot vs streaming agreement on output and acceptability, and the 1024x growth bound; MarshalPacked/UnmarshalPacked/PackedDecoder/schemas.Registry are driven through the same oracle. Held on everything generated; not a proof.",
    "Trusted: harness/ref packed codec (written from the packing spec); rapid's generators. Go's native fuzzer adds coverage-guided inputs in the thorough tier only.",
    "property-based differential testing against a reference codec (rapid) + native fuzzing",
    "DESIGN.md section 3, C13")
