#!/usr/bin/env python3
"""Regenerates /verif/MANIFEST.json from the table below (keeps it schema-valid)."""
import json, os, subprocess, sys
ROOT = os.path.dirname(os.path.dirname(os.path.abspath(__file__)))

GOENV = "GOFLAGS=-mod=mod GOPROXY=off GOSUMDB=off GOTOOLCHAIN=local"

# id -> dict(level, text, note, technique, design_ref)
CHECKS = {}
def add(id, level, text, note, technique, design_ref):
    CHECKS[id] = dict(level=level, text=text, note=note, technique=technique, design_ref=design_ref)

def amend(id, text="", note=""):
    """Appends to an entry (extensions made after the entry was first written)."""
    if text:
        CHECKS[id]["text"] += " " + text
    if note:
        CHECKS[id]["note"] += " " + note

exec(open(os.path.join(ROOT, "tools", "checks_table.py")).read())

props = [json.loads(l) for l in open(os.path.join(ROOT, "properties.jsonl"))]
ids = [p["id"] for p in props]

hook_commits = []
try:
    out = subprocess.check_output(["git", "-C", "/repo", "log", "--format=%H %s"], text=True)
    for l in out.splitlines():
        h, s = l.split(" ", 1)
        if s.startswith("verif:"):
            hook_commits.append(h)
except Exception:
    pass

m = {
    "version": 1,
    "setup_cmd": f"cd harness && {GOENV} go build -o ../bin/vcheck ./cmd/vcheck && cd .. && bin/vcheck prebuild",
    "hooks": {
        "guard": "verif",
        "enable": "go build tag: every check builds /repo through the harness module (replace => /repo) with `-tags verif`",
        "baseline_off_cmd": "cd /repo && go test -mod=mod -json -vet=off -count=1 -timeout 25m ./...",
        "source_commits": hook_commits,
        "add_only": True,
    },
    "engines": [
        {"name": "vcheck", "path": "harness/cmd/vcheck", "serves_properties": sorted(CHECKS),
         "kind_free_text": "driver: builds the property's rapid test binary from /repo's working tree, runs 1 (quick) or 16 (thorough) seeded shard processes, merges per-case statistics into evidence, turns shrunk failing cases / crash journals into replay files"},
        {"name": "pbt", "path": "harness/pbt", "serves_properties": sorted(CHECKS),
         "kind_free_text": "pgregory.net/rapid v1.3.0 wrapper: case-as-data generators, shrinking, replay bypassing rapid, known-findings lookup"},
        {"name": "ref", "path": "harness/ref", "serves_properties": sorted(CHECKS),
         "kind_free_text": "independent reference implementations of the Cap'n Proto encoding/packing/canonical/text rules used as oracles"},
    ],
    "checks": [],
    "not_applicable": [],
    "notes": "All properties are decided by property-based testing (rapid) and native Go fuzzing against explicit oracles; see DESIGN.md. VERIF_SEED selects the PRNG stream; exit 2 means inconclusive (infrastructure), never a verdict.",
}
for id in ids:
    if id in CHECKS:
        c = CHECKS[id]
        m["checks"].append({
            "property_id": id,
            "quick_cmd": f"bin/vcheck run {id} quick",
            "thorough_cmd": f"bin/vcheck run {id} thorough",
            "evidence_file": f"evidence/{id}.json",
            "replay_cmd_template": f"bin/vcheck replay {id} {{path}}",
            "engine": "vcheck",
            "level_claimed": {"category": c["level"], "text": c["text"], "design_ref": c["design_ref"]},
            "level_note": c["note"],
            "technique": c["technique"],
        })
    else:
        m["not_applicable"].append({"property_id": id, "reason": "not claimed yet: the generated check for this property is still being built (see DESIGN.md section 8 for the order of work); the technique applies"})
json.dump(m, open(os.path.join(ROOT, "MANIFEST.json"), "w"), indent=1)
print("checks:", len(m["checks"]), "not_applicable:", len(m["not_applicable"]))
