#!/usr/bin/env python3
"""seedkeep.py <seeddir> <name> <property> <needs> <confirmed> <detected_by>  -> /verif/seeded/<name>/"""
import sys, os, shutil, json
sd, name, prop, needs, confirmed, detected = sys.argv[1:7]
dst = os.path.join('/verif/seeded', name)
os.makedirs(dst, exist_ok=True)
for f in os.listdir(sd):
    shutil.copy(os.path.join(sd, f), dst)
json.dump({"property": prop, "needs_to_manifest": needs, "confirmed": confirmed, "detected_by": detected,
           "origin": "independent sub-agent given only the property text and a scratch worktree"},
          open(os.path.join(dst, 'meta.json'), 'w'), indent=1)
print("kept", dst)
