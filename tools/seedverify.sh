#!/bin/bash
# seedverify.sh <seeddir> <testRunRegex> : confirm a seeded change in a scratch worktree:
#  (1) full suite passes with the patch, (2) the demo fails with the patch and passes without.
# The demo *_test.go files of <seeddir> are copied to the worktree root.
set -u
export GOFLAGS=-mod=mod GOPROXY=off GOSUMDB=off GOTOOLCHAIN=local
SD=$1; RUN=$2; DEST=${3:-.}
WT=/tmp/sv-$$
git -C /repo worktree add -q --detach $WT HEAD || exit 3
cleanup() { git -C /repo worktree remove --force $WT; }
trap cleanup EXIT
cd $WT
cp $SD/*_test.go $DEST/ 2>/dev/null
echo "== demo WITHOUT patch"; go test -vet=off -count=1 -timeout 120s -run "$RUN" $DEST 2>&1 | tail -3; R0=${PIPESTATUS[0]}
git apply $SD/patch.diff || { echo "PATCH DOES NOT APPLY"; exit 4; }
echo "== demo WITH patch"; go test -vet=off -count=1 -timeout 120s -run "$RUN" $DEST 2>&1 | tail -5; R1=${PIPESTATUS[0]}
rm -f $DEST/$(cd $SD && ls *_test.go | head -1) ; for f in $SD/*_test.go; do rm -f $DEST/$(basename $f); done
echo "== full suite WITH patch"; go test -vet=off -count=1 -timeout 25m ./... 2>&1 | grep -v "^ok\|no test files" | tail -5; R2=${PIPESTATUS[0]}
echo "RESULT demo_without=$R0 demo_with=$R1 suite_with=$R2"
