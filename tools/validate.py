#!/usr/bin/env python3
import json, sys, glob, jsonschema
jsonschema.validate(json.load(open('/verif/MANIFEST.json')), json.load(open('/root/.vp/MANIFEST.schema.json')))
es = json.load(open('/root/.vp/EVIDENCE.schema.json'))
for f in sorted(glob.glob('/verif/evidence/*.json')):
    jsonschema.validate(json.load(open(f)), es)
    e = json.load(open(f)); c = e['coverage']
    print(f.split('/')[-1], e['tier'], 'evals', c.get('evaluations'), 'distinct', c.get('distinct_nontrivial'), 'wall', round(e['wall_s'],1), 'viol', e.get('violations'))
print('all valid')
