#!/bin/bash
# seedrun2.sh <patch.diff> <propid>... : run the quick checks against a seeded change
# without touching /repo: a scratch worktree of /repo HEAD (+ uncommitted tracked edits are
# NOT included) gets the patch, and vcheck builds against it (VERIF_DEVREPO).  Output goes to
# .build/dev-<name>; committed evidence is left alone.
set -u
P=$(realpath $1); shift
WT=/tmp/sr-$$
git -C /repo worktree add -q --detach $WT HEAD || exit 3
cleanup() { git -C /repo worktree remove --force $WT; rm -rf /verif/.build/dev-sr-$$; }
trap cleanup EXIT
git -C $WT apply $P || { echo "PATCH DOES NOT APPLY"; exit 4; }
cd /verif
for id in "$@"; do
  VERIF_DEVREPO=$WT VERIF_SEED=${VERIF_SEED:-0} bin/vcheck run $id ${TIER:-quick} > /tmp/seedrun.$$.$id.log 2>&1; rc=$?
  echo "check $id exit=$rc $(grep -c '^VIOLATION' /tmp/seedrun.$$.$id.log) violation lines; $(grep -o 'sig=[^ ]*' /tmp/seedrun.$$.$id.log | sort | uniq -c | head -5 | tr '\n' ';') log=/tmp/seedrun.$$.$id.log"
done
