#!/bin/bash
# seedrun.sh <patch.diff> <propid>... : apply a seeded change to /repo, run the quick checks, undo.
set -u
P=$1; shift
cd /verif
git -C /repo diff --quiet || { echo "/repo dirty"; exit 3; }
git -C /repo apply $P || { echo "PATCH DOES NOT APPLY"; exit 4; }
for id in "$@"; do
  VERIF_SEED=${VERIF_SEED:-0} bin/vcheck run $id ${TIER:-quick} > /tmp/seedrun.$id.log 2>&1; rc=$?
  echo "check $id exit=$rc $(grep -c '^VIOLATION' /tmp/seedrun.$id.log) violation lines; $(grep -o 'sig=[^ ]*' /tmp/seedrun.$id.log | sort | uniq -c | head -5 | tr '\n' ';')"
done
git -C /repo checkout -- .
git -C /verif checkout -- evidence 2>/dev/null
